"""E3 / derived-state coherence (rule RS of every property whose anchored functions read the state).

A *derived attribute* is an instance attribute `self.A` assigned, anywhere in a class of the package, from an
expression that reads other instance state of the same object (directly, through locals of the same function, or
through the package's own property getters / methods on `self`).  Memoised property values (`try: return self._dt
except AttributeError: self._dt = ...`, `if self._x is None: self._x = ...`) and flags computed once in `__init__`
(`self._circular = self.pol_type == "circular"`) are of this kind.  The rule:

    every function of the class hierarchy that assigns one of the storage attributes the derived attribute was
    computed from must also assign (reset / recompute) the derived attribute;
    and no derived attribute may depend on the *contents* of the sample buffer, which can change without any
    attribute assignment (in-place operators, out=, writes through `.data`).

Otherwise `obj.<prop> = v` (a public setter) leaves a stale value behind and every later result computed from it
is wrong for the labels the object now reports.  `__init__` is exempt as a writer (it runs before any derived state
exists).  State read through `self[...]` (items of an external base class such as an astropy table) has writers the
analysis cannot enumerate; such attributes are listed in the evidence as not decided and never reported.

The rule is reported under a property only when a function the property is anchored in (transitively, through
calls and attribute reads resolved by name inside the package) reads the derived attribute.
"""
from __future__ import annotations

import ast

from .model import is_cached_property, Program, AnalysisError, norm

META_ATTRS = {"shape", "ndim", "dtype", "size", "chunks", "nbytes", "itemsize", "npartitions", "chunksize"}
BUFFER_ATTRS = {"_data": "the sample buffer is writable in place (out=, in-place operators, z.data[...] = v) without any attribute assignment"}


VALUE_BASES = ("Quantity", "SpecificTypeQuantity", "Angle", "Longitude", "Latitude", "ndarray", "Time", "TimeDelta", "MaskedArray")


def _bare_self_value(n, parents):
    """`self` used as a VALUE (operand of arithmetic, argument of a call), not as the base of an attribute / item access."""
    if not (isinstance(n, ast.Name) and n.id == "self" and isinstance(n.ctx, ast.Load)):
        return False
    par = parents.get(id(n))
    if isinstance(par, (ast.Attribute, ast.Subscript)) and par.value is n:
        return False
    if isinstance(par, (ast.BinOp, ast.UnaryOp, ast.Compare)):
        return True
    if isinstance(par, ast.Call) and n in par.args:
        f = norm(par.func)
        return f not in ("isinstance", "type", "id", "super", "hasattr", "getattr", "len") and not f.endswith(".like")
    return False


def _is_self_attr(n):
    return isinstance(n, ast.Attribute) and isinstance(n.value, ast.Name) and n.value.id == "self"


class ClassView:
    """All functions visible on instances of a class (own and inherited), by kind."""
    def __init__(self, prog: Program, ci):
        self.prog, self.ci = prog, ci
        self.mro = ci.mro()

    def prop(self, name):
        return self.ci.find_property(name)

    def method(self, name):
        return self.ci.find_method(name)

    def functions(self):
        seen = set()
        for c in self.mro:
            for fi in c.methods.values():
                if id(fi) not in seen:
                    seen.add(id(fi))
                    yield fi
            for pr in c.properties.values():
                for fi in pr.values():
                    if fi is not None and id(fi) not in seen:
                        seen.add(id(fi))
                        yield fi


class Reads:
    """Storage attributes of `self` an expression depends on: {(attr, 'meta'|'content'|'items')}."""
    def __init__(self, view: ClassView):
        self.view = view
        self._fn_cache = {}

    def of_function_returns(self, fi, depth=0):
        """Everything a getter / method reads from self (flow-insensitive over its whole body)."""
        key = id(fi)
        if key in self._fn_cache:
            return self._fn_cache[key]
        self._fn_cache[key] = set()
        out = set()
        if depth <= 6:
            parents = _parents(fi.node)
            for n in ast.walk(fi.node):
                if _is_self_attr(n) and isinstance(n.ctx, ast.Load):
                    out |= self._attr(fi, n, parents, depth)
                elif isinstance(n, ast.Subscript) and isinstance(n.value, ast.Name) and n.value.id == "self" and isinstance(n.ctx, ast.Load):
                    out |= self._items(depth)
                elif _bare_self_value(n, parents):
                    out.add(("<value of self>", "content"))
        self._fn_cache[key] = out
        return out

    def _items(self, depth):
        """`self[...]`: what the class's own `__getitem__` (defined inside the package) reads; items of an external base class
        (a Table, a dict) otherwise."""
        me = self.view.method("__getitem__")
        if me is not None:
            return set(self.of_function_returns(me, depth + 1)) or {("<items of self>", "items")}
        return {("<items of self>", "items")}

    def _attr(self, fi, n, parents, depth):
        name = n.attr
        par = parents.get(id(n))
        meta = (isinstance(par, ast.Attribute) and par.attr in META_ATTRS) or \
            (isinstance(par, ast.Call) and isinstance(par.func, ast.Name) and par.func.id == "len" and par.args and par.args[0] is n)
        pr = self.view.prop(name)
        if pr is not None and pr["get"] is not None:
            inner = self.of_function_returns(pr["get"], depth + 1)
            return {(a, "meta" if (meta and m != "items") else m) for a, m in inner}
        me = self.view.method(name)
        if me is not None:
            if isinstance(par, ast.Call) and par.func is n:
                return set(self.of_function_returns(me, depth + 1))
            return set()
        return {(name, "meta" if meta else "content")}

    def of_expr(self, fi, expr, depth=0, seen=None):
        seen = seen if seen is not None else set()
        out = set()
        parents = _parents(fi.node)
        for n in ast.walk(expr):
            if _is_self_attr(n) and isinstance(n.ctx, ast.Load):
                out |= self._attr(fi, n, parents, depth)
            elif isinstance(n, ast.Subscript) and isinstance(n.value, ast.Name) and n.value.id == "self":
                out |= self._items(depth)
            elif isinstance(n, ast.Name) and isinstance(n.ctx, ast.Load) and n.id != "self" and n.id not in seen:
                seen.add(n.id)
                for rhs in _local_defs(fi.node, n.id):
                    out |= self.of_expr(fi, rhs, depth, seen)
        return out


def _parents(root):
    cache = getattr(root, "_pbv_parents", None)
    if cache is None:
        cache = {}
        for p in ast.walk(root):
            for c in ast.iter_child_nodes(p):
                cache[id(c)] = p
        try:
            root._pbv_parents = cache
        except Exception:
            pass
    return cache


def _local_defs(fn, name):
    """RHS expressions of every binding of local `name` in function `fn` (flow-insensitive)."""
    out = []
    for n in ast.walk(fn):
        if isinstance(n, ast.Assign):
            for t in n.targets:
                if any(isinstance(e, ast.Name) and e.id == name for e in ast.walk(t)):
                    out.append(n.value)
        elif isinstance(n, (ast.AugAssign, ast.AnnAssign)) and n.value is not None:
            if any(isinstance(e, ast.Name) and e.id == name for e in ast.walk(n.target)):
                out.append(n.value)
        elif isinstance(n, (ast.For, ast.comprehension)):
            if any(isinstance(e, ast.Name) and e.id == name for e in ast.walk(n.target)):
                out.append(n.iter)
        elif isinstance(n, ast.withitem) and n.optional_vars is not None:
            if any(isinstance(e, ast.Name) and e.id == name for e in ast.walk(n.optional_vars)):
                out.append(n.context_expr)
        elif isinstance(n, ast.NamedExpr) and n.target.id == name:
            out.append(n.value)
        elif isinstance(n, ast.Call) and isinstance(n.func, ast.Attribute) and isinstance(n.func.value, ast.Name) and n.func.value.id == name \
                and n.func.attr in ("append", "extend", "add", "insert", "update", "setdefault", "appendleft"):
            out.extend(n.args)
            out.extend(k.value for k in n.keywords)
    return out


def _is_self_dict(n):
    """self.__dict__ or vars(self)"""
    if isinstance(n, ast.Attribute) and n.attr == "__dict__" and isinstance(n.value, ast.Name) and n.value.id == "self":
        return True
    return isinstance(n, ast.Call) and isinstance(n.func, ast.Name) and n.func.id == "vars" and len(n.args) == 1 \
        and isinstance(n.args[0], ast.Name) and n.args[0].id == "self"


def _stores(fi):
    """[(attr, rhs or None, node)] for every store to self.<attr> in the function."""
    out = []
    for n in ast.walk(fi.node):
        if isinstance(n, ast.Assign):
            for t in n.targets:
                for e in ([t] if not isinstance(t, (ast.Tuple, ast.List)) else t.elts):
                    if _is_self_attr(e):
                        out.append((e.attr, n.value, n))
        elif isinstance(n, (ast.AugAssign, ast.AnnAssign)) and _is_self_attr(n.target):
            out.append((n.target.attr, n.value, n))
        elif isinstance(n, ast.Delete):
            for e in n.targets:
                if _is_self_attr(e):
                    out.append((e.attr, None, n))
        elif isinstance(n, ast.Call) and isinstance(n.func, ast.Attribute) and n.func.attr in ("pop", "__setitem__", "__delitem__", "setdefault") \
                and _is_self_dict(n.func.value) and n.args and isinstance(n.args[0], ast.Constant) and isinstance(n.args[0].value, str):
            out.append((n.args[0].value, None, n))
        elif isinstance(n, ast.Subscript) and isinstance(n.ctx, (ast.Store, ast.Del)) and _is_self_dict(n.value) \
                and isinstance(n.slice, ast.Constant) and isinstance(n.slice.value, str):
            out.append((n.slice.value, None, n))
        elif isinstance(n, ast.Call) and isinstance(n.func, ast.Attribute) and n.func.attr in ("clear", "update") and _is_self_dict(n.func.value):
            out.append(("*", None, n))
        elif isinstance(n, ast.Call) and isinstance(n.func, ast.Name) and n.func.id in ("setattr", "delattr") and len(n.args) >= 2 \
                and isinstance(n.args[0], ast.Name) and n.args[0].id == "self" and isinstance(n.args[1], ast.Constant):
            out.append((n.args[1].value, n.args[2] if len(n.args) > 2 else None, n))
    return out


ARRAY_MAKERS = {"arange", "array", "asarray", "asanyarray", "zeros", "ones", "empty", "full", "linspace", "stack", "concatenate", "fftfreq", "rfftfreq",
                "meshgrid", "indices", "tile", "repeat"}


def _handed_out_array(fi, attr, store_node):
    """The return statement of `fi` that hands out self.<attr> itself when the memoised value is array-valued; None otherwise.
    For functools.cached_property the decorator stores and returns the getter's own result: `store_node` is then the function."""
    fn = fi.node
    if fi.name.startswith("_") and not (fi.name.startswith("__") and fi.name.endswith("__")):
        return None          # a private helper: its callers are library code, whose writes the alias analysis (memoised-result roots) decides

    def arrayish(e, seen=()):
        for n in ast.walk(e):
            if isinstance(n, ast.Call) and isinstance(n.func, ast.Attribute) and n.func.attr in ARRAY_MAKERS and isinstance(n.func.value, (ast.Name, ast.Attribute)) \
                    and norm(n.func.value).split(".")[0] in ("np", "numpy", "da", "dask"):
                return True
            if isinstance(n, ast.Name) and isinstance(n.ctx, ast.Load) and n.id not in seen and n.id != "self":
                for rhs in _local_defs(fn, n.id):
                    if arrayish(rhs, seen + (n.id,)):
                        return True
        return False

    def copied(e):
        return isinstance(e, ast.Call) and ((isinstance(e.func, ast.Attribute) and e.func.attr in ("copy", "tolist")) or norm(e.func) in ("copy.copy", "copy.deepcopy", "np.array", "tuple"))
    rets = [r for r in ast.walk(fn) if isinstance(r, ast.Return) and r.value is not None]
    if isinstance(store_node, (ast.FunctionDef, ast.AsyncFunctionDef)):          # cached_property
        for r in rets:
            if not copied(r.value) and arrayish(r.value):
                return r
        return None
    rhs = getattr(store_node, "value", None)
    if rhs is None or not arrayish(rhs):
        return None
    for r in rets:
        v = r.value
        if _is_self_attr(v) and v.attr == attr:
            return r
        if isinstance(v, ast.Name) and any(_is_self_attr(d) and d.attr == attr for d in _local_defs(fn, v.id)):
            return r
    return None


def analyse(prog: Program):
    """-> dict(derived=[...], violations=[...], undecided=[...], classes=n, stores=n)"""
    derived, violations, undecided = [], [], []
    n_cls = n_stores = 0
    reported = set()
    classes = [c for c in prog.classes()]
    for ci in classes:
        n_cls += 1
        view = ClassView(prog, ci)
        reads = Reads(view)
        fns = list(view.functions())
        writers = {}      # storage attr -> [(fi, node)]
        for fi in fns:
            for attr, rhs, node in _stores(fi):
                pr = view.prop(attr)
                if pr is not None and pr["set"] is not None:
                    continue        # goes through the setter, which is examined itself
                writers.setdefault(attr, []).append((fi, node))
        candidates = []
        for fi in fns:
            if fi.cls is not ci:
                continue            # derived attributes are attributed to the class that defines the assignment
            for attr, rhs, node in _stores(fi):
                n_stores += 1
                if rhs is None:
                    continue
                pr = view.prop(attr)
                if pr is not None and pr["set"] is not None:
                    continue
                deps = {(a, m) for a, m in reads.of_expr(fi, rhs) if a != attr}
                candidates.append((fi, attr, node, deps))
        # functools.cached_property (and astropy's lazyproperty): the getter's first result is kept in the instance dict under
        # the property's own name -- a derived attribute whose "assignment" is the decorator
        for pname, pr in ci.properties.items():
            g = pr.get("get")
            if is_cached_property(g):
                n_stores += 1
                deps = {(a, m) for a, m in reads.of_function_returns(g) if a != pname}
                candidates.append((g, pname, g.node, deps))
        for fi, attr, node, deps in candidates:
            if True:
                if not deps:
                    continue
                # a memoised ARRAY handed out by reference: the caller's in-place arithmetic on what a getter returned
                # (f = z.labels; f -= ...) rewrites the memo although the state it was computed from is unchanged
                ho = _handed_out_array(fi, attr, node)
                if ho is not None and (ci.name, attr, "handed-out") not in reported:
                    reported.add((ci.name, attr, "handed-out"))
                    violations.append({"class": ci.name, "attr": attr, "defined_in": fi, "line": getattr(ho, "lineno", node.lineno), "dep": "(returned by reference)", "writer": None,
                                       "what": f"self.{attr} memoises an array computed from {sorted(a for a, _ in deps)} and {fi.qualname} returns that very array: "
                                               f"in-place arithmetic by the caller on the returned value corrupts the memo for every later reader "
                                               f"(return a copy, or compute afresh)"})
                rec = {"class": ci.name, "attr": attr, "in": fi.qualname, "where": f"{fi.where}", "line": node.lineno,
                       "deps": sorted(f"{a} ({m})" for a, m in deps)}
                derived.append(rec)
                if any(m == "items" for _, m in deps):
                    undecided.append(dict(rec, why="depends on items of an external base class (self[...]); its writers cannot be enumerated"))
                # subclasses may add writers as well: look at every class whose MRO contains ci
                scopes = [c for c in classes if ci in c.mro()]
                for a, m in sorted(deps):
                    if m == "items":
                        continue
                    if a == "<value of self>":
                        bases = [b for c_ in ci.mro() for b in getattr(c_, "ext_bases", [])]
                        if any(b.split(".")[-1] in VALUE_BASES for b in bases):
                            key = (ci.name, attr, a, "own value")
                            if key not in reported:
                                reported.add(key)
                                violations.append({"class": ci.name, "attr": attr, "defined_in": fi, "line": node.lineno, "dep": "(the object's own numeric value)", "writer": None,
                                                   "what": f"self.{attr} (set in {fi.qualname}) caches a value computed from the object's own numeric value; "
                                                           f"{ci.name} inherits in-place operators and item assignment from {[b for b in bases if b.split('.')[-1] in VALUE_BASES][:1]}, "
                                                           "which change that value without any attribute assignment, so the cache goes stale"})
                        continue
                    if m == "content" and a in BUFFER_ATTRS:
                        key = (ci.name, attr, a, "buffer")
                        if key not in reported:
                            reported.add(key)
                            violations.append({"class": ci.name, "attr": attr, "defined_in": fi, "line": node.lineno, "dep": a, "writer": None,
                                               "what": f"self.{attr} (assigned in {fi.qualname}) caches a value computed from the contents of self.{a}: "
                                                       f"{BUFFER_ATTRS[a]}, so it goes stale"})
                        continue
                    for sc in scopes:
                        v2 = ClassView(prog, sc)
                        for w in v2.functions():
                            if w is fi or w.name == "__init__":
                                continue
                            st = _stores(w)
                            if not any(x == a for x, _, _ in st):
                                continue
                            pr2 = v2.prop(a)
                            if pr2 is not None and pr2["set"] is not None and w is not pr2["set"]:
                                continue
                            if any(x in (attr, "*") for x, _, _ in st):
                                continue
                            key = (ci.name, attr, a, w.qualname)
                            if key in reported:
                                continue
                            reported.add(key)
                            violations.append({"class": ci.name, "attr": attr, "defined_in": fi, "line": node.lineno, "dep": a, "writer": w,
                                               "what": f"self.{attr} is computed from self.{a} in {fi.qualname} but {w.qualname} assigns self.{a} "
                                                       f"without updating or resetting self.{attr}: stale derived state after the assignment"})
    # state parked on somebody else's object: `z._memo = f(z.data)` in a function that is not a method of z's class.  No setter
    # of that class can know about the attribute, so nothing resets it; when it is computed from the sample buffer it is stale
    # after any in-place change of the samples.
    from . import memo as _memo
    storage = None
    for fi in prog.all_functions:
        if not isinstance(fi.node, (ast.FunctionDef, ast.AsyncFunctionDef)):
            continue
        params = {a.arg for a in list(fi.node.args.posonlyargs) + list(fi.node.args.args) + list(fi.node.args.kwonlyargs)} - {"self", "cls"}
        sl = None
        for n in ast.walk(fi.node):
            if not isinstance(n, ast.Assign):
                continue
            for t in n.targets:
                if not (isinstance(t, ast.Attribute) and isinstance(t.value, ast.Name) and t.value.id in params):
                    continue
                p_, attr = t.value.id, t.attr
                n_stores += 1
                # a public property with a setter of one of the package's classes is that class's own business
                if any(c.find_property(attr) is not None and c.find_property(attr).get("set") is not None for c in classes):
                    continue
                if sl is None:
                    sl = _memo.Slice(fi.node)
                    storage = storage or _memo.Storage(prog)
                atoms_ = {a for a in sl.atoms(n.value, n.lineno) if a[0] == p_ and a[1]}
                if not atoms_:
                    continue
                need = set()
                for r_, c_, _ in atoms_:
                    first = c_[0]
                    if first.startswith("<"):
                        need.add(("_data", "meta"))
                        continue
                    cands = storage.of(None, first)
                    if cands:
                        meta_only = len(c_) > 1 and c_[1] in _memo.META_TAILS
                        for _, rd in cands:
                            need |= {(a, "meta" if meta_only and m == "content" else m) for a, m in rd}
                    else:
                        need.add((first, "content"))
                rec = {"class": "(argument `" + p_ + "`)", "attr": attr, "in": fi.qualname, "where": fi.where, "line": n.lineno,
                       "deps": sorted(f"{a} ({m})" for a, m in need)}
                derived.append(rec)
                buf = [a for a, m in need if m == "content" and a in BUFFER_ATTRS]
                if buf:
                    why = (f"{fi.qualname} parks `{p_}.{attr}` on its argument, computed from the contents of {p_}.{buf[0].lstrip('_')}: "
                           f"{BUFFER_ATTRS[buf[0]]}, and no method of the argument's class knows the attribute, so it goes stale")
                else:
                    why = (f"{fi.qualname} parks `{p_}.{attr}` on its argument, computed from {sorted(a for a, _ in need)}: no setter of the "
                           "argument's class knows the attribute, so nothing resets it when that state is assigned")
                key = ("(argument)", fi.qualname, attr)
                if key not in reported:
                    reported.add(key)
                    violations.append({"class": "(argument)", "attr": attr, "defined_in": fi, "line": n.lineno, "dep": ", ".join(sorted(a for a, _ in need)),
                                       "writer": None, "what": why})
    return {"derived": derived, "violations": violations, "undecided": undecided, "classes": n_cls, "stores": n_stores}


# --------------------------------------------------------------------------------------------- relevance
def closure_reads(prog: Program, roots, depth=5):
    """Names of attributes loaded (on any receiver) by the functions reachable from `roots` through calls and
    property reads resolved by simple name inside the package."""
    by_name, getters = {}, {}
    for f in prog.all_functions:
        if f.kind in ("property",):
            getters.setdefault(f.name, []).append(f)
        elif f.kind != "setter":
            by_name.setdefault(f.name, []).append(f)
    seen, frontier, loaded = set(), list(roots), set()
    for _ in range(depth):
        nxt = []
        for f in frontier:
            if id(f) in seen:
                continue
            seen.add(id(f))
            for n in ast.walk(f.node):
                if isinstance(n, ast.Attribute):
                    loaded.add(n.attr)
                    nxt.extend(getters.get(n.attr, []))
                    nxt.extend(by_name.get(n.attr, []))
                elif isinstance(n, ast.Name):
                    nxt.extend(by_name.get(n.id, []))
        frontier = nxt
    return loaded


def anchor_functions(prog, pid):
    from .selftest import ANCHORS, A
    out = []
    for key, qual in ANCHORS.get(pid, []):
        mod = A[key][:-3].replace("/", ".")
        for f in prog.all_functions:
            if f.qualname == qual and f.module == mod:
                out.append(f)
    return out


# --------------------------------------------------------------------------------------------- controls
def _control_sources(prog: Program):
    """Two variants of pulsarbat/core.py built from today's source: a property added to Signal that memoises
    1 / self.sample_rate without invalidation (must be reported) and the same with a reset appended to the sample_rate
    setter (must be silent)."""
    mi = prog.module("pulsarbat.core")
    tree = ast.parse(mi.source)
    sig = next((n for n in tree.body if isinstance(n, ast.ClassDef) and n.name == "Signal"), None)
    if sig is None:
        raise AnalysisError("control anchor class Signal not found")
    setter = next((n for n in sig.body if isinstance(n, ast.FunctionDef) and n.name == "sample_rate"
                   and any(isinstance(d, ast.Attribute) and d.attr == "setter" for d in n.decorator_list)), None)
    if setter is None:
        raise AnalysisError("control anchor Signal.sample_rate setter not found")
    memo = ast.parse("@property\ndef _pbv_ctl(self):\n    try:\n        return self._pbv_memo\n    except AttributeError:\n"
                     "        self._pbv_memo = 1 / self.sample_rate\n        return self._pbv_memo\n").body[0]
    reader = ast.parse("def _pbv_ctl_reader(self):\n    return self._pbv_ctl, self._pbv_memo\n").body[0]
    sig.body.extend([memo, reader])
    ast.fix_missing_locations(tree)
    bad = ast.unparse(tree)
    setter.body.append(ast.parse("try:\n    del self._pbv_memo\nexcept AttributeError:\n    pass\n").body[0])
    ast.fix_missing_locations(tree)
    good = ast.unparse(tree)
    return bad, good


def run_controls(prog: Program):
    bad, good = _control_sources(prog)
    rel = "pulsarbat/core.py"
    rb = analyse(Program(prog.repo, overlay=dict(prog.overlay, **{rel: bad})))
    rg = analyse(Program(prog.repo, overlay=dict(prog.overlay, **{rel: good})))
    fired = [v for v in rb["violations"] if v["attr"] == "_pbv_memo"]
    silent = not [v for v in rg["violations"] if v["attr"] == "_pbv_memo"]
    return bool(fired), silent


def check(run, prog: Program, pid, rule="RS"):
    """Adds the obligations of rule RS to a property's run."""
    res = analyse(prog)
    # relevance: the functions this property's rules actually entered (the evaluators' inlining records and the functions
    # the rule modules declared as analysed), plus the anchored functions themselves
    from .symeval import ALL_EVALUATORS
    entered = set(run.analysed["functions"])
    for ev_ in ALL_EVALUATORS:
        if ev_.prog is prog or getattr(ev_.prog, "repo", None) == prog.repo:
            entered |= set(ev_.touched)
    roots = anchor_functions(prog, pid)
    fmap = {f"{f.module}:{f.qualname}": f for f in prog.all_functions}
    funcs = [fmap[k] for k in entered if k in fmap] + roots
    loaded = set()
    for f in funcs:
        for n in ast.walk(f.node):
            if isinstance(n, ast.Attribute) and isinstance(n.ctx, ast.Load):
                loaded.add(n.attr)
    run.extra.setdefault("state_coherence", {})
    run.extra["state_coherence"] = {
        "classes_examined": res["classes"], "attribute_stores_examined": res["stores"],
        "derived_attributes": [dict(d) for d in res["derived"]],
        "not_decided": [dict(d) for d in res["undecided"]],
        "functions_entered_by_this_property": len(funcs),
    }
    fired, silent = run_controls(prog)
    run.ob(rule, "pulsarbat/core.py Signal", "control: a property memoising 1/self.sample_rate without invalidation / with a reset in the sample_rate setter",
           "the coherence rule reports the first variant and is silent on the second (built from today's source on every run)",
           True if (fired and silent) else None, found=f"fired={fired} silent={silent}")
    run.floor(rule, "classes examined for derived state", res["classes"], 15)
    for f in funcs:
        for n in ast.walk(f.node):
            # getattr(self, "_memo", None) / hasattr / setattr spell an attribute as a string
            if isinstance(n, ast.Call) and isinstance(n.func, ast.Name) and n.func.id in ("getattr", "hasattr", "setattr") and len(n.args) >= 2 \
                    and isinstance(n.args[1], ast.Constant) and isinstance(n.args[1].value, str):
                loaded.add(n.args[1].value)
    fids = {id(f) for f in funcs}
    mine = [v for v in res["violations"] if v["attr"] in loaded or id(v["defined_in"]) in fids]
    for v in mine:
        fi = v["defined_in"]
        run.ob(rule, fi.where, f"self.{v['attr']} <- self.{v['dep']}" + (f" / {v['writer'].qualname}" if v["writer"] else ""),
               "derived instance state is updated wherever the state it was computed from is assigned", False,
               found=v["what"], nontrivial=True)
    if not mine:
        run.ob(rule, "pulsarbat (all classes)", f"{len(res['derived'])} derived attribute(s): " + ", ".join(f"{d['class']}.{d['attr']}" for d in res["derived"]),
               "derived instance state read by this property's functions is updated wherever the state it was computed from is assigned",
               True, found=f"{res['stores']} attribute stores in {res['classes']} classes examined; "
               f"{len(res['violations'])} incoherent attribute(s) in the package, none read here", nontrivial=bool(res["derived"]))
    return res
