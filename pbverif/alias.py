"""E3 / alias domain: flow-sensitive may-alias ("roots") tracking and mutation sinks.

Every abstract value is a pair (roots, kind):
  roots - frozenset of parameter names whose object / buffer / metadata the value may
          alias (a view, the object itself, or a container holding it);
  kind  - a small tag for values whose in-place operators are known not to mutate
          ('time' for astropy Time, which has no __iadd__; 'scalar' for python numbers;
          'handle' for file handles opened inside the function; 'str').

A *mutation sink* applied to a value with non-empty roots is a report.  Function
summaries (which parameters a function mutates / which it may return an alias of) are
computed to a fixpoint so that a helper cannot hide a write.
"""
from __future__ import annotations

import ast
from dataclasses import dataclass, field

from .model import Program, FunctionInfo, attr_chain, norm

EMPTY = frozenset()

# ---- API table: alias behaviour of third-party callables -------------------------------
# numpy / dask / astropy functions returning a *view or the same object* of their first argument
VIEW_FUNCS = {
    "numpy.asarray", "numpy.asanyarray", "numpy.ascontiguousarray", "numpy.broadcast_to",
    "numpy.moveaxis", "numpy.swapaxes", "numpy.transpose", "numpy.reshape", "numpy.ravel",
    "numpy.squeeze", "numpy.expand_dims", "numpy.atleast_1d", "numpy.atleast_2d", "numpy.atleast_3d",
    "numpy.real", "numpy.imag", "numpy.flip", "numpy.flipud", "numpy.fliplr", "numpy.rollaxis",
    "numpy.diagonal", "numpy.broadcast_arrays", "numpy.lib.stride_tricks.as_strided",
    "numpy.lib.stride_tricks.sliding_window_view", "numpy.nditer", "numpy.split", "numpy.array_split",
    "numpy.hsplit", "numpy.vsplit", "numpy.dsplit", "numpy.rot90", "numpy.view", "numpy.nan_to_num_view",
    "dask.array.asarray", "dask.array.asanyarray", "dask.array.from_array",
    "astropy.units.Quantity", "astropy.coordinates.Angle", "astropy.coordinates.Longitude",
    "iter", "reversed", "enumerate", "zip", "tuple", "list", "dict", "sorted", "set", "frozenset",
    "getattr", "next", "functools.partial", "vars", "memoryview", "map", "filter",
    "dask.delayed", "dask.array.from_delayed", "dask.array.map_blocks",
}
# builtins that build a new container around the elements of their argument
NEW_CONTAINER_FUNCS = {"dict", "list", "set", "frozenset", "sorted", "tuple", "builtins.dict", "builtins.list", "builtins.set", "builtins.sorted",
                       "builtins.tuple", "builtins.frozenset", "collections.OrderedDict", "copy.copy"}
# functions that return a fresh object not sharing memory with any argument
FRESH_FUNCS = {
    "numpy.array", "numpy.copy", "numpy.stack", "numpy.concatenate", "numpy.take", "numpy.where",
    "numpy.zeros", "numpy.ones", "numpy.empty", "numpy.full", "numpy.zeros_like", "numpy.ones_like",
    "numpy.empty_like", "numpy.full_like", "numpy.arange", "numpy.linspace", "numpy.exp", "numpy.sqrt",
    "numpy.floor", "numpy.ceil", "numpy.round", "numpy.abs", "numpy.absolute", "numpy.sign", "numpy.conj",
    "numpy.conjugate", "numpy.sin", "numpy.cos", "numpy.tan", "numpy.log", "numpy.sum", "numpy.prod",
    "numpy.mean", "numpy.min", "numpy.max", "numpy.all", "numpy.any", "numpy.allclose", "numpy.isclose",
    "numpy.iscomplexobj", "numpy.isrealobj", "numpy.unique", "numpy.searchsorted", "numpy.lexsort",
    "numpy.argsort", "numpy.sort", "numpy.bool_", "numpy.dtype", "numpy.count_nonzero", "numpy.floor_divide",
    "numpy.add", "numpy.subtract", "numpy.multiply", "numpy.divide", "numpy.negative", "numpy.positive",
    "numpy.roll", "numpy.tile", "numpy.repeat", "numpy.pad", "numpy.square", "numpy.angle", "numpy.clip",
    "numpy.unravel_index", "numpy.take_along_axis", "numpy.vectorize", "numpy.array2string", "numpy.int64",
    "numpy.float64", "numpy.complex128", "numpy.complex64", "numpy.float32", "numpy.diff", "numpy.cumsum",
    "numpy.fft.fft", "numpy.fft.ifft", "numpy.fft.fftshift", "numpy.fft.ifftshift", "numpy.fft.fftfreq",
    "numpy.fft.rfft", "numpy.fft.irfft", "numpy.s_", "numpy.index_exp", "numpy.vstack", "numpy.hstack",
    "numpy.dstack", "numpy.column_stack", "numpy.append", "numpy.delete", "numpy.insert", "numpy.einsum",
    "numpy.dot", "numpy.matmul", "numpy.tensordot", "numpy.outer", "numpy.median", "numpy.var", "numpy.std",
    "numpy.polynomial.Polynomial", "numpy.result_type", "numpy.can_cast", "numpy.shape", "numpy.ndim",
    "numpy.size", "numpy.isscalar", "numpy.iterable", "numpy.nonzero", "numpy.argmin", "numpy.argmax",
    "numpy.maximum", "numpy.minimum", "numpy.power", "numpy.mod", "numpy.remainder", "numpy.rint",
    "numpy.trunc", "numpy.isfinite", "numpy.isnan", "numpy.logical_and", "numpy.logical_or",
    "numpy.logical_not", "numpy.equal", "numpy.not_equal", "numpy.less", "numpy.greater",
    "dask.array.fft.fftfreq", "dask.array.arange", "dask.array.fft.fft_wrap", "dask.array.zeros",
    "dask.array.ones", "dask.array.stack", "dask.array.concatenate", "dask.array.where", "dask.array.take",
    "dask.array.exp", "dask.compute", "dask.persist", "dask.base.tokenize", "dask.base.normalize_token",
    "math.ceil", "math.floor", "math.sqrt", "math.prod", "math.isclose", "math.gcd",
    "operator.index", "operator.itemgetter", "operator.attrgetter",
    "len", "int", "float", "bool", "str", "complex", "abs", "round", "min", "max", "sum", "any", "all",
    "isinstance", "issubclass", "hasattr", "type", "range", "slice", "id", "hex", "repr", "format",
    "callable", "divmod", "pow", "ord", "chr", "print", "hash", "super", "object", "property",
    "inspect.signature", "pprint.pformat", "copy.copy", "copy.deepcopy",
    "astropy.time.Time", "astropy.time.Time.isclose", "astropy.units.isclose", "astropy.units.allclose",
    "astropy.units.Unit", "baseband.open", "open", "contextlib.nullcontext", "functools.reduce",
    "functools.wraps", "functools.lru_cache", "functools.singledispatch",
    "scipy.fft.fft", "scipy.fft.ifft", "scipy.fft.fft2", "scipy.fft.ifft2", "scipy.fft.fftn", "scipy.fft.ifftn",
    "scipy.fft.rfft", "scipy.fft.irfft", "scipy.fft.rfft2", "scipy.fft.irfft2", "scipy.fft.rfftn",
    "scipy.fft.irfftn", "scipy.fft.hfft", "scipy.fft.ihfft", "scipy.fft.next_fast_len",
    "scipy.optimize.root_scalar", "scipy.signal.medfilt",
}
# functions that write into their first positional argument
MUTATING_FUNCS = {
    "numpy.copyto", "numpy.put", "numpy.place", "numpy.putmask", "numpy.fill_diagonal",
    "numpy.put_along_axis", "numpy.random.shuffle", "random.shuffle", "numpy.ndarray.sort",
    "numpy.ndarray.fill", "numpy.add.at", "numpy.subtract.at", "numpy.multiply.at", "setattr",
    "delattr", "operator.setitem", "operator.delitem", "operator.iadd", "operator.imul",
    "operator.isub", "operator.itruediv", "heapq.heappush", "heapq.heappop", "heapq.heapify",
}
INPLACE_WHEN_COPY_FALSE = {"numpy.nan_to_num"}
KIND_OF_FUNC = {"astropy.time.Time": "time", "baseband.open": "handle", "open": "handle",
                "operator.index": "scalar", "int": "scalar", "float": "scalar", "len": "scalar",
                "str": "str", "bool": "scalar", "math.ceil": "scalar", "math.floor": "scalar",
                "round": "scalar", "type": "type", "isinstance": "scalar", "issubclass": "scalar"}

# methods (any receiver) that return a view / the receiver itself
VIEW_METHODS = {
    "reshape", "swapaxes", "transpose", "view", "ravel", "squeeze", "diagonal", "flat",
    "__getitem__", "get", "items", "values", "keys", "setdefault", "pop", "to_value", "conj",
    "conjugate", "newbyteorder", "getfield", "__iter__", "__enter__", "rechunk", "persist",
    "map_blocks", "map_overlap", "to_delayed", "blocks", "popitem", "__array__",
}
# methods returning fresh data for ndarray / Quantity / Time / dask receivers
FRESH_METHODS = {
    "copy", "astype", "round", "sum", "mean", "min", "max", "std", "var", "prod", "all", "any",
    "argmin", "argmax", "argsort", "cumsum", "cumprod", "flatten", "tolist", "tobytes", "item",
    "compute", "to", "decompose", "isclose", "format", "strip", "lower", "upper", "split", "join",
    "partition", "rpartition", "translate", "replace", "startswith", "endswith", "encode", "decode",
    "indices", "index", "count", "nonzero", "repeat", "take", "dot", "clip", "searchsorted",
    "deriv", "integ", "convert", "read", "readline", "readlines", "seek", "tell", "close",
    "isoformat", "to_string", "maketrans", "bit_length", "is_integer", "total_seconds",
    "choose", "compress", "trace", "ptp", "byteswap", "dump", "dumps", "tofile",
}
# methods that mutate their receiver
MUTATING_METHODS = {
    "sort", "fill", "resize", "put", "partition_inplace", "itemset", "setfield", "setflags",
    "update", "append", "extend", "insert", "remove", "clear", "reverse", "add", "discard",
    "setdefault", "pop", "popitem", "__setitem__", "__delitem__", "__iadd__", "__imul__",
    "__isub__", "__itruediv__", "__ifloordiv__", "__imod__", "__ipow__", "__iand__", "__ior__",
    "__ixor__", "__ilshift__", "__irshift__", "__imatmul__", "store", "setitem",
}
# attributes that never alias mutable state of the object they are read from
IMMUTABLE_ATTRS = {
    "shape", "ndim", "dtype", "size", "itemsize", "nbytes", "isscalar", "unit", "__name__",
    "__class__", "__module__", "__qualname__", "__doc__", "nout", "nin", "chunks", "chunksize",
    "numblocks", "npartitions", "name", "format", "scale", "precision", "mjd", "jd", "isot", "kind",
    "start", "stop", "step", "multi_index", "strides", "flags", "names", "fields", "colnames",
    "parameters", "default", "empty", "POSITIONAL_ONLY", "root",
}
TIME_ATTRS = {"start_time", "stop_time", "_start_time", "tmid"}
SCALAR_ATTRS = {"nchan", "nperseg"}


@dataclass(frozen=True)
class AV:
    roots: frozenset = EMPTY      # parameters whose object/buffer this value itself may be (or be a view of)
    kind: str | None = None
    holds: frozenset = EMPTY      # parameters whose objects this (fresh) container/object may reference

    def join(self, other):
        return AV(self.roots | other.roots, self.kind if self.kind == other.kind else None,
                  self.holds | other.holds)

    @property
    def reach(self):
        return self.roots | self.holds


FRESH = AV()


def holder(*vals):
    """A fresh object/container that references the given values."""
    h = EMPTY
    for v in vals:
        h |= v.reach
    return AV(EMPTY, None, h)


def view_of(*vals, kind=None):
    r, h = EMPTY, EMPTY
    for v in vals:
        r |= v.roots
        h |= v.holds
    return AV(r, kind, h)


def element_of(v, kind=None):
    """Element / attribute read: may be the object itself (a view) or something it references."""
    return AV(v.roots | v.holds, kind, v.holds)


@dataclass
class Sink:
    func: FunctionInfo
    node: ast.AST          # statement
    how: str               # description of the write
    roots: frozenset
    sanctioned: str | None = None

    def key(self):
        return (self.func.module, self.func.qualname, norm(self.node), self.how)


@dataclass
class Summary:
    mutates: set = field(default_factory=set)        # parameter names possibly mutated
    ret_roots: set = field(default_factory=set)      # parameters the result may be (a view of)
    ret_holds: set = field(default_factory=set)      # parameters the result may reference
    ret_kind: str | None = "?"                        # kind of the returned value ('?' = unknown yet)

    def snapshot(self):
        return (frozenset(self.mutates), frozenset(self.ret_roots), frozenset(self.ret_holds), self.ret_kind)


class AliasAnalysis:
    def __init__(self, prog: Program, scope_modules, sanction=None):
        self.prog = prog
        self.scope = [f for f in prog.all_functions
                      if f.module in scope_modules and f.kind not in ("nested", "lambda")]
        self.summaries: dict[int, Summary] = {id(f): Summary() for f in self.scope}
        self.by_name: dict[str, list[FunctionInfo]] = {}
        for f in self.scope:
            self.by_name.setdefault(f.name, []).append(f)
        self.prop_names = {}
        for ci in prog.classes():
            for pn, pr in ci.properties.items():
                if pr["get"] is not None:
                    self.prop_names.setdefault(pn, []).append(pr["get"])
        self.sanction = sanction or (lambda fi, node, how: None)
        self.sinks: list[Sink] = []
        self.unknown_calls = {}
        self.api_used = set()
        self.n_calls = 0
        self.n_stmts = 0

    # ------------------------------------------------------------------ driver
    def run(self):
        for _ in range(10):
            changed = False
            self.sinks = []
            self.n_calls = 0
            self.n_stmts = 0
            for f in self.scope:
                before = self.summaries[id(f)].snapshot()
                self._analyse(f)
                if before != self.summaries[id(f)].snapshot():
                    changed = True
            if not changed:
                break
        seen, out = set(), []
        for s in self.sinks:
            if s.key() not in seen:
                seen.add(s.key())
                out.append(s)
        self.sinks = out
        return out

    # --------------------------------------------------------------- per function
    def _analyse(self, fi: FunctionInfo):
        env = {}
        for p, kind in fi.params():
            if kind in ("vararg", "kwarg"):
                env[p] = AV(EMPTY, None, frozenset([p]))       # fresh container of caller objects
            else:
                env[p] = AV(frozenset([p]))
        ctx = _Ctx(self, fi, env)
        body = fi.node.body if not isinstance(fi.node, ast.Lambda) else [ast.Return(value=fi.node.body)]
        ctx.block(body)
        summ = self.summaries.get(id(fi))
        if summ is not None:
            params = {p for p, _ in fi.params()}
            summ.ret_roots |= (ctx.returned.roots & params)
            summ.ret_holds |= (ctx.returned.holds & params)
            rk = ctx.returned_kind
            if rk != "?":
                summ.ret_kind = rk if summ.ret_kind in ("?", rk) else None
            summ.mutates |= (ctx.mutated & params)
        return ctx

    # ---------------------------------------------------------------- resolution
    def resolve_callee(self, fi: FunctionInfo, func_node):
        """-> ('repo', [FunctionInfo]) | ('class', ClassInfo) | ('ext', dotted) | ('method', name, recv) | ('unknown',)"""
        from .model import ClassInfo
        mi = self.prog.modules[fi.module]
        if isinstance(func_node, ast.Name):
            dotted = self.prog.resolve_expr_name(mi, func_node)
            tgt = self.prog.lookup(dotted)
            if isinstance(tgt, FunctionInfo):
                return ("repo", [tgt])
            if isinstance(tgt, ClassInfo):
                return ("class", tgt)
            return ("ext", dotted)
        if isinstance(func_node, ast.Attribute):
            chain = attr_chain(func_node)
            if chain:
                head = chain[0]
                if head in mi.imports or head in mi.classes or head in mi.functions:
                    dotted = self.prog.resolve_expr_name(mi, func_node)
                    tgt = self.prog.lookup(dotted)
                    if isinstance(tgt, FunctionInfo):
                        return ("repo", [tgt])
                    if isinstance(tgt, ClassInfo):
                        return ("class", tgt)
                    if dotted and dotted.startswith("pulsarbat.fft."):
                        return ("ext", "scipy.fft." + dotted.rsplit(".", 1)[1])
                    if head in mi.imports and not (isinstance(tgt, tuple)):
                        # a class attribute access like IntensitySignal.like is a method call
                        base = self.prog.lookup(self.prog.resolve_expr_name(mi, func_node.value))
                        if isinstance(base, ClassInfo):
                            return ("method", func_node.attr, func_node.value)
                        return ("ext", dotted)
                    if head in mi.classes:
                        return ("method", func_node.attr, func_node.value)
            return ("method", func_node.attr, func_node.value)
        return ("unknown",)


class _Ctx:
    def __init__(self, an: AliasAnalysis, fi: FunctionInfo, env):
        self.an, self.fi, self.env = an, fi, env
        self.returned = FRESH
        self.returned_kind = "?"
        self.mutated = set()
        self.is_ctor = fi.name in ("__init__", "__new__", "__post_init__") or fi.kind == "setter"
        self._cur_stmt = None
        ps = fi.params()
        self.selfname = ps[0][0] if ps and fi.cls is not None and fi.kind not in ("staticmethod",) else None

    # ------------------------------------------------------------- statements
    def block(self, stmts):
        for s in stmts:
            prev = self._cur_stmt
            self._cur_stmt = s
            try:
                self.stmt(s)
            finally:
                self._cur_stmt = prev

    def stmt(self, s):
        self.an.n_stmts += 1
        if isinstance(s, ast.Assign):
            v = self.ev(s.value)
            for t in s.targets:
                self.assign(t, v, s, s.value)
        elif isinstance(s, ast.AnnAssign):
            if s.value is not None:
                self.assign(s.target, self.ev(s.value), s, s.value)
        elif isinstance(s, ast.AugAssign):
            self.ev(s.value)
            t = s.target
            if isinstance(t, ast.Name):
                cur = self.env.get(t.id, FRESH)
                immut = cur.kind in ("time", "scalar", "str", "type")
                if cur.roots and not immut:
                    self.sink(s, f"in-place operator on '{t.id}'", cur.roots)
                self.env[t.id] = AV(EMPTY, cur.kind) if immut else cur
            else:
                base = self.ev(t.value)
                if isinstance(t, ast.Subscript):
                    self.ev(t.slice)
                if base.roots:
                    self.sink(s, f"in-place operator on element/attribute of '{norm(t.value)}'", base.roots,
                              attr_store=isinstance(t, ast.Attribute), target=t)
        elif isinstance(s, ast.Expr):
            self.ev(s.value)
        elif isinstance(s, ast.Return):
            if s.value is not None:
                v = self.ev(s.value)
                self.returned = AV(self.returned.roots | v.roots, None, self.returned.holds | v.holds)
                self.returned_kind = v.kind if self.returned_kind in ("?", v.kind) else None
            else:
                self.returned_kind = None
        elif isinstance(s, ast.If):
            self.ev(s.test)
            e0 = dict(self.env)
            self.block(s.body)
            e1 = self.env
            self.env = dict(e0)
            self.block(s.orelse)
            if _terminates(s.body) and not _terminates(s.orelse):
                pass                                   # only the else arm falls through
            elif _terminates(s.orelse) and not _terminates(s.body):
                self.env = e1
            else:
                self.env = _join_env(e1, self.env)
        elif isinstance(s, (ast.For, ast.AsyncFor)):
            it = self.ev(s.iter)
            for _ in range(3):
                e0 = dict(self.env)
                self.assign(s.target, element_of(it), s, None)
                self.block(s.body)
                self.env = _join_env(e0, self.env)
            self.block(s.orelse)
        elif isinstance(s, ast.While):
            for _ in range(3):
                e0 = dict(self.env)
                self.ev(s.test)
                self.block(s.body)
                self.env = _join_env(e0, self.env)
            self.block(s.orelse)
        elif isinstance(s, ast.Try):
            e0 = dict(self.env)
            self.block(s.body)
            e_body = dict(self.env)
            self.block(s.orelse)
            outs = [self.env]
            for h in s.handlers:
                self.env = _join_env(e0, e_body)
                if h.name:
                    self.env[h.name] = FRESH
                self.block(h.body)
                if not _terminates(h.body):           # a handler that always raises / returns contributes nothing to what follows
                    outs.append(self.env)
            env = outs[0]
            for o in outs[1:]:
                env = _join_env(env, o)
            self.env = env
            self.block(s.finalbody)
        elif isinstance(s, (ast.With, ast.AsyncWith)):
            for item in s.items:
                v = self.ev(item.context_expr)
                if item.optional_vars is not None:
                    self.assign(item.optional_vars, v, s, item.context_expr)
            self.block(s.body)
        elif isinstance(s, ast.Delete):
            for t in s.targets:
                if isinstance(t, (ast.Subscript, ast.Attribute)):
                    base = self.ev(t.value)
                    if base.roots:
                        self.sink(s, f"del on element/attribute of '{norm(t.value)}'", base.roots)
        elif isinstance(s, (ast.FunctionDef, ast.AsyncFunctionDef)):
            sub = FunctionInfo(self.fi.module, self.fi.qualname + ".<locals>." + s.name, s, None, "nested")
            c = _Ctx(self.an, sub, dict(self.env))
            for p, kind in sub.params():
                c.env[p] = AV(EMPTY, None, frozenset([f"{s.name}:{p}"])) if kind in ("vararg", "kwarg") \
                    else AV(frozenset([f"{s.name}:{p}"]))
            c.block(s.body)
            self.mutated |= c.mutated
            self.env[s.name] = FRESH
        elif isinstance(s, (ast.Raise, ast.Assert)):
            for sub in ast.iter_child_nodes(s):
                if isinstance(sub, ast.expr):
                    self.ev(sub)
        elif isinstance(s, (ast.Pass, ast.Break, ast.Continue, ast.Import, ast.ImportFrom,
                            ast.Global, ast.Nonlocal, ast.ClassDef)):
            pass
        else:
            from .model import AnalysisError
            raise AnalysisError(f"alias: unsupported statement {type(s).__name__} in {self.fi.where}")

    def assign(self, target, v: AV, stmt, value_node):
        if isinstance(target, ast.Name):
            self.env[target.id] = v
        elif isinstance(target, (ast.Tuple, ast.List)):
            elts = target.elts
            if isinstance(value_node, (ast.Tuple, ast.List)) and len(value_node.elts) == len(elts) \
                    and not any(isinstance(e, ast.Starred) for e in elts):
                for t, vn in zip(elts, value_node.elts):
                    self.assign(t, self.ev(vn), stmt, vn)
            else:
                for t in elts:
                    if isinstance(t, ast.Starred):
                        t = t.value
                    self.assign(t, element_of(v), stmt, None)
        elif isinstance(target, ast.Subscript):
            base = self.ev(target.value)
            self.ev(target.slice)
            if base.roots:
                self.sink(stmt, f"store into element/slice of '{norm(target.value)}'", base.roots)
            if isinstance(target.value, ast.Name) and v.reach:
                cur = self.env.get(target.value.id, FRESH)
                self.env[target.value.id] = AV(cur.roots, cur.kind, cur.holds | v.reach)
        elif isinstance(target, ast.Attribute):
            base = self.ev(target.value)
            if base.roots:
                self.sink(stmt, f"attribute store '{norm(target)} = ...'", base.roots,
                          attr_store=True, target=target)
            if isinstance(target.value, ast.Name) and v.reach:
                cur = self.env.get(target.value.id, FRESH)
                self.env[target.value.id] = AV(cur.roots, cur.kind, cur.holds | v.reach)
        elif isinstance(target, ast.Starred):
            self.assign(target.value, v, stmt, None)

    # ------------------------------------------------------------------ sinks
    def sink(self, stmt, how, roots, attr_store=False, target=None, on_self=False):
        why = None
        if self.is_ctor and self.selfname is not None:
            if attr_store and isinstance(target, ast.Attribute) and isinstance(target.value, ast.Name) \
                    and target.value.id == self.selfname:
                why = "object under construction (constructor / property setter writes self)"
            elif on_self and set(roots) <= {self.selfname}:
                why = "object under construction (constructor delegates to a base constructor / setattr on self)"
        if why is None:
            why = self.an.sanction(self.fi, stmt, how)
        self.an.sinks.append(Sink(self.fi, stmt or self._cur_stmt, how, frozenset(roots), why))
        if why is None:
            self.mutated |= set(roots)

    # ------------------------------------------------------------ expressions
    def ev(self, e) -> AV:
        if e is None:
            return FRESH
        m = getattr(self, "e_" + type(e).__name__, None)
        if m is None:
            r = FRESH
            for c in ast.iter_child_nodes(e):
                if isinstance(c, ast.expr):
                    r = r.join(self.ev(c))
            return AV(r.roots, None, r.holds)
        return m(e)

    def e_Constant(self, e):
        return AV(EMPTY, "str" if isinstance(e.value, str) else "scalar")

    def e_Name(self, e):
        return self.env.get(e.id, FRESH)

    def e_NamedExpr(self, e):
        v = self.ev(e.value)
        self.env[e.target.id] = v
        return v

    def e_BinOp(self, e):
        l, r = self.ev(e.left), self.ev(e.right)
        if isinstance(e.left, (ast.Tuple, ast.List)) or isinstance(e.right, (ast.Tuple, ast.List)):
            return holder(l, r)      # tuple/list concatenation / repetition keeps the elements
        if isinstance(e.op, ast.LShift) and l.roots and l.kind not in ("scalar", "str", "time"):
            # astropy's `quantity << unit` hands back the same Quantity (a view) when it already has that unit
            return view_of(l)
        k = None
        if "time" in (l.kind, r.kind) and isinstance(e.op, (ast.Add, ast.Sub)):
            k = "time"
        elif l.kind == "scalar" and r.kind == "scalar":
            k = "scalar"
        elif l.kind == "str" or r.kind == "str":
            k = "str"
        # arithmetic produces a new object; python containers (kw1 | kw2, a + b of lists) keep references
        return AV(EMPTY, k, l.holds | r.holds)

    def e_UnaryOp(self, e):
        v = self.ev(e.operand)
        return AV(EMPTY, "scalar" if (isinstance(e.op, ast.Not) or v.kind == "scalar") else None)

    def e_Compare(self, e):
        self.ev(e.left)
        for c in e.comparators:
            self.ev(c)
        return AV(EMPTY, None)

    def e_BoolOp(self, e):
        vs = [self.ev(v) for v in e.values]
        r = vs[0]
        for x in vs[1:]:
            r = r.join(x)
        return r

    def e_IfExp(self, e):
        self.ev(e.test)
        return self.ev(e.body).join(self.ev(e.orelse))

    def e_Tuple(self, e):
        return holder(*[self.ev(x) for x in e.elts])

    e_List = e_Tuple
    e_Set = e_Tuple

    def e_Dict(self, e):
        for k in e.keys:
            if k is not None:
                self.ev(k)
        vals = []
        for k, v in zip(e.keys, e.values):
            x = self.ev(v)
            vals.append(x)
        return holder(*vals)

    def e_Starred(self, e):
        return self.ev(e.value)

    def e_JoinedStr(self, e):
        for v in e.values:
            self.ev(v)
        return AV(EMPTY, "str")

    def e_FormattedValue(self, e):
        self.ev(e.value)
        return AV(EMPTY, "str")

    def e_Lambda(self, e):
        return FRESH

    def e_Slice(self, e):
        for x in (e.lower, e.upper, e.step):
            if x is not None:
                self.ev(x)
        return AV(EMPTY, None)

    def _comp(self, e, elts):
        saved = dict(self.env)
        for g in e.generators:
            it = self.ev(g.iter)
            self.assign(g.target, element_of(it), e, None)
            for c in g.ifs:
                self.ev(c)
        vals = [self.ev(x) for x in elts]
        self.env = saved
        return holder(*vals)

    def e_ListComp(self, e):
        return self._comp(e, [e.elt])

    e_SetComp = e_ListComp
    e_GeneratorExp = e_ListComp

    def e_DictComp(self, e):
        return self._comp(e, [e.key, e.value])

    def e_Subscript(self, e):
        base = self.ev(e.value)
        self.ev(e.slice)
        if base.kind in ("str", "scalar"):
            return AV(EMPTY, base.kind)
        return element_of(base)

    def e_Attribute(self, e):
        base = self.ev(e.value)
        a = e.attr
        if a in IMMUTABLE_ATTRS:
            return AV(EMPTY, "scalar" if a in ("ndim", "size", "start", "stop", "step") else None)
        if a in SCALAR_ATTRS:
            return AV(EMPTY, "scalar")
        kind = "time" if a in TIME_ATTRS else None
        if not base.reach:
            return AV(EMPTY, kind)
        getters = self.an.prop_names.get(a)
        if getters:
            aliasing, known = False, False
            for g in getters:
                summ = self.an.summaries.get(id(g))
                if summ is None:
                    aliasing = True      # getter outside the analysed scope: conservative
                else:
                    known = True
                    if summ.ret_roots or summ.ret_holds:
                        aliasing = True
            if known and not aliasing:
                return AV(EMPTY, kind)
        return element_of(base, kind)

    def e_Await(self, e):
        return self.ev(e.value)

    def e_Yield(self, e):
        if e.value is not None:
            v = self.ev(e.value)
            self.returned = AV(self.returned.roots | v.roots, None, self.returned.holds | v.holds)
        return FRESH

    e_YieldFrom = e_Yield

    def e_Call(self, e: ast.Call):
        self.an.n_calls += 1
        args = [self.ev(a.value if isinstance(a, ast.Starred) else a) for a in e.args]
        # *seq / **mapping arguments pass the *elements*
        args = [element_of(v) if isinstance(a, ast.Starred) else v for a, v in zip(e.args, args)]
        kws = {}
        starkw = []
        for k in e.keywords:
            v = self.ev(k.value)
            if k.arg is None:
                starkw.append(element_of(v))
                continue
            kws[k.arg] = v
            if k.arg == "out" and v.reach:
                self.sink(self._cur_stmt, f"out= argument '{norm(k.value)}' in call {norm(e.func)}(...)", v.reach)
            if k.arg.startswith("overwrite_") and not (isinstance(k.value, ast.Constant) and k.value.value in (False, None)):
                # scipy's overwrite_x / overwrite_a / overwrite_input ...: permission to destroy the operand
                firsts = [a_ for a_ in args[:1] if a_.reach]
                if firsts:
                    self.sink(self._cur_stmt, f"{k.arg}={norm(k.value)} in call {norm(e.func)}(...) lets the callee overwrite its operand", firsts[0].reach)
        allv = list(args) + list(kws.values()) + starkw

        res = self.an.resolve_callee(self.fi, e.func)
        tag = res[0]
        if tag == "repo":
            return self._call_repo(e, res[1], args, kws, starkw, receiver=None)
        if tag == "class":
            return holder(*allv)     # a new repo object referencing its arguments
        if tag == "ext":
            dotted = res[1] or "?"
            self.an.api_used.add(dotted)
            if dotted in INPLACE_WHEN_COPY_FALSE:
                # np.nan_to_num(x, copy=False): "copy=False" means IN PLACE for these functions, not "avoid a copy if possible"
                cp = next((k.value for k in e.keywords if k.arg == "copy"), e.args[1] if len(e.args) > 1 else None)
                if cp is not None and not (isinstance(cp, ast.Constant) and cp.value is True) and args and args[0].roots:
                    self.sink(self._cur_stmt, f"{dotted}(..., copy={norm(cp)}) replaces values in its first argument in place", args[0].roots)
                    return view_of(args[0])
                return FRESH
            if dotted in MUTATING_FUNCS:
                if args and args[0].roots:
                    on_self = isinstance(e.args[0], ast.Name) and e.args[0].id == self.selfname
                    self.sink(self._cur_stmt, f"{dotted}(...) writes its first argument", args[0].roots,
                              on_self=on_self)
                return FRESH
            if dotted in NEW_CONTAINER_FUNCS:
                return holder(*allv)        # a NEW container: writing into it does not touch the argument, its elements are shared
            if dotted in FRESH_FUNCS:
                return AV(EMPTY, KIND_OF_FUNC.get(dotted))
            if dotted in VIEW_FUNCS:
                return view_of(*allv)
            self.an.unknown_calls[dotted] = self.an.unknown_calls.get(dotted, 0) + 1
            return view_of(*allv)
        if tag == "method":
            name, recv_node = res[1], res[2]
            recv = self.ev(recv_node)
            return self._call_method(e, name, recv, recv_node, args, kws, starkw, allv)
        # calling a local variable / parameter / arbitrary expression
        fv = self.ev(e.func)
        if isinstance(e.func, ast.Name) and self.fi.kind == "classmethod" and self.fi.params() \
                and e.func.id == self.fi.params()[0][0]:
            return holder(*allv)     # cls(...) inside a classmethod constructs a new object
        return view_of(fv, *allv)

    def _bind(self, t, args, kws, starkw, receiver):
        params = [p for p, k in t.params() if k in ("posonly", "pos_or_kw")]
        kwonly = [p for p, k in t.params() if k == "kwonly"]
        vararg = [p for p, k in t.params() if k == "vararg"]
        kwarg = [p for p, k in t.params() if k == "kwarg"]
        bind = {}
        offset = 0
        if receiver is not None and t.kind in ("method", "property", "setter") and params:
            bind[params[0]] = receiver
            offset = 1
        elif t.kind == "classmethod" and params:
            offset = 1
        extra = []
        for i, a in enumerate(args):
            if i + offset < len(params):
                bind[params[i + offset]] = a
            else:
                extra.append(a)
        for k, v in kws.items():
            if k in params or k in kwonly:
                bind[k] = v
            else:
                extra.append(v)
        extra += starkw
        if vararg and extra:
            bind[vararg[0]] = holder(*extra)
        if kwarg and extra:
            bind[kwarg[0]] = holder(*extra) if kwarg[0] not in bind else bind[kwarg[0]].join(holder(*extra))
        # **mapping may also feed named parameters
        for v in starkw:
            for p in params[offset:] + kwonly:
                if p not in bind:
                    bind[p] = v
        return bind

    def _call_repo(self, e, targets, args, kws, starkw, receiver):
        roots, holds, kind = EMPTY, EMPTY, "?"
        for t in targets:
            if any(d.split("(")[0].split(".")[-1] in ("lru_cache", "cache", "cached_property") for d in t.decorators):
                # the returned object is kept by the memo table and handed out again: writing it changes what later calls see
                roots |= frozenset({f"<memoised result of {t.qualname}>"})
            summ = self.an.summaries.get(id(t))
            bind = self._bind(t, args, kws, starkw, receiver)
            if summ is None:
                for v in bind.values():
                    roots |= v.roots
                    holds |= v.holds
                kind = None
                continue
            for p in summ.mutates:
                if p in bind and bind[p].roots:
                    on_self = (receiver is not None and self.selfname is not None
                               and t.name in ("__init__", "__new__") and bind[p].roots <= {self.selfname})
                    self.sink(self._cur_stmt,
                              f"call {norm(e.func)}(...) whose body writes parameter '{p}' ({t.qualname})",
                              bind[p].roots, on_self=on_self)
            for p in summ.ret_roots:
                if p in bind:
                    roots |= bind[p].roots
                    holds |= bind[p].holds
            for p in summ.ret_holds:
                if p in bind:
                    holds |= bind[p].reach
            k2 = summ.ret_kind
            kind = k2 if kind in ("?", k2) else None
        return AV(roots, None if kind == "?" else kind, holds)

    def _complex_only_class(self):
        ci = self.fi.cls
        if ci is None:
            return False
        v, _ = ci.find_class_attr("_req_dtype")
        if not isinstance(v, (ast.Tuple, ast.List)) or not v.elts:
            return False
        return all("complex" in norm(x) for x in v.elts)

    def _call_method(self, e, name, recv: AV, recv_node, args, kws, starkw, allv):
        stmt = self._cur_stmt
        # super().m(...)
        if isinstance(recv_node, ast.Call) and isinstance(recv_node.func, ast.Name) and recv_node.func.id == "super":
            cls = self.fi.cls
            if cls is not None:
                for b in cls.mro()[1:]:
                    if name in b.methods:
                        return self._call_repo(e, [b.methods[name]], args, kws, starkw,
                                               receiver=self.env.get(self.selfname, FRESH))
            return view_of(*allv)
        if recv.kind == "handle":
            return FRESH
        if name in ("conj", "conjugate") and not args and self._complex_only_class() and recv.roots and recv.roots <= {self.selfname}:
            # ndarray.conj() hands back the array itself only for non-complex data; the data of this class is complex by its
            # dtype contract (_req_dtype), so the conjugate is a new array
            return FRESH
        if recv.kind in ("str", "scalar", "time") and name in FRESH_METHODS:
            return FRESH
        if name in MUTATING_METHODS and recv.roots:
            self.sink(stmt, f"mutating method .{name}() on '{norm(recv_node)}'", recv.roots)
        if name in MUTATING_METHODS and isinstance(recv_node, ast.Name):
            # c.update(x) / c.append(x): the container now references the arguments
            cur = self.env.get(recv_node.id, FRESH)
            add = EMPTY
            for v in allv:
                add |= v.reach
            self.env[recv_node.id] = AV(cur.roots, cur.kind, cur.holds | add)
        repo_targets = [f for f in self.an.by_name.get(name, []) if f.cls is not None]
        out = None
        if repo_targets:
            out = self._call_repo(e, repo_targets, args, kws, starkw, receiver=recv)
        if name in FRESH_METHODS and not (name in ("astype", "to") and _kw_false(e, "copy")):
            return out if out is not None else FRESH
        if name in VIEW_METHODS or name in ("astype", "to"):
            v = element_of(recv)
            return v if out is None else v.join(out)
        if out is not None:
            return out
        # unknown method on some object: conservative (may return a view of receiver or arguments)
        return view_of(element_of(recv), *allv)


def _terminates(stmts):
    """The statement list never falls through: it ends in raise / return / continue / break (or an if whose arms all do)."""
    if not stmts:
        return False
    last = stmts[-1]
    if isinstance(last, (ast.Raise, ast.Return, ast.Continue, ast.Break)):
        return True
    if isinstance(last, ast.If):
        return bool(last.orelse) and _terminates(last.body) and _terminates(last.orelse)
    return False


def _kw_false(call, name):
    for k in call.keywords:
        if k.arg == name and isinstance(k.value, ast.Constant) and k.value.value is False:
            return True
    return False


def _join_env(a, b):
    out = {}
    for k in set(a) | set(b):
        if k in a and k in b:
            out[k] = a[k].join(b[k])
        else:
            out[k] = a.get(k) or b.get(k)
    return out
