"""Thorough-tier self-test hook (filled in later)."""
def run_for(run, pid):
    return 0
