"""Thorough-tier self-test of the checkers (DESIGN.md section 7).

For one property: (a) every confirmed seeded change kept under /verif/seeded for that property, and every
pre-fix tree (reverse of a `fix:` commit) it concerns, must make the check fire (exit 1); (b) every
behaviour-preserving refactoring kept under /verif/seeded/benign must leave it silent (exit 0; exit 2 is recorded
as a robustness gap); (c) AST-level mutants of the property's anchored functions are generated on scratch copies
(outside /repo and /verif, removed at once) and the check is run on each: the kill rate is evidence of reach, not a
verdict.  A must-fire miss or a benign alarm makes the thorough run exit 2: it says the checker is weaker than
designed, not that the code is wrong.
"""
from __future__ import annotations

import ast
import copy
import json
import os
import random
import shutil
import subprocess
import tempfile
import time
from concurrent.futures import ThreadPoolExecutor

VERIF = os.path.dirname(os.path.dirname(os.path.abspath(__file__)))
SEEDED = os.path.join(VERIF, "seeded")
REPO = os.environ.get("PBVERIF_REPO", "/repo")

# property -> [(relative file, qualified function)] whose body the rules of that property are anchored in
A = {
    "core": "pulsarbat/core.py", "tr": "pulsarbat/transforms/transforms.py", "dd": "pulsarbat/transforms/dedispersion.py",
    "misc": "pulsarbat/contrib/misc.py", "ut": "pulsarbat/utils.py", "fft": "pulsarbat/fft.py", "rb": "pulsarbat/readers/_base.py",
    "rbb": "pulsarbat/readers/_baseband_readers.py", "ph": "pulsarbat/pulsar/phase.py", "pr": "pulsarbat/pulsar/predictor.py",
}
ANCHORS = {
    "C01": [("core", "Signal._time_slice"), ("core", "Signal.__getitem__"), ("core", "RadioSignal.__getitem__"), ("core", "Signal.stop_time"),
            ("core", "Signal.contains"), ("core", "Signal.time_length"), ("tr", "fast_len"), ("tr", "time_shift"), ("rb", "BaseReader.contains")],
    "C02": [("core", "RadioSignal._freq_slice"), ("core", "RadioSignal.channel_freqs"), ("core", "RadioSignal.freq_align"), ("core", "RadioSignal.bandwidth"),
            ("core", "RadioSignal.max_freq"), ("core", "RadioSignal.min_freq"), ("core", "RadioSignal.__getitem__")],
    "C03": [("tr", "time_shift")],
    "C04": [("tr", "freq_shift")],
    "C05": [("dd", "_transfer_function"), ("dd", "DispersionMeasure.chirp_function"), ("dd", "DispersionMeasure.chirp_from_signal"), ("dd", "coherent_dedispersion")],
    "C06": [("dd", "DispersionMeasure.time_delay"), ("dd", "DispersionMeasure.sample_delay"), ("dd", "incoherent_dedispersion")],
    "C07": [("ph", "Phase.__array_ufunc__"), ("ph", "Phase.from_angles"), ("ph", "Phase.__new__"), ("ph", "check_imaginary")],
    "C08": [("pr", "PhasePredictor.from_polyco"), ("pr", "PhasePredictor.__call__"), ("pr", "PhasePredictor.f0"), ("pr", "PhasePredictor._get_index_and_dt"),
            ("pr", "PhasePredictor.phasepol"), ("pr", "PhasePredictor.intervals")],
    "C09": [("core", "Signal.compute"), ("core", "Signal.persist"), ("core", "Signal.rechunk"), ("tr", "signal_transform"), ("tr", "time_shift"),
            ("tr", "freq_shift"), ("dd", "DispersionMeasure.chirp_function"), ("rb", "BaseReader._read_data"), ("core", "Signal.__array__"), ("core", "Signal.to_dask_array")],
    "C10": [("tr", "concatenate")],
    "C11": [("rb", "BaseReader.read"), ("rb", "BaseReader.time_at"), ("rb", "BaseReader.offset_at"), ("rb", "BaseReader._read_data"),
            ("rbb", "BasebandReader._read_baseband"), ("rbb", "BasebandReader.__init__"), ("rbb", "GUPPIRawReader._read_array"),
            ("rbb", "DADAStokesReader._read_array"), ("rbb", "DADAStokesReader.__init__")],
    "C12": [("tr", "snippet")],
    "C13": [("core", "DualPolarizationSignal.to_linear"), ("core", "DualPolarizationSignal.to_circular"), ("core", "DualPolarizationSignal.to_stokes"),
            ("core", "BasebandSignal.to_intensity"), ("core", "FullStokesSignal.__getitem__")],
    "C14": [("misc", "stft"), ("misc", "istft"), ("tr", "time_shift"), ("tr", "freq_shift"), ("dd", "incoherent_dedispersion"), ("ut", "real_to_complex")],
    "C15": [("ph", "Phase.__array_ufunc__"), ("ph", "Phase.argsort"), ("ph", "Phase.argmin"), ("ph", "Phase.argmax"), ("ph", "_parse_string"),
            ("ph", "Phase.from_string"), ("ph", "Phase.to_string")],
    "C16": [("core", "Signal.__init__"), ("core", "Signal.sample_rate"), ("core", "Signal.start_time"), ("core", "Signal.meta"), ("core", "RadioSignal.center_freq"),
            ("core", "RadioSignal.chan_bw"), ("core", "RadioSignal.freq_align"), ("core", "DualPolarizationSignal.pol_type"), ("core", "Signal.like"),
            ("core", "BasebandSignal.__init__")],
    "C17": [("core", "Signal.__array_ufunc__"), ("core", "Signal.__array__"), ("core", "Signal.__len__")],
    "C19": [("ut", "real_to_complex")],
    "C20": [("fft", "__getattr__"), ("misc", "stft"), ("misc", "istft")],
}
# pre-fix trees (reverse of the fix: commits) each property's check must fire on
PREFIX_OF = {"C03": ["prefix_01", "prefix_03"], "C04": ["prefix_02", "prefix_14"], "C01": ["prefix_03", "prefix_04"], "C05": ["prefix_04"], "C14": ["prefix_05"],
             "C17": ["prefix_06", "prefix_13"], "C07": ["prefix_07", "prefix_08", "prefix_12", "prefix_18"], "C15": ["prefix_09", "prefix_11", "prefix_15", "prefix_17"], "C16": ["prefix_10", "prefix_13"], "C09": ["prefix_13", "prefix_19"], "C11": ["prefix_16"]}
# seeded changes from other properties' sub-agents that this property's check is also expected to catch
ALSO = {"C01": ["C03_b", "C05_a"], "C03": ["C12_b"], "C16": ["C14_a"]}
# seeded changes known to be out of reach of the property's own check (documented in DESIGN.md): not required to fire
OUT_OF_REACH = set()


def confirmed_detections():
    """(seed, check) pairs the committed matrix (seeded/RESULTS.tsv) records as reported (exit 1).

    The must-fire list of the self-test is the set of detections confirmed and committed earlier: a seeded change the
    record shows as missed or inconclusive (or that has no record yet) is run and reported as `unconfirmed`, and does not
    fail the self-test; a confirmed detection that is lost does."""
    out, seen = set(), set()
    p = os.path.join(SEEDED, "RESULTS.tsv")
    if os.path.exists(p):
        for line in open(p):
            f = line.rstrip("\n").split("\t")
            if len(f) >= 3:
                seen.add((f[0], f[1]))
                if f[2] == "1":
                    out.add((f[0], f[1]))
    return out, seen

SWAP_CALLS = {"ceil": "floor", "floor": "ceil", "min": "max", "max": "min", "all": "any", "any": "all", "fftshift": "ifftshift",
              "ifftshift": "fftshift", "partition": "rpartition", "real": "imag"}
SWAP_ATTRS = {"max_freq": "min_freq", "min_freq": "max_freq", "start": "stop", "stop": "start", "real": "imag", "imag": "real",
              "sample_rate": "chan_bw", "ceil": "floor", "floor": "ceil"}
SWAP_STR = {"int": "frac", "frac": "int", "bottom": "top", "top": "bottom", "linear": "circular", "circular": "linear"}


EFFECT_PREFIXES = ("in-place-ify", "store the first argument", "drop the copy", "force `", "`")


class Mutator(ast.NodeTransformer):
    """Applies exactly the k-th applicable mutation inside the target function; counts sites when k is None."""
    def __init__(self, target_qual, k=None):
        self.target = target_qual
        self.k = k
        self.count = 0
        self.desc = None
        self._in = False
        self._cls = []
        self._fn_params = []

    def _hit(self, desc):
        self.count += 1
        if self.k is not None and self.count - 1 == self.k:
            self.desc = desc
            return True
        return False

    def visit_ClassDef(self, node):
        self._cls.append(node.name)
        self.generic_visit(node)
        self._cls.pop()
        return node

    def visit_FunctionDef(self, node):
        q = ".".join(self._cls + [node.name])
        was = self._in
        if q == self.target and not self._in:
            self._in = True
            names = [a.arg for a in node.args.posonlyargs + node.args.args]
            self._fn_params.append((names[0], names[1]) if (self._cls and len(names) >= 2 and names[0] == "self") else None)
            node.body = self._stmts(node.body)
            self.generic_visit(node)
            self._fn_params.pop()
            self._in = was
            return node
        if self._in:
            node.body = self._stmts(node.body)
            self.generic_visit(node)
            return node
        self.generic_visit(node)
        return node

    def _stmts(self, body):
        out = []
        for i, s in enumerate(body):
            deletable = isinstance(s, (ast.AugAssign,)) or (isinstance(s, ast.Expr) and isinstance(s.value, ast.Call)) \
                or (isinstance(s, ast.If) and not s.orelse and all(isinstance(x, ast.Raise) for x in s.body)) \
                or (isinstance(s, ast.Assert)) \
                or (isinstance(s, ast.Assign) and isinstance(s.targets[0], (ast.Subscript, ast.Attribute)))
            if deletable and self._hit(f"delete statement `{ast.unparse(s)[:70]}`"):
                out.append(ast.Pass())
                continue
            # effect-introducing operators: blind value mutants never create a write, a forcing or a state store
            if isinstance(s, ast.Assign) and len(s.targets) == 1 and isinstance(s.targets[0], ast.Name) and isinstance(s.value, ast.BinOp) \
                    and isinstance(s.value.op, (ast.Add, ast.Sub, ast.Mult, ast.Div)) \
                    and not isinstance(s.value.left, ast.Constant) \
                    and self._hit(f"in-place-ify `{ast.unparse(s)[:60]}` (x = a op b  ->  x = a; x op= b)"):
                out.append(ast.copy_location(ast.Assign(targets=s.targets, value=s.value.left), s))
                aug = ast.AugAssign(target=ast.Name(id=s.targets[0].id, ctx=ast.Store()), op=s.value.op, value=s.value.right)
                out.append(ast.copy_location(aug, s))
                continue
            if isinstance(s, ast.Return) and s.value is not None and self._fn_params and self._fn_params[-1] \
                    and self._hit(f"store the first argument on self before `{ast.unparse(s)[:50]}`"):
                selfn, first = self._fn_params[-1]
                st = ast.parse(f"{selfn}._pbv_last = {first}").body[0]
                out.append(ast.copy_location(st, s))
                out.append(s)
                continue
            for fld in ("body", "orelse", "finalbody"):
                if hasattr(s, fld) and isinstance(getattr(s, fld), list) and getattr(s, fld) and isinstance(getattr(s, fld)[0], ast.stmt):
                    setattr(s, fld, self._stmts(getattr(s, fld)))
            if isinstance(s, ast.Try):
                for h in s.handlers:
                    h.body = self._stmts(h.body)
            out.append(s)
        return out

    def visit_BinOp(self, node):
        self.generic_visit(node)
        if not self._in:
            return node
        swaps = {ast.Add: ast.Sub, ast.Sub: ast.Add, ast.Mult: ast.Div, ast.Div: ast.Mult, ast.FloorDiv: ast.Div}
        t = type(node.op)
        if t in swaps and self._hit(f"operator {t.__name__} -> {swaps[t].__name__} in `{ast.unparse(node)[:60]}`"):
            node.op = swaps[t]()
        return node

    def visit_Compare(self, node):
        self.generic_visit(node)
        if not self._in or len(node.ops) != 1:
            return node
        swaps = {ast.Lt: ast.LtE, ast.LtE: ast.Lt, ast.Gt: ast.GtE, ast.GtE: ast.Gt, ast.Eq: ast.NotEq, ast.NotEq: ast.Eq, ast.Is: ast.IsNot,
                 ast.IsNot: ast.Is, ast.In: ast.NotIn, ast.NotIn: ast.In}
        t = type(node.ops[0])
        if t in swaps and self._hit(f"comparison {t.__name__} -> {swaps[t].__name__} in `{ast.unparse(node)[:60]}`"):
            node.ops = [swaps[t]()]
        return node

    def visit_UnaryOp(self, node):
        self.generic_visit(node)
        if self._in and isinstance(node.op, ast.USub) and self._hit(f"drop unary minus in `{ast.unparse(node)[:60]}`"):
            return node.operand
        return node

    def visit_Constant(self, node):
        if not self._in:
            return node
        v = node.value
        if isinstance(v, bool) or v is None:
            return node
        if isinstance(v, int) and abs(v) <= 100:
            if self._hit(f"constant {v} -> {v + 1}"):
                return ast.copy_location(ast.Constant(value=v + 1), node)
        elif isinstance(v, float):
            if self._hit(f"constant {v} -> {v * 2}"):
                return ast.copy_location(ast.Constant(value=v * 2), node)
        elif isinstance(v, complex):
            if self._hit(f"constant {v} -> {-v}"):
                return ast.copy_location(ast.Constant(value=-v), node)
        elif isinstance(v, str) and v in SWAP_STR:
            if self._hit(f"literal '{v}' -> '{SWAP_STR[v]}'"):
                return ast.copy_location(ast.Constant(value=SWAP_STR[v]), node)
        return node

    def visit_Attribute(self, node):
        self.generic_visit(node)
        if self._in and node.attr == "data" and isinstance(node.ctx, ast.Load) and isinstance(node.value, ast.Name) and node.value.id != "self" \
                and self._hit(f"force `{ast.unparse(node)}` through np.asarray"):
            return ast.copy_location(ast.Call(func=ast.Attribute(value=ast.Name(id="np", ctx=ast.Load()), attr="asarray", ctx=ast.Load()),
                                              args=[node], keywords=[]), node)
        if self._in and node.attr in SWAP_ATTRS and isinstance(node.ctx, ast.Load) and self._hit(f"attribute .{node.attr} -> .{SWAP_ATTRS[node.attr]}"):
            node.attr = SWAP_ATTRS[node.attr]
        return node

    def visit_Name(self, node):
        if self._in and isinstance(node.ctx, ast.Load) and node.id in SWAP_CALLS and self._hit(f"name {node.id} -> {SWAP_CALLS[node.id]}"):
            node.id = SWAP_CALLS[node.id]
        return node

    def visit_Call(self, node):
        self.generic_visit(node)
        if not self._in:
            return node
        if isinstance(node.func, ast.Attribute) and node.func.attr == "copy" and not node.args and not node.keywords \
                and self._hit(f"drop the copy in `{ast.unparse(node)[:60]}`"):
            return node.func.value
        if isinstance(node.func, ast.Name) and node.func.id in ("dict", "list") and len(node.args) == 1 and not node.keywords \
                and isinstance(node.args[0], (ast.Name, ast.Attribute)) and self._hit(f"drop the copy in `{ast.unparse(node)[:60]}`"):
            return node.args[0]
        if isinstance(node.func, ast.Attribute) and node.func.attr in ("conj", "conjugate") and not node.args \
                and isinstance(node.func.value, ast.Name) and self._hit(f"`{ast.unparse(node)[:40]}` -> np.conjugate(x, out=x)"):
            x = node.func.value.id
            return ast.copy_location(ast.parse(f"np.conjugate({x}, out={x})").body[0].value, node)
        if len(node.args) == 2 and not node.keywords and not any(isinstance(a, ast.Starred) for a in node.args) \
                and ast.unparse(node.args[0]) != ast.unparse(node.args[1]):
            if self._hit(f"swap arguments of `{ast.unparse(node)[:60]}`"):
                node.args = [node.args[1], node.args[0]]
        if node.keywords and isinstance(node.func, ast.Attribute) and node.func.attr == "like":
            if self._hit(f"drop override {node.keywords[-1].arg} in `{ast.unparse(node)[:60]}`"):
                node.keywords = node.keywords[:-1]
        return node


def mutants_for(pid, seed, limit):
    """[(relpath, new source, description)]"""
    out = []
    sites = []
    srcs = {}
    for key, qual in ANCHORS.get(pid, []):
        rel = A[key]
        path = os.path.join(REPO, rel)
        if rel not in srcs:
            try:
                srcs[rel] = open(path, encoding="utf-8").read()
            except OSError:
                continue
        tree = ast.parse(srcs[rel])
        m = Mutator(qual)
        m.visit(tree)
        for k in range(m.count):
            sites.append((rel, qual, k))
    rng = random.Random(seed * 1000003 + sum(map(ord, pid)))
    rng.shuffle(sites)
    # effect-introducing mutants are rare among all sites: take up to a third of the sample from them first
    effect = []
    for rel, qual, k in (sites if pid in ("C09", "C11", "C14") else []):
        m = Mutator(qual, k)
        m.visit(ast.parse(srcs[rel]))
        if m.desc and m.desc.startswith(EFFECT_PREFIXES):
            effect.append((rel, qual, k))
        if len(effect) >= limit // 3:
            break
    rest = [x for x in sites if x not in effect]
    sites = effect + rest
    for rel, qual, k in sites[: limit * 2]:
        tree = ast.parse(srcs[rel])
        m = Mutator(qual, k)
        tree = m.visit(tree)
        ast.fix_missing_locations(tree)
        try:
            new = ast.unparse(tree)
            compile(new, rel, "exec")
        except Exception:
            continue
        if m.desc is None:
            continue
        out.append((rel, new, f"{qual}: {m.desc}"))
        if len(out) >= limit:
            break
    return out


def _scratch():
    d = tempfile.mkdtemp(prefix="pbv-self.")
    shutil.copytree(os.path.join(REPO, "pulsarbat"), os.path.join(d, "pulsarbat"), ignore=shutil.ignore_patterns("__pycache__"))
    return d


def _run_check(pid, repo_dir, budget=900):
    env = dict(os.environ, PBVERIF_NOEVIDENCE="1", PBVERIF_BUDGET_S=str(budget), VERIF_TIER="quick")
    env.pop("PBVERIF_REPO", None)
    try:
        p = subprocess.run([os.path.join(VERIF, "check"), pid, "--tier", "quick", "--repo", repo_dir], capture_output=True, text=True, env=env,
                           timeout=budget + 60)
        first = next((l for l in p.stdout.splitlines() if l.startswith("  ") and ": rule " in l), "")
        return p.returncode, first.strip()[:200]
    except subprocess.TimeoutExpired:
        return 2, "timeout"


def _with_patch(pid, patch_path):
    d = _scratch()
    try:
        r = subprocess.run(["patch", "-s", "-p1", "-i", patch_path], cwd=d, capture_output=True, text=True)
        if r.returncode != 0:
            return None, "patch does not apply"
        return _run_check(pid, d)
    finally:
        shutil.rmtree(d, ignore_errors=True)


def _with_source(pid, rel, src):
    d = _scratch()
    try:
        with open(os.path.join(d, rel), "w", encoding="utf-8") as fh:
            fh.write(src)
        return _run_check(pid, d)
    finally:
        shutil.rmtree(d, ignore_errors=True)


def run_for(run, pid):
    t0 = time.time()
    jobs = int(os.environ.get("PBVERIF_JOBS", "14"))
    must_fire, must_silent, unconfirmed = [], [], []
    confirmed, recorded = confirmed_detections()
    if os.path.isdir(SEEDED):
        for d in sorted(os.listdir(SEEDED)):
            p = os.path.join(SEEDED, d, "patch.diff")
            if not os.path.exists(p):
                continue
            if d.startswith(pid + "_") and d not in OUT_OF_REACH:
                if (d, pid) in confirmed or not recorded:
                    must_fire.append((d, p))
                else:
                    unconfirmed.append((d, p))
            elif d in PREFIX_OF.get(pid, []) or d in ALSO.get(pid, []):
                must_fire.append((d, p))
            elif d.startswith("benign_"):
                must_silent.append((d, p))
    n_mut = int(os.environ.get("PBVERIF_MUTANTS", "48"))
    muts = mutants_for(pid, run.seed, n_mut)
    res = {"must_fire": {}, "must_stay_silent": {}, "mutants": {"generated": len(muts), "killed": 0, "inconclusive": 0, "survived": 0, "survivors": [], "killed_samples": []}}
    with ThreadPoolExecutor(max_workers=jobs) as ex:
        f1 = {ex.submit(_with_patch, pid, p): d for d, p in must_fire}
        f2 = {ex.submit(_with_patch, pid, p): d for d, p in must_silent}
        f3 = {ex.submit(_with_source, pid, rel, src): desc for rel, src, desc in muts}
        f4 = {ex.submit(_with_patch, pid, p): d for d, p in unconfirmed}
        for f, d in f1.items():
            res["must_fire"][d] = f.result()[0]
        for f, d in f2.items():
            res["must_stay_silent"][d] = f.result()[0]
        for f, desc in f3.items():
            rc, first = f.result()
            if rc == 1:
                res["mutants"]["killed"] += 1
                if len(res["mutants"]["killed_samples"]) < 6:
                    res["mutants"]["killed_samples"].append({"mutant": desc, "reported": first})
            elif rc == 2:
                res["mutants"]["inconclusive"] += 1
            else:
                res["mutants"]["survived"] += 1
                if len(res["mutants"]["survivors"]) < 40:
                    res["mutants"]["survivors"].append(desc)
        res["unconfirmed_seeds"] = {d: f.result()[0] for f, d in f4.items()}
    missed = sorted(d for d, rc in res["must_fire"].items() if rc != 1)
    alarms = sorted(d for d, rc in res["must_stay_silent"].items() if rc == 1)
    gaps = sorted(d for d, rc in res["must_stay_silent"].items() if rc not in (0, 1))
    res["missed_must_fire"] = missed
    res["false_alarms_on_benign"] = alarms
    res["inconclusive_on_benign"] = gaps
    res["wall_s"] = round(time.time() - t0, 1)
    res["note"] = ("mutants are generated blindly by AST operators on the anchored functions; survivors include equivalent mutants "
                   "(e.g. changes behind a guard the rule decides, constants in messages) and changes outside the decided clauses")
    run.selftest = res
    if not os.environ.get("PBVERIF_NOEVIDENCE"):
        rep_dir = os.path.join(VERIF, "selftest_reports")
        os.makedirs(rep_dir, exist_ok=True)
        with open(os.path.join(rep_dir, f"{pid}.json"), "w") as fh:
            json.dump(res, fh, indent=1)
    # rewrite the evidence file with the self-test summary included
    if not os.environ.get("PBVERIF_NOEVIDENCE"):
        nviol = 0
        run.write_evidence(nviol, 0, 0)
    if res["unconfirmed_seeds"]:
        print(f"{pid} self-test: seeded changes without a confirmed detection in seeded/RESULTS.tsv (exit codes now): {res['unconfirmed_seeds']}")
    print(f"{pid} self-test: must-fire {len(res['must_fire']) - len(missed)}/{len(res['must_fire'])}, benign silent "
          f"{len(res['must_stay_silent']) - len(alarms) - len(gaps)}/{len(res['must_stay_silent'])} (alarms {len(alarms)}, inconclusive {len(gaps)}), "
          f"mutants killed {res['mutants']['killed']}/{len(muts)} (inconclusive {res['mutants']['inconclusive']}, survived {res['mutants']['survived']}) "
          f"in {res['wall_s']}s")
    if missed or alarms:
        print(f"SELFTEST-FAILED property={pid} missed={missed} false_alarms={alarms}")
        return 2
    return 0
