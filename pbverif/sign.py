"""E3 / integer sign domain on extracted terms: a small syntax-directed prover for `expr >= 0`.

Used for "signal-level slice bounds are non-negative by construction" (C01-R5): Python's
negative-index rule would otherwise silently keep samples that should have been dropped.
Sound but incomplete: returns True only when the rules prove non-negativity; a caller that
gets False may look for a refuting valuation by exact evaluation (terms.evaluate).
"""
from __future__ import annotations

import sympy as sp

from .values import F

NONNEG_OPAQUE = {"PrevFast", "NextFast", "SliceLen", "Len", "RMaxLen"}


def facts_nonneg(facts):
    """Terms known >= 0 from path facts (guards that raised were negated): collects `x >= 0`,
    `not (x < 0)`, conjunctions, and De Morgan of `not (a or b)`."""
    out = set()

    def visit(f, positive=True):
        if isinstance(f, sp.Not):
            visit(f.args[0], not positive)
        elif isinstance(f, sp.And) and positive:
            for a in f.args:
                visit(a, True)
        elif isinstance(f, sp.Or) and not positive:
            for a in f.args:
                visit(a, False)
        elif isinstance(f, sp.core.relational.Relational):
            l, r = f.lhs, f.rhs
            t = type(f)
            if not positive:
                t = {sp.Lt: sp.Ge, sp.Le: sp.Gt, sp.Gt: sp.Le, sp.Ge: sp.Lt}.get(t)
                if t is None:
                    return
            if t in (sp.Ge, sp.Gt):
                out.add(sp.expand(l - r))
            elif t in (sp.Le, sp.Lt):
                out.add(sp.expand(r - l))
    for f in facts:
        try:
            visit(f)
        except Exception:
            pass
    return out


def is_nonneg(e, known=None, depth=0):
    """True if the rules prove e >= 0 (known: set of terms known >= 0)."""
    known = known or set()
    e = sp.sympify(e)
    if depth > 40:
        return False
    if e.is_number:
        return bool(e >= 0) if e.is_real else False
    if e.is_nonnegative:
        return True
    try:
        if sp.expand(e) in known or e in known:
            return True
    except Exception:
        pass
    f = e.func
    if f is sp.Max:
        return any(is_nonneg(a, known, depth + 1) for a in e.args)
    if f is sp.Min:
        return all(is_nonneg(a, known, depth + 1) for a in e.args)
    if f in (sp.ceiling, sp.floor, sp.Abs):
        if f is sp.Abs:
            return True
        return is_nonneg(e.args[0], known, depth + 1)
    if f is sp.Add:
        if all(is_nonneg(a, known, depth + 1) for a in e.args):
            return True
        # x - Mod(x, b) >= 0 for x >= 0 ("round down to a multiple" idiom)
        if len(e.args) == 2:
            for a, b in (e.args, e.args[::-1]):
                if b.is_Mul and b.args[0] == -1 and len(b.args) == 2 and b.args[1].func is sp.Mod \
                        and b.args[1].args[0] == a and is_nonneg(a, known, depth + 1):
                    return True
        # x - Min(0, ...) style and  a - b with a >= b known
        for k in known:
            try:
                rest = sp.expand(e - k)
                if rest != e and is_nonneg(rest, known - {k}, depth + 1):
                    return True
            except Exception:
                pass
        return False
    if f is sp.Mul:
        neg = 0
        for a in e.args:
            if is_nonneg(a, known, depth + 1):
                continue
            if is_nonpos(a, known, depth + 1):
                neg += 1
                continue
            return False
        return neg % 2 == 0
    if f is sp.Pow:
        b, x = e.args
        if x.is_integer and x.is_even:
            return True
        return is_nonneg(b, known, depth + 1)
    if f is sp.Piecewise:
        return all(is_nonneg(a, known, depth + 1) for a, _ in e.args)
    if f is sp.Mod:
        return is_nonneg(e.args[1], known, depth + 1) or e.args[1].is_positive is True
    if isinstance(e, sp.core.function.AppliedUndef):
        if f.__name__ in NONNEG_OPAQUE:
            return True
        if f.__name__ == "Int":      # truncation towards zero keeps the sign
            return is_nonneg(e.args[0], known, depth + 1)
    return False


def is_nonpos(e, known=None, depth=0):
    e = sp.sympify(e)
    if e.is_number:
        return bool(e <= 0) if e.is_real else False
    if e.is_nonpositive:
        return True
    f = e.func
    if f is sp.Min:
        return any(is_nonpos(a, known, depth + 1) for a in e.args)
    if f is sp.Max:
        return all(is_nonpos(a, known, depth + 1) for a in e.args)
    if f in (sp.ceiling, sp.floor):
        return is_nonpos(e.args[0], known, depth + 1)
    if f is sp.Mul:
        c, rest = e.as_coeff_Mul()
        if c.is_number and c < 0:
            return is_nonneg(rest, known, depth + 1)
        if c.is_number and c > 0 and rest != e:
            return is_nonpos(rest, known, depth + 1)
    if f is sp.Add:
        return all(is_nonpos(a, known, depth + 1) for a in e.args)
    return False
