"""E1 - program model of /repo/pulsarbat built from source text only.

Parses every module of the package with ``ast`` (the package is never imported),
resolves import aliases and ``from .x import *`` re-export chains, builds the class
hierarchy with MRO, properties/setters, class-level tables and a function index.
"""
from __future__ import annotations

import ast
import os
import hashlib
from dataclasses import dataclass, field

REPO = os.environ.get("PBVERIF_REPO", "/repo")
PKG = "pulsarbat"


class AnalysisError(Exception):
    """The analyser cannot decide (anchor vanished, construct outside vocabulary)."""


CACHED_PROPERTY_DECORATORS = ("functools.cached_property", "cached_property", "astropy.utils.lazyproperty", "lazyproperty",
                              "astropy.utils.decorators.lazyproperty")


def is_cached_property(fi):
    return fi is not None and fi.kind == "property" and any(d in CACHED_PROPERTY_DECORATORS for d in (fi.decorators or []))


@dataclass
class FunctionInfo:
    module: str            # dotted module name
    qualname: str          # e.g. "Signal._time_slice" or "time_shift"
    node: ast.AST          # FunctionDef / Lambda
    cls: "ClassInfo | None" = None
    kind: str = "function"  # function | method | classmethod | staticmethod | property | setter
    decorators: list = field(default_factory=list)

    @property
    def name(self):
        return self.qualname.rsplit(".", 1)[-1]

    @property
    def where(self):
        return f"{self.module.replace('.', '/')}.py:{getattr(self.node, 'lineno', 0)} {self.qualname}"

    def params(self):
        a = self.node.args
        out = []
        for p in a.posonlyargs:
            out.append((p.arg, "posonly"))
        for p in a.args:
            out.append((p.arg, "pos_or_kw"))
        if a.vararg:
            out.append((a.vararg.arg, "vararg"))
        for p in a.kwonlyargs:
            out.append((p.arg, "kwonly"))
        if a.kwarg:
            out.append((a.kwarg.arg, "kwarg"))
        return out

    def defaults(self):
        """name -> default ast node (only parameters that have one)."""
        a = self.node.args
        pos = a.posonlyargs + a.args
        d = {}
        for p, dv in zip(pos[len(pos) - len(a.defaults):], a.defaults):
            d[p.arg] = dv
        for p, dv in zip(a.kwonlyargs, a.kw_defaults):
            if dv is not None:
                d[p.arg] = dv
        return d


@dataclass
class ClassInfo:
    module: str
    name: str
    node: ast.ClassDef
    base_exprs: list            # ast nodes
    bases: list = field(default_factory=list)       # resolved ClassInfo (repo-local only)
    ext_bases: list = field(default_factory=list)   # dotted names of external bases
    methods: dict = field(default_factory=dict)     # name -> FunctionInfo
    properties: dict = field(default_factory=dict)  # name -> {"get": FunctionInfo, "set": FunctionInfo|None}
    class_attrs: dict = field(default_factory=dict)  # name -> ast node (value)

    def mro(self):
        # C3 is overkill: the package uses single inheritance among its own classes.
        out, seen = [], set()

        def walk(c):
            if id(c) in seen:
                return
            seen.add(id(c))
            out.append(c)
            for b in c.bases:
                walk(b)
        walk(self)
        return out

    def is_subclass_of(self, other_name):
        return any(c.name == other_name for c in self.mro())

    def ext_base_names(self):
        names = []
        for c in self.mro():
            names.extend(c.ext_bases)
        return names

    def find_method(self, name):
        for c in self.mro():
            if name in c.methods:
                return c.methods[name]
        return None

    def find_property(self, name):
        for c in self.mro():
            if name in c.properties:
                return c.properties[name]
        return None

    def find_class_attr(self, name):
        for c in self.mro():
            if name in c.class_attrs:
                return c.class_attrs[name], c
        return None, None

    def init(self):
        return self.find_method("__init__")


@dataclass
class ModuleInfo:
    name: str
    path: str
    source: str
    tree: ast.Module
    imports: dict = field(default_factory=dict)    # local alias -> dotted target ("numpy", "astropy.units", "pulsarbat.core.Signal")
    star_imports: list = field(default_factory=list)  # dotted module names
    functions: dict = field(default_factory=dict)  # top-level name -> FunctionInfo
    classes: dict = field(default_factory=dict)    # name -> ClassInfo
    assigns: dict = field(default_factory=dict)    # top-level name -> ast value node
    all_names: list | None = None


class Program:
    def __init__(self, repo=REPO, overlay=None):
        """overlay: optional {relative path -> source text} replacing files on disk
        (used by the self-test to analyse seeded variants without touching /repo)."""
        self.repo = repo
        self.overlay = overlay or {}
        self.modules: dict[str, ModuleInfo] = {}
        self.all_functions: list[FunctionInfo] = []
        self.digest = None
        self._load()

    # ------------------------------------------------------------------ loading
    def _load(self):
        root = os.path.join(self.repo, PKG)
        if not os.path.isdir(root):
            raise AnalysisError(f"package directory {root} not found")
        h = hashlib.sha256()
        files = []
        for dp, dn, fn in os.walk(root):
            dn[:] = sorted(d for d in dn if d != "__pycache__" and d != "tests")
            for f in sorted(fn):
                if f.endswith(".py"):
                    files.append(os.path.join(dp, f))
        for path in files:
            rel = os.path.relpath(path, self.repo)
            if rel in self.overlay:
                src = self.overlay[rel]
            else:
                with open(path, encoding="utf-8") as fh:
                    src = fh.read()
            h.update(rel.encode() + b"\0" + src.encode() + b"\0")
            try:
                tree = ast.parse(src, filename=path)
            except SyntaxError as e:
                raise AnalysisError(f"cannot parse {rel}: {e}")
            modname = rel[:-3].replace(os.sep, ".")
            if modname.endswith(".__init__"):
                modname = modname[: -len(".__init__")]
            mi = ModuleInfo(modname, rel, src, tree)
            self.modules[modname] = mi
        self.digest = h.hexdigest()
        for mi in self.modules.values():
            self._index_module(mi)
        for mi in self.modules.values():
            for ci in mi.classes.values():
                self._resolve_bases(mi, ci)

    def _is_pkg(self, modname):
        return os.path.basename(self.modules[modname].path) == "__init__.py"

    def _abs_from(self, mi, node: ast.ImportFrom):
        if node.level == 0:
            return node.module
        parts = mi.name.split(".")
        if not self._is_pkg(mi.name):
            parts = parts[:-1]
        if node.level > 1:
            parts = parts[: -(node.level - 1)]
        base = ".".join(parts)
        return base + ("." + node.module if node.module else "")

    def _index_module(self, mi: ModuleInfo):
        for node in mi.tree.body:
            self._index_stmt(mi, node)
        # nested functions / lambdas for the function census
        for fi in list(mi.functions.values()):
            self._index_nested(mi, fi)
        for ci in mi.classes.values():
            for fi in list(ci.methods.values()):
                self._index_nested(mi, fi)
            for pr in ci.properties.values():
                for fi in pr.values():
                    if fi is not None:
                        self._index_nested(mi, fi)

    def _index_nested(self, mi, fi):
        for sub in ast.walk(fi.node):
            if sub is fi.node:
                continue
            if isinstance(sub, (ast.FunctionDef, ast.AsyncFunctionDef)):
                self.all_functions.append(
                    FunctionInfo(mi.name, fi.qualname + ".<locals>." + sub.name, sub, fi.cls, "nested"))
            elif isinstance(sub, ast.Lambda):
                self.all_functions.append(
                    FunctionInfo(mi.name, fi.qualname + ".<lambda>", sub, fi.cls, "lambda"))

    def _index_stmt(self, mi, node):
        if isinstance(node, ast.Import):
            for a in node.names:
                mi.imports[a.asname or a.name.split(".")[0]] = a.name if a.asname else a.name.split(".")[0]
        elif isinstance(node, ast.ImportFrom):
            base = self._abs_from(mi, node)
            for a in node.names:
                if a.name == "*":
                    mi.star_imports.append(base)
                else:
                    mi.imports[a.asname or a.name] = base + "." + a.name
        elif isinstance(node, (ast.FunctionDef, ast.AsyncFunctionDef)):
            fi = FunctionInfo(mi.name, node.name, node, None, "function",
                              [ast.unparse(d) for d in node.decorator_list])
            mi.functions[node.name] = fi
            self.all_functions.append(fi)
        elif isinstance(node, ast.ClassDef):
            ci = ClassInfo(mi.name, node.name, node, list(node.bases))
            mi.classes[node.name] = ci
            for sub in node.body:
                if isinstance(sub, (ast.FunctionDef, ast.AsyncFunctionDef)):
                    decs = [ast.unparse(d) for d in sub.decorator_list]
                    kind = "method"
                    if "property" in decs or any(d in CACHED_PROPERTY_DECORATORS for d in decs):
                        kind = "property"      # functools.cached_property: a getter whose first result is kept in the instance dict
                    elif any(d.endswith(".setter") for d in decs):
                        kind = "setter"
                    elif "classmethod" in decs:
                        kind = "classmethod"
                    elif "staticmethod" in decs:
                        kind = "staticmethod"
                    fi = FunctionInfo(mi.name, f"{node.name}.{sub.name}", sub, ci, kind, decs)
                    self.all_functions.append(fi)
                    if kind == "property":
                        ci.properties.setdefault(sub.name, {"get": None, "set": None})["get"] = fi
                    elif kind == "setter":
                        ci.properties.setdefault(sub.name, {"get": None, "set": None})["set"] = fi
                    else:
                        ci.methods[sub.name] = fi
                elif isinstance(sub, ast.Assign):
                    for t in sub.targets:
                        for n in ([t] if isinstance(t, ast.Name) else
                                  [e for e in getattr(t, "elts", []) if isinstance(e, ast.Name)]):
                            ci.class_attrs[n.id] = sub.value
                            # value = property(to_value, ...) style
                            if (isinstance(sub.value, ast.Call) and isinstance(sub.value.func, ast.Name)
                                    and sub.value.func.id == "property" and sub.value.args
                                    and isinstance(sub.value.args[0], ast.Name)
                                    and sub.value.args[0].id in ci.methods):
                                ci.properties[n.id] = {"get": ci.methods[sub.value.args[0].id], "set": None}
                elif isinstance(sub, ast.AnnAssign) and isinstance(sub.target, ast.Name):
                    ci.class_attrs[sub.target.id] = sub.value
        elif isinstance(node, ast.Assign):
            for t in node.targets:
                if isinstance(t, ast.Name):
                    mi.assigns[t.id] = node.value
                    if t.id == "__all__":
                        mi.all_names = self._literal_all(node.value)
                elif isinstance(t, ast.Tuple):
                    # tuple unpack: element by element when the value is a tuple display of the same length, else opaque
                    vals = node.value.elts if isinstance(node.value, (ast.Tuple, ast.List)) and len(node.value.elts) == len(t.elts) \
                        and not any(isinstance(x, ast.Starred) for x in list(t.elts) + list(node.value.elts)) else None
                    for k_, e in enumerate(t.elts):
                        if isinstance(e, ast.Name):
                            mi.assigns[e.id] = vals[k_] if vals is not None else None
        elif isinstance(node, ast.Try):
            for sub in node.body + node.orelse + node.finalbody:
                self._index_stmt(mi, sub)
            for hnd in node.handlers:
                for sub in hnd.body:
                    # fallback definitions (e.g. COPY_IF_NEEDED = False) do not override the try-body
                    if isinstance(sub, ast.Assign):
                        for t in sub.targets:
                            if isinstance(t, ast.Name) and t.id not in mi.assigns and t.id not in mi.imports:
                                mi.assigns[t.id] = sub.value
        elif isinstance(node, ast.If):
            for sub in node.body + node.orelse:
                self._index_stmt(mi, sub)

    @staticmethod
    def _literal_all(value):
        try:
            v = ast.literal_eval(value)
            return list(v)
        except Exception:
            return None

    def _resolve_bases(self, mi, ci):
        for b in ci.base_exprs:
            dotted = self.resolve_expr_name(mi, b)
            target = self.lookup(dotted) if dotted else None
            if isinstance(target, ClassInfo):
                ci.bases.append(target)
            else:
                ci.ext_bases.append(dotted or ast.unparse(b))

    # --------------------------------------------------------------- resolution
    def resolve_expr_name(self, mi: ModuleInfo, node):
        """Dotted absolute name for a Name/Attribute chain, through import aliases."""
        parts = []
        while isinstance(node, ast.Attribute):
            parts.append(node.attr)
            node = node.value
        if not isinstance(node, ast.Name):
            return None
        head = node.id
        parts.reverse()
        if head in mi.imports:
            base = mi.imports[head]
        elif head in mi.classes or head in mi.functions or head in mi.assigns:
            base = mi.name + "." + head
        else:
            star = self._star_lookup(mi, head)
            base = star if star else head
        return ".".join([base] + parts)

    def _star_lookup(self, mi, name, seen=None):
        seen = seen or set()
        for sm in mi.star_imports:
            if sm in seen or sm not in self.modules:
                continue
            seen.add(sm)
            m2 = self.modules[sm]
            exported = self.exports(sm)
            if name in exported:
                return self._canon(sm + "." + name)
        return None

    def exports(self, modname, seen=None):
        """Names visible through ``from modname import *``."""
        seen = seen or set()
        if modname in seen or modname not in self.modules:
            return set()
        seen.add(modname)
        mi = self.modules[modname]
        names = set()
        if mi.all_names is not None:
            names.update(mi.all_names)
        # __all__ built by .copy()/+=/extend of sub-module __all__s: follow star imports
        for sm in mi.star_imports:
            names.update(self.exports(sm, seen))
        if mi.all_names is None and not mi.star_imports:
            names.update(n for n in list(mi.functions) + list(mi.classes) + list(mi.assigns)
                         if not n.startswith("_"))
        return names

    def _canon(self, dotted, depth=0):
        """Follow re-exports until the dotted name hits a definition."""
        if depth > 12:
            return dotted
        parts = dotted.split(".")
        for i in range(len(parts), 0, -1):
            mod = ".".join(parts[:i])
            if mod in self.modules:
                mi = self.modules[mod]
                rest = parts[i:]
                if not rest:
                    return dotted
                head = rest[0]
                if head in mi.classes or head in mi.functions or head in mi.assigns:
                    return dotted
                if head in mi.imports:
                    return self._canon(".".join([mi.imports[head]] + rest[1:]), depth + 1)
                star = self._star_lookup(mi, head)
                if star:
                    return self._canon(".".join([star] + rest[1:]), depth + 1)
                sub = mod + "." + head
                if sub in self.modules:
                    continue
                return dotted
        return dotted

    def lookup(self, dotted):
        """Resolve an absolute dotted name to ModuleInfo / ClassInfo / FunctionInfo /
        ("assign", module, name, node) / None (external)."""
        if not dotted:
            return None
        dotted = self._canon(dotted)
        parts = dotted.split(".")
        for i in range(len(parts), 0, -1):
            mod = ".".join(parts[:i])
            if mod in self.modules:
                mi = self.modules[mod]
                rest = parts[i:]
                if not rest:
                    return mi
                head = rest[0]
                if head in mi.classes:
                    ci = mi.classes[head]
                    if len(rest) == 1:
                        return ci
                    if len(rest) == 2:
                        m = ci.find_method(rest[1])
                        if m:
                            return m
                        p = ci.find_property(rest[1])
                        if p:
                            return p["get"]
                        a, _ = ci.find_class_attr(rest[1])
                        if a is not None:
                            return ("classattr", ci, rest[1], a)
                    return None
                if head in mi.functions and len(rest) == 1:
                    return mi.functions[head]
                if head in mi.assigns and len(rest) == 1:
                    return ("assign", mi, head, mi.assigns[head])
                return None
        return None

    # ---------------------------------------------------------------- accessors
    def module(self, name):
        if name not in self.modules:
            raise AnalysisError(f"anchor module {name} not found")
        return self.modules[name]

    def cls(self, name):
        for mi in self.modules.values():
            if name in mi.classes:
                return mi.classes[name]
        raise AnalysisError(f"anchor class {name} not found")

    def func(self, qualname, module=None):
        """Function by qualified name ('time_shift', 'Signal._time_slice')."""
        hits = [f for f in self.all_functions
                if f.qualname == qualname and (module is None or f.module == module)
                and f.kind != "setter"]
        if not hits:
            raise AnalysisError(f"anchor function {qualname} not found")
        return hits[0]

    def setter(self, clsname, prop):
        ci = self.cls(clsname)
        p = ci.properties.get(prop)
        if not p or not p["set"]:
            raise AnalysisError(f"anchor setter {clsname}.{prop} not found")
        return p["set"]

    def getter(self, clsname, prop):
        ci = self.cls(clsname)
        p = ci.find_property(prop)
        if not p or not p["get"]:
            raise AnalysisError(f"anchor property {clsname}.{prop} not found")
        return p["get"]

    def classes(self):
        for mi in self.modules.values():
            yield from mi.classes.values()

    def signal_classes(self):
        return [c for c in self.classes() if c.is_subclass_of("Signal")]

    def reader_classes(self):
        return [c for c in self.classes() if c.is_subclass_of("BaseReader")]

    def census(self):
        nset = sum(1 for f in self.all_functions if f.kind == "setter")
        return {
            "modules": len(self.modules),
            "classes": sum(len(m.classes) for m in self.modules.values()),
            "functions": len(self.all_functions),
            "setters": nset,
            "digest": self.digest[:16],
        }

    def check_floor(self):
        c = self.census()
        floor = {"modules": 15, "classes": 17, "functions": 160, "setters": 10}
        bad = {k: (c[k], v) for k, v in floor.items() if c[k] < v}
        if bad:
            raise AnalysisError(f"program model below the confirmed floor (found, floor): {bad}")
        return c


def norm(node_or_src):
    """Normalised statement text used for keys (never line numbers)."""
    if isinstance(node_or_src, ast.AST):
        try:
            return ast.unparse(node_or_src)
        except Exception:
            return ast.dump(node_or_src)
    return " ".join(str(node_or_src).split())


def calls_in(node):
    for sub in ast.walk(node):
        if isinstance(sub, ast.Call):
            yield sub


def attr_chain(node):
    """['z','data','real'] for z.data.real ; None if not a pure chain."""
    parts = []
    while isinstance(node, ast.Attribute):
        parts.append(node.attr)
        node = node.value
    if isinstance(node, ast.Name):
        parts.append(node.id)
        return list(reversed(parts))
    return None
