"""Model of pulsarbat.pulsar.phase.Phase objects for the term evaluator.

A Phase is an astropy Angle subclass over a structured (int, frac) array; the evaluator cannot interpret
astropy's ndarray machinery, so the object is modelled as an abstract instance carrying the two parts as
real symbols and the `imaginary` flag.  Field access (`self["int"]`), `.view(np.ndarray)` and the final
construction step `from_angles` are provided by this model; everything in between - the dispatch logic of
`__array_ufunc__`, `__new__`, `check_imaginary`, the first half of `from_angles` - is the package's own code.
"""
from __future__ import annotations

import sympy as sp

from .values import Num, StrV, NONE, ExtV, ObjV, TupleV, DictV, BoolV, ClassV, PyFuncV, OpaqueV, NoneV, Unsupported
from .symeval import Evaluator, Raised

CYCLE = 2 * sp.pi
PH = "pulsarbat.pulsar.phase."


_BUF = [0]


def make_phase(prog, name, imaginary=False, cycle=None, shape=()):
    ci = prog.cls("Phase")
    i_, f_ = sp.Symbol(name + "_int", real=True), sp.Symbol(name + "_frac", real=True)
    o = ObjV(ci, {"imaginary": BoolV(imaginary), "_pint": Num(i_), "_pfrac": Num(f_)}, tag=name)
    if cycle is not None:
        o.attrs["_cycle"] = Num(cycle)        # numeric value of one cycle (1 when the floating-point grouping is studied)
    _BUF[0] += 1
    o.attrs["_buf"] = StrV(f"buffer{_BUF[0]}")      # identity of the underlying (int, frac) record array
    _methods(o, shape)
    return o


def _methods(o, shape=()):
    def view(ev, args, kwargs, fr, node):
        t = args[0] if args else None
        if isinstance(t, ExtV) and t.dotted == "numpy.ndarray":
            return DictV({"int": Num(o.attrs["_pint"].expr, kind="array", tag="ndarray"),
                          "frac": Num(o.attrs["_pfrac"].expr, kind="array", tag="ndarray")})
        if isinstance(t, ClassV) and t.ci is o.cls:
            # ndarray.view(cls): a NEW object over the SAME buffer
            c = ObjV(o.cls, dict(o.attrs), tag=(o.tag or "") + "~")
            _methods(c, shape)
            return c
        return o

    def copy(ev, args, kwargs, fr, node):
        c = ObjV(o.cls, dict(o.attrs), tag=(o.tag or "") + "'")
        _BUF[0] += 1
        c.attrs["_buf"] = StrV(f"buffer{_BUF[0]}")
        _methods(c, shape)
        return c
    o.attrs["view"] = PyFuncV(view, "view")
    o.attrs["copy"] = PyFuncV(copy, "copy")
    o.attrs["isscalar"] = BoolV(len(shape) == 0)
    o.attrs["shape"] = TupleV([Num(s_) for s_ in shape])
    o.attrs["ndim"] = Num(len(shape))
    o.attrs["dtype"] = ExtV("phase_dtype")


def part(o, item):
    e = o.attrs["_pint" if item == "int" else "_pfrac"].expr
    if o.attrs["imaginary"].b:
        e = sp.I * e
    cyc = o.attrs["_cycle"].expr if "_cycle" in o.attrs else CYCLE
    val = e if cyc == 1 else e * cyc
    return Num(val, kind="quantity", unit=cyc, dtype=ExtV("numpy.complex128" if o.attrs["imaginary"].b else "numpy.float64"))


class PhaseLog:
    def __init__(self):
        self.events = []


def phase_evaluator(prog, log: PhaseLog, capture_day_frac=False, oracle=None, grouping=False):
    """Evaluator with the Phase model installed."""
    counter = [0]

    def ov_getitem(ev, args, kwargs, node, fr, fn):
        self_, item = fn.bound, args[0]
        if isinstance(item, StrV) and item.s in ("int", "frac"):
            return part(self_, item.s)
        raise Unsupported("Phase indexing other than by field name")

    def ov_from_angles(ev, args, kwargs, node, fr, fn):
        names = ["phase1", "phase2", "factor", "divisor", "out"]
        b = dict(zip(names, args))
        b.update(kwargs)
        log.events.append(("from_angles", {k: b.get(k, NONE) for k in names}))
        counter[0] += 1
        out = b.get("out", NONE)
        if isinstance(out, ObjV):
            res = out
        else:
            res = ObjV(prog.cls("Phase"), {}, tag=f"result{counter[0]}")
        k = counter[0]
        res.attrs.update({"imaginary": BoolV(False), "_pint": Num(sp.Symbol(f"R{k}_int", real=True)), "_pfrac": Num(sp.Symbol(f"R{k}_frac", real=True)),
                          "_from": b})
        if "_buf" not in res.attrs:
            _BUF[0] += 1
            res.attrs["_buf"] = StrV(f"buffer{_BUF[0]}")
        shp = tuple(x.expr for x in out.attrs["shape"].items) if isinstance(out, ObjV) and isinstance(out.attrs.get("shape"), TupleV) else ()
        _methods(res, shp)
        return res

    def ov_phase_ctor(ev, args, kwargs, node, fr, ci):
        new = ci.find_method("__new__")
        return ev.call(new, args, kwargs, self_val=ClassV(ci), depth=fr.depth + 1)

    def ov_day_frac(ev, args, kwargs, node, fr, fn):
        names = ["val1", "val2", "factor", "divisor"]
        b = dict(zip(names, args))
        b.update(kwargs)
        f = fr
        env = {}
        while f is not None and not env:
            if f.fi is not None and f.fi.name == "from_angles":
                env = dict(f.env)
            f = f.closure
        raise Captured({k: b.get(k, NONE) for k in names}, ev.last_env_of("from_angles"))

    ov = {PH + "Phase.__getitem__": ov_getitem, PH + "Phase": ov_phase_ctor}
    if capture_day_frac:
        ov[PH + "day_frac"] = ov_day_frac
    else:
        ov[PH + "Phase.from_angles"] = ov_from_angles
    ev = Evaluator(prog, oracle=oracle, overrides=ov)
    ev.grouping = grouping
    ev._frames = []
    orig_call = ev.call

    def call(fi, args=(), kwargs=None, self_val=None, depth=0, closure=None, cls_val=None):
        return orig_call(fi, args, kwargs, self_val=self_val, depth=depth, closure=closure, cls_val=cls_val)
    ev.last_env_of = lambda name: None
    return ev


class Captured(Exception):
    def __init__(self, args, env):
        super().__init__("captured")
        self.call_args, self.env = args, env
