"""E4 - abstract interpreter producing algebraic terms ("formula obligations").

Evaluates functions of the analysed package on *symbolic* inputs: numbers, Quantities,
Times and arrays are sympy terms (units are positive symbols), signals are abstract
objects whose attribute reads inline the package's own properties.  Branches whose test
cannot be decided from the abstract inputs are if-converted (both arms are evaluated,
values joined with ITE/Piecewise; an arm that raises contributes a path fact, an arm
that returns contributes a predicated return).  There is no solver: the resulting term
is compared with a reference term by normal forms / exact rational evaluation (terms.py).
Anything outside the vocabulary raises Unsupported -> the obligation is inconclusive.
"""
from __future__ import annotations

import ast
import sympy as sp

from .model import Program, FunctionInfo, ClassInfo, ModuleInfo, AnalysisError, norm, is_cached_property
from .values import *  # noqa: F401,F403
from .extapi import is_bool_expr
from .values import (Val, Num, StrV, NoneV, NONE, BoolV, CondV, TupleV, ListV, DictV, SetV, SliceV, ObjV,
                     ClassV, FuncV, ExtV, BoundBuiltin, OpaqueV, SigParamV, SignatureV, Unsupported, PyFuncV, DispatchV,
                     DimensionError, UNITS, UNIT_SYMS, F, NONE_S, fresh_index, mk_ite)

MAX_DEPTH = 14
MAX_UNROLL = 64


ALL_EVALUATORS = []     # every evaluator created in this process (one process per check): their `touched` sets are the
                        # functions the property's rules actually entered


class Raised(Exception):
    """A definite `raise` on the current (decided) path."""
    def __init__(self, exc_name, node=None, msg=None, origin=None):
        super().__init__(f"{exc_name}: {msg}" if msg else exc_name)
        self.exc_name, self.node, self.msg = exc_name, node, msg
        self.origin = origin if origin is not None else (msg.split(":", 1)[0] if msg and ":" in msg and " " not in msg.split(":", 1)[0] else None)


def _is_generator(fn_node):
    """Does the function body (not a nested function) contain yield?"""
    todo = list(fn_node.body)
    while todo:
        n = todo.pop()
        if isinstance(n, (ast.Yield, ast.YieldFrom)):
            return True
        if isinstance(n, (ast.FunctionDef, ast.AsyncFunctionDef, ast.Lambda, ast.ClassDef)):
            continue
        todo.extend(ast.iter_child_nodes(n))
    return False


class Outcome:
    __slots__ = ("kind", "value", "exc", "where")

    def __init__(self, kind, value=None, exc=None, where=None):
        self.kind, self.value, self.exc, self.where = kind, value, exc, where


class Frame:
    def __init__(self, ev, fi, mi, env, depth, closure=None):
        self.ev, self.fi, self.mi, self.env, self.depth = ev, fi, mi, env, depth
        self.closure = closure
        self.pending = []      # predicated returns [(cond expr, Val)]
        self.facts = []        # sympy booleans known true on the current path
        self.events = []       # notable things seen (asserts, raises avoided, ...)


EXC_PARENTS = {
    "InvalidSignalError": "ValueError", "OutOfBoundsError": "EOFError", "UnitConversionError": "UnitsError",
    "UnitsError": "ValueError", "UnitTypeError": "UnitsError", "KeyError": "LookupError",
    "IndexError": "LookupError", "EOFError": "Exception", "ValueError": "Exception", "TypeError": "Exception",
    "LookupError": "Exception", "AssertionError": "Exception", "AttributeError": "Exception",
    "ImportError": "Exception", "NotImplementedError": "RuntimeError", "RuntimeError": "Exception",
    "ZeroDivisionError": "ArithmeticError", "ArithmeticError": "Exception", "OSError": "Exception",
    "Exception": "BaseException",
}


def exc_matches(name, handler_names):
    seen = 0
    while name and seen < 10:
        if name in handler_names:
            return True
        name = EXC_PARENTS.get(name)
        seen += 1
    return False


class Evaluator:
    def __init__(self, prog: Program, oracle=None, overrides=None, seed=0):
        self.prog = prog
        self.oracle = oracle              # callable(cond_expr, node, frame) -> True/False/None
        self.debug_allclose = bool(__import__("os").environ.get("PBV_DBG_AC"))
        self.overrides = dict(DEFAULT_OVERRIDES)   # dotted repo name -> handler(ev, args, kwargs, node, frame, fn)
        self.overrides.update(overrides or {})
        self._idx = 0
        self.index_len = {}               # index symbol -> length expr
        self.modcache = {}
        self.trace = []                   # (kind, payload) notable events, e.g. dimension checks
        self.dim_checks = 0
        self.calls_inlined = 0
        self.touched = set()
        ALL_EVALUATORS.append(self)
        self.signal_slices = []  # (function, node, index value, path facts) for every signal-level subscript in library code
        self.guard_log = []      # (function, test, exception, where) for every arm that raised under an undecided test
        from . import extapi
        self.ext = extapi

    # ------------------------------------------------------------------ helpers
    def new_index(self, base, length):
        self._idx += 1
        s = fresh_index(f"{base}{self._idx}")
        self.index_len[s] = length
        return s

    def unsupported(self, what, node=None, frame=None):
        where = ""
        if frame is not None and frame.fi is not None:
            where = f" in {frame.fi.where}"
        if node is not None and hasattr(node, "lineno"):
            where += f" line {node.lineno}"
        raise Unsupported(f"{what}{where}" + (f": {norm(node)[:120]}" if isinstance(node, ast.AST) else ""))

    # --------------------------------------------------------------- entry points
    def call(self, fi: FunctionInfo, args=(), kwargs=None, self_val=None, depth=0, closure=None, cls_val=None):
        kwargs = dict(kwargs or {})
        # the same function entered again with identical arguments while it is still active: the evaluation is
        # deterministic, so the code recurses without bound (RecursionError at run time)
        key = (fi.module, fi.qualname, self._vkey(self_val), tuple(self._vkey(a) for a in args),
               tuple(sorted((k, self._vkey(v)) for k, v in kwargs.items())))
        stack = self.__dict__.setdefault("_active", [])
        if stack.count(key) >= 2:
            raise Raised("RecursionError", msg=f"{fi.qualname} re-enters itself with identical arguments (unbounded recursion)", origin=fi.qualname)
        if depth > MAX_DEPTH:
            raise Unsupported(f"inlining depth exceeded at {fi.qualname}")
        stack.append(key)
        try:
            return self._call(fi, args, kwargs, self_val, depth, closure, cls_val)
        finally:
            stack.pop()

    @staticmethod
    def _vkey(v):
        if isinstance(v, Num):
            return ("N", v.expr, v.kind, v.shape)
        if isinstance(v, StrV):
            return ("S", v.s)
        if isinstance(v, BoolV):
            return ("B", v.b)
        if isinstance(v, (TupleV, ListV)):
            return (type(v).__name__, tuple(Evaluator._vkey(x) for x in v.items))
        if isinstance(v, ExtV):
            return ("E", v.dotted)
        return ("id", id(v))

    def _call(self, fi, args, kwargs, self_val, depth, closure, cls_val):
        self.calls_inlined += 1
        self.touched.add(f"{fi.module}:{fi.qualname}")
        mi = self.prog.modules[fi.module]
        env = self._bind(fi, list(args), kwargs, self_val, cls_val, mi, depth)
        fr = Frame(self, fi, mi, env, depth, closure)
        node = fi.node
        if isinstance(node, ast.Lambda):
            return self.eval(node.body, fr)
        if _is_generator(node):
            # a generator function is run to exhaustion and its values handed over as a list (the package's generators
            # are finite and have no side effects between yields that a consumer could interleave with)
            fr.yielded = []
            out = self.exec_block(node.body, fr)
            if out is not None and out.kind == "raise":
                raise Raised(out.exc, msg=out.where or f"raised on every path of {fi.qualname}")
            if fr.pending:
                self.unsupported("generator with a return under an undecided condition", node, fr)
            self.last_frame = fr
            return ListV(fr.yielded)
        out = self.exec_block(node.body, fr)
        if out is not None and out.kind == "raise":
            raise Raised(out.exc, msg=out.where or f"raised on every path of {fi.qualname}")
        val = out.value if (out is not None and out.kind == "return") else NONE
        for cond, v in reversed(fr.pending):
            val = self.ite(cond, v, val)
        self.last_frame = fr
        return val

    def _bind(self, fi, args, kwargs, self_val, cls_val, mi, depth):
        a = fi.node.args
        env = {}
        pos = [p.arg for p in a.posonlyargs] + [p.arg for p in a.args]
        if fi.kind in ("method", "property", "setter") and self_val is not None:
            args = [self_val] + args
        elif fi.kind == "classmethod":
            args = [cls_val if cls_val is not None else ClassV(fi.cls)] + args
        if len(args) > len(pos) and not a.vararg:
            raise Raised("TypeError", msg=f"too many positional arguments for {fi.qualname}")
        for name, v in zip(pos, args):
            env[name] = v
        if a.vararg:
            env[a.vararg.arg] = TupleV(args[len(pos):])
        posonly = {p.arg for p in a.posonlyargs}
        extra = {}
        for k, v in kwargs.items():
            if (k in pos and k not in posonly) or k in [p.arg for p in a.kwonlyargs]:
                if k in env:
                    raise Raised("TypeError", msg=f"multiple values for {k}")
                env[k] = v
            else:
                extra[k] = v
        if a.kwarg:
            env[a.kwarg.arg] = DictV(extra)
        elif extra:
            raise Raised("TypeError", msg=f"unexpected keyword argument(s) {sorted(extra)} for {fi.qualname}")
        # defaults
        dfl = fi.defaults()
        dfr = Frame(self, fi, mi, {}, depth)
        pre = getattr(fi, "_eval_defaults", None)
        for name in pos + [p.arg for p in a.kwonlyargs]:
            if name not in env:
                if pre is not None and name in pre:
                    env[name] = pre[name]
                elif name in dfl:
                    env[name] = self.eval(dfl[name], dfr)
                else:
                    raise Raised("TypeError", msg=f"missing argument {name} for {fi.qualname}")
        return env

    # ------------------------------------------------------------------ truth
    def truth(self, v, fr=None, node=None):
        """-> True / False / sympy Boolean (undecided)."""
        if isinstance(v, BoolV):
            return v.b
        if isinstance(v, NoneV):
            return False
        if isinstance(v, StrV):
            return bool(v.s)
        if isinstance(v, (TupleV, ListV, SetV)):
            return bool(v.items)
        if isinstance(v, DictV):
            return bool(v.d)
        if isinstance(v, (ObjV, ClassV, FuncV, ExtV, OpaqueV, SliceV, BoundBuiltin)):
            return True
        if isinstance(v, CondV):
            return self.decide(v.expr, fr, node)
        if isinstance(v, PhiV):
            ta, tb = self.truth(v.a, fr, node), self.truth(v.b, fr, node)
            if ta is True and tb is True:
                return True
            if ta is False and tb is False:
                return False
            ta = sp.true if ta is True else sp.false if ta is False else ta
            tb = sp.true if tb is True else sp.false if tb is False else tb
            return self.decide(sp.Or(sp.And(v.cond, ta), sp.And(sp.Not(v.cond), tb)), fr, node)
        if isinstance(v, Num):
            if v.kind == "bool":
                return self.decide(sp.Ne(v.expr, 0) if not is_bool_expr(v.expr) else v.expr, fr, node)
            if v.expr.is_number:
                return bool(v.expr != 0)
            return self.decide(sp.Ne(v.expr, 0), fr, node)
        raise Unsupported(f"truth value of {v!r}")

    def cheap_bool(self, c):
        """Decide / normalise a Boolean term without sympy.simplify (which is unboundedly slow on large terms)."""
        if c is True or c is sp.true:
            return sp.true
        if c is False or c is sp.false:
            return sp.false
        if isinstance(c, sp.core.relational.Relational):
            try:
                d = c.lhs - c.rhs
            except Exception:
                return c
            if isinstance(c.lhs, sp.core.function.AppliedUndef) or isinstance(c.rhs, sp.core.function.AppliedUndef):
                if d == 0:
                    return sp.true if isinstance(c, (sp.Eq, sp.Le, sp.Ge)) else sp.false
                return c
            if not d.is_number and sp.count_ops(d) < 60:
                try:
                    d = sp.expand(d)
                except Exception:
                    pass
            pos, neg, zero = d.is_positive, d.is_negative, d.is_zero
            if d.is_number and d.is_real:
                pos, neg, zero = bool(d > 0), bool(d < 0), bool(d == 0)
            t = type(c)
            if t is sp.Eq and zero is not None:
                return sp.true if zero else sp.false
            if t is sp.Ne and zero is not None:
                return sp.false if zero else sp.true
            if t is sp.Eq and (pos or neg):
                return sp.false
            if t is sp.Ne and (pos or neg):
                return sp.true
            if t is sp.Lt:
                if neg:
                    return sp.true
                if pos or zero or d.is_nonnegative:
                    return sp.false
            if t is sp.Le:
                if neg or zero or d.is_nonpositive:
                    return sp.true
                if pos:
                    return sp.false
            if t is sp.Gt:
                if pos:
                    return sp.true
                if neg or zero or d.is_nonpositive:
                    return sp.false
            if t is sp.Ge:
                if pos or zero or d.is_nonnegative:
                    return sp.true
                if neg:
                    return sp.false
            return c
        if isinstance(c, (sp.And, sp.Or, sp.Not, sp.Xor)):
            try:
                return c.func(*[self.cheap_bool(a) for a in c.args])
            except Exception:
                return c
        return c

    def decide(self, cond, fr=None, node=None):
        if cond is True or cond is False:
            return cond
        try:
            c = self.cheap_bool(cond)
        except Exception:
            c = cond
        if c is sp.true or c == True:   # noqa: E712
            return True
        if c is sp.false or c == False:  # noqa: E712
            return False
        if fr is not None:
            for f in fr.facts:
                if f == c:
                    return True
                try:
                    if sp.Not(f) == c or f == sp.Not(c):
                        return False
                except Exception:
                    pass
        if self.oracle is not None:
            r = self.oracle(c, node, fr)
            if r is True or r is False:
                return r
        return c

    def ite(self, cond, a, b):
        if self.same(a, b):
            return a
        if isinstance(a, Num) and isinstance(b, Num):
            kind = a.kind if a.kind == b.kind else "number"
            shape, axes = None, None
            if a.shape == b.shape:
                shape, axes = a.shape, a.axes
            elif a.shape is not None and b.shape is not None and len(a.shape) == len(b.shape):
                shape = tuple(x if x == y else mk_ite(cond, x, y) for x, y in zip(a.shape, b.shape))
            return Num(mk_ite(cond, a.expr, b.expr), kind=kind, shape=shape, axes=axes,
                       backend=a.backend if a.backend == b.backend else None,
                       tag=a.tag if a.tag == b.tag else None, dtype=a.dtype if a.dtype is b.dtype else (a.dtype or b.dtype))
        if isinstance(a, DictV) and isinstance(b, DictV) and set(a.d) == set(b.d):
            return DictV({k: self.ite(cond, a.d[k], b.d[k]) for k in a.d})
        if isinstance(a, TupleV) and isinstance(b, TupleV) and len(a.items) == len(b.items):
            return TupleV([self.ite(cond, x, y) for x, y in zip(a.items, b.items)])
        if isinstance(a, ListV) and isinstance(b, ListV) and len(a.items) == len(b.items):
            return ListV([self.ite(cond, x, y) for x, y in zip(a.items, b.items)])
        if isinstance(a, ObjV) and isinstance(b, ObjV) and a.cls is b.cls:
            if set(a.attrs) == set(b.attrs):
                return ObjV(a.cls, {k: self.ite(cond, a.attrs[k], b.attrs[k]) for k in a.attrs}, a.tag)
            # an attribute created on one arm only: tolerated when it is private derived state (a memoised value is
            # recomputed on demand; its coherence is rule RS's business), never for state backing a settable property
            odd = set(a.attrs) ^ set(b.attrs)

            def derived(k):
                pr = a.cls.find_property(k.lstrip("_"))
                return k.startswith("_") and k != "_data" and not (pr is not None and pr.get("set") is not None)
            if all(derived(k) for k in odd):
                common = set(a.attrs) & set(b.attrs)
                return ObjV(a.cls, {k: self.ite(cond, a.attrs[k], b.attrs[k]) for k in a.attrs if k in common}, a.tag)
        return PhiV(cond, a, b)

    def same(self, a, b):
        if a is b:
            return True
        if type(a) is not type(b):
            return False
        if isinstance(a, Num):
            return a.expr == b.expr and a.kind == b.kind
        if isinstance(a, StrV):
            return a.s == b.s
        if isinstance(a, BoolV):
            return a.b == b.b
        if isinstance(a, (TupleV, ListV)):
            return len(a.items) == len(b.items) and all(self.same(x, y) for x, y in zip(a.items, b.items))
        if isinstance(a, DictV):
            return set(a.d) == set(b.d) and all(self.same(a.d[k], b.d[k]) for k in a.d)
        if isinstance(a, SliceV):
            return self.same(a.start, b.start) and self.same(a.stop, b.stop) and self.same(a.step, b.step)
        if isinstance(a, ClassV):
            return a.ci is b.ci
        if isinstance(a, ExtV):
            return a.dotted == b.dotted
        if isinstance(a, ObjV):
            return a.cls is b.cls and set(a.attrs) == set(b.attrs) and all(self.same(a.attrs[k], b.attrs[k]) for k in a.attrs)
        if isinstance(a, CondV):
            return a.expr == b.expr
        return False

    # ----------------------------------------------------------- env fork/merge
    def clone(self, v, memo):
        if isinstance(v, (DictV, ListV, ObjV)):
            if id(v) in memo:
                return memo[id(v)]
            if isinstance(v, DictV):
                n = DictV()
                memo[id(v)] = n
                memo["__pairs__"].append((v, n))
                n.d = {k: self.clone(x, memo) for k, x in v.d.items()}
            elif isinstance(v, ListV):
                n = ListV([])
                memo[id(v)] = n
                memo["__pairs__"].append((v, n))
                n.items = [self.clone(x, memo) for x in v.items]
            else:
                n = ObjV(v.cls, {}, v.tag)
                memo[id(v)] = n
                memo["__pairs__"].append((v, n))
                n.attrs = {k: self.clone(x, memo) for k, x in v.attrs.items()}
            return n
        return v

    def fork(self, fr):
        """A copy of the frame whose mutable values (objects, dicts, lists reachable from the environment) are cloned, so
        that the two arms of an undecided test do not see each other's writes.  The (original, clone) pairs are kept: when
        an arm is adopted or the arms are merged, the surviving state is written back *into the original objects*, so that
        every alias held by a caller sees it (a setter that assigns `self._x` after an undecided guard must change the
        caller's object, not a copy)."""
        memo = {"__pairs__": []}
        f2 = Frame(self, fr.fi, fr.mi, {k: self.clone(v, memo) for k, v in fr.env.items()}, fr.depth, fr.closure)
        f2.pairs = memo["__pairs__"]
        f2.pending = list(fr.pending)
        f2.facts = list(fr.facts)
        f2.events = fr.events
        return f2

    def _unclone(self, v, rev, seen):
        """Replace references to clones by the originals they stand for (in place inside values created in the arm)."""
        if id(v) in rev:
            return rev[id(v)]
        if isinstance(v, (DictV, ListV, ObjV, TupleV)) and id(v) not in seen:
            seen.add(id(v))
            if isinstance(v, DictV):
                for k in list(v.d):
                    v.d[k] = self._unclone(v.d[k], rev, seen)
            elif isinstance(v, (ListV, TupleV)):
                v.items = [self._unclone(x, rev, seen) for x in v.items]
            else:
                for k in list(v.attrs):
                    v.attrs[k] = self._unclone(v.attrs[k], rev, seen)
        return v

    @staticmethod
    def _content(v):
        return v.d if isinstance(v, DictV) else v.attrs if isinstance(v, ObjV) else None

    def _adopt(self, fr, f, fact):
        pairs = getattr(f, "pairs", [])
        rev = {id(c): o for o, c in pairs}
        seen = set()
        for o, c in pairs:
            if isinstance(o, ListV):
                o.items = [self._unclone(x, rev, seen) for x in c.items]
            else:
                new = {k: self._unclone(x, rev, seen) for k, x in self._content(c).items()}
                tgt = self._content(o)
                tgt.clear()
                tgt.update(new)
        fr.env = {k: self._unclone(v, rev, seen) for k, v in f.env.items()}
        fr.pending = [(c, self._unclone(v, rev, seen)) for c, v in f.pending]
        fr.facts = f.facts

    def merge_into(self, fr, cond, f1, f2):
        p1, p2 = getattr(f1, "pairs", []), getattr(f2, "pairs", [])
        rev1 = {id(c): o for o, c in p1}
        rev2 = {id(c): o for o, c in p2}
        s1, s2 = set(), set()
        unmerged = {}
        if len(p1) == len(p2) and all(a[0] is b[0] for a, b in zip(p1, p2)):
            for (o, c1), (_, c2) in zip(p1, p2):
                if isinstance(o, ListV):
                    i1 = [self._unclone(x, rev1, s1) for x in c1.items]
                    i2 = [self._unclone(x, rev2, s2) for x in c2.items]
                    if len(i1) == len(i2):
                        o.items = [self.ite(cond, x, y) for x, y in zip(i1, i2)]
                    else:
                        unmerged[id(o)] = PhiV(cond, ListV(i1), ListV(i2))
                    continue
                a1 = {k: self._unclone(x, rev1, s1) for k, x in self._content(c1).items()}
                a2 = {k: self._unclone(x, rev2, s2) for k, x in self._content(c2).items()}
                merged = {}
                for k in list(a1) + [k for k in a2 if k not in a1]:
                    if k in a1 and k in a2:
                        merged[k] = self.ite(cond, a1[k], a2[k])
                    elif isinstance(o, ObjV) and self._derived_attr(o.cls, k):
                        continue       # a memo created on one arm only is recomputed on demand (coherence: rule RS)
                    else:
                        merged[k] = a1[k] if k in a1 else a2[k]
                tgt = self._content(o)
                tgt.clear()
                tgt.update(merged)
        else:
            rev1, rev2 = {}, {}
        env = {}
        for k in list(f1.env) + [k for k in f2.env if k not in f1.env]:
            if k in f1.env and k in f2.env:
                v1, v2 = self._unclone(f1.env[k], rev1, s1), self._unclone(f2.env[k], rev2, s2)
                if v1 is v2 and id(v1) in unmerged:
                    env[k] = unmerged[id(v1)]
                else:
                    env[k] = self.ite(cond, v1, v2)
            elif k in f1.env:
                env[k] = self._unclone(f1.env[k], rev1, s1)   # defined on one arm only
            else:
                env[k] = self._unclone(f2.env[k], rev2, s2)
        fr.env = env
        # predicated returns collected inside the arms
        base = len(fr.pending)
        for c, v in f1.pending[base:]:
            fr.pending.append((sp.And(cond, c), self._unclone(v, rev1, s1)))
        for c, v in f2.pending[base:]:
            fr.pending.append((sp.And(sp.Not(cond), c), self._unclone(v, rev2, s2)))
        return rev1, rev2

    @staticmethod
    def _derived_attr(cls, k):
        pr = cls.find_property(k.lstrip("_"))
        return k.startswith("_") and k != "_data" and not (pr is not None and pr.get("set") is not None)

    # -------------------------------------------------------------- statements
    def exec_block(self, stmts, fr):
        for i, s in enumerate(stmts):
            out = self.exec_stmt(s, fr)
            if out is not None:
                return out
        return None

    def exec_stmt(self, s, fr):
        if isinstance(s, ast.Expr):
            if isinstance(s.value, ast.Constant) and isinstance(s.value.value, str):
                return None
            self.eval(s.value, fr)
            return None
        if isinstance(s, ast.Assign):
            v = self.eval(s.value, fr)
            for t in s.targets:
                self.assign(t, v, fr)
            return None
        if isinstance(s, ast.AnnAssign):
            if s.value is not None:
                self.assign(s.target, self.eval(s.value, fr), fr)
            return None
        if isinstance(s, ast.AugAssign):
            cur = self.eval(_load(s.target), fr)
            rhs = self.eval(s.value, fr)
            if isinstance(cur, ListV) and isinstance(s.op, ast.Add):
                cur.items.extend(self.iterate(rhs, fr, s))
                return None
            if isinstance(cur, Num) and cur.backend == "numpy" and (cur.shape or cur.tag == "data") and getattr(rhs, "backend", None) == "dask":
                # ndarray.__imul__(dask array) is np.multiply(x, d, out=x): Dask's __array_ufunc__ refuses an ndarray as out=
                raise Raised("NotImplementedError", s, "The out parameter is not fully supported. Received type ndarray, expected Dask Array",
                             origin=(fr.fi.qualname if fr is not None and fr.fi is not None else None))
            if isinstance(cur, Num) and isinstance(rhs, Num) and cur.shape is not None and rhs.shape and cur.kind != "time" \
                    and (cur.shape or cur.kind in ("array", "quantity")):
                # an in-place operator cannot grow its target: x (3,) *= f (2, 1) raises where x * f broadcasts to (2, 3)
                bs = self.ext._ufunc_broadcast_shape([cur, rhs]) if cur.shape else tuple(rhs.shape)
                cs = tuple(cur.shape)
                if bs is not None and len(bs) == len(cs) + (len(bs) - len(cs)) and (len(bs) != len(cs) or any(
                        sp.simplify(sp.sympify(x_) - sp.sympify(y_)) != 0 and sp.sympify(x_).is_number and sp.sympify(y_).is_number for x_, y_ in zip(bs, cs))):
                    if len(bs) != len(cs) or all(sp.sympify(x_).is_number for x_ in bs + cs):
                        raise Raised("ValueError", s, f"non-broadcastable output operand with shape {cs} doesn't match the broadcast shape {tuple(bs)}",
                                     origin=(fr.fi.qualname if fr is not None and fr.fi is not None else None))
            v = self.binop(s.op, cur, rhs, s, fr)
            self.assign(s.target, v, fr)
            # NumPy's augmented operators work in place: every other name / attribute / container slot of this frame that
            # holds the *same array object* sees the new contents (i = XX; i += YY changes XX).  Python scalars, Times and
            # explicit per-element arrays (which model their own stores) are excluded.
            if isinstance(cur, Num) and isinstance(v, Num) and cur is not v and cur.kind != "time" \
                    and (cur.shape or cur.tag == "data" or cur.kind in ("array", "quantity")) and cur.tag != "unit":
                self._rebind_aliases(fr, cur, v)
                # an in-place operator on a VIEW writes into the array it was taken from
                root, hops = cur, 0
                while getattr(root, "base", None) is not None and hops < 20:
                    root, hops = root.base, hops + 1
                if root is not cur:
                    written = root.like(F["Opq"](sp.Symbol("written_through_a_view"), root.expr), unit=root.unit, cls=root.cls, tag=root.tag)
                    self.trace.append(("inplace-on-view", norm(s)[:80], root, written))
                    self._rebind_aliases(fr, root, written)
            return None
        if isinstance(s, ast.Return):
            return Outcome("return", self.eval(s.value, fr) if s.value is not None else NONE)
        if isinstance(s, ast.Raise):
            return Outcome("raise", exc=self.exc_name(s, fr),
                           where=f"{fr.fi.qualname if fr.fi else '?'}: {norm(s)[:100]}")
        if isinstance(s, ast.Pass):
            return None
        if isinstance(s, ast.Assert):
            t = self.truth(self.eval(s.test, fr), fr, s)
            if t is False:
                return Outcome("raise", exc="AssertionError",
                               where=f"{fr.fi.qualname if fr.fi else '?'}: {norm(s)[:100]}")
            if t is not True:
                fr.facts.append(t)
                fr.events.append(("assert", norm(s.test), t))
            return None
        if isinstance(s, ast.If):
            return self.exec_if(s, fr)
        if isinstance(s, ast.For):
            return self.exec_for(s, fr)
        if isinstance(s, ast.While):
            return self.exec_while(s, fr)
        if isinstance(s, ast.Try):
            return self.exec_try(s, fr)
        if isinstance(s, ast.With):
            opened = []
            for item in s.items:
                v = self.eval(item.context_expr, fr)
                if isinstance(v, self.ext.HandleV):
                    opened.append(v)
                if item.optional_vars is not None:
                    self.assign(item.optional_vars, v, fr)
            out = self.exec_block(s.body, fr)
            for h in opened:
                h.closed = True
                h.log.append(("close", id(h)))
            return out
        if isinstance(s, (ast.FunctionDef,)):
            sub = FunctionInfo(fr.fi.module, fr.fi.qualname + ".<locals>." + s.name, s, None, "nested",
                               [ast.unparse(d) for d in s.decorator_list])
            self._definition_time_defaults(sub, fr)
            fv = FuncV(sub, closure=fr)
            for d in reversed(s.decorator_list):
                fv = self.apply(self.eval(d, fr), [fv], {}, fr, d)
            fr.env[s.name] = fv
            return None
        if isinstance(s, (ast.Import, ast.ImportFrom)):
            for a in s.names:
                nm = a.asname or a.name.split(".")[0]
                if isinstance(s, ast.Import):
                    fr.env[nm] = ExtV(a.name if a.asname else a.name.split(".")[0])
                else:
                    fr.env[nm] = ExtV((s.module or "") + "." + a.name)
            return None
        if isinstance(s, ast.Break):
            return Outcome("break")
        if isinstance(s, ast.Continue):
            return Outcome("continue")
        if isinstance(s, ast.Delete):
            return None
        self.unsupported(f"statement {type(s).__name__}", s, fr)

    def exc_name(self, s, fr):
        e = s.exc
        if e is None:
            return "Exception"
        if isinstance(e, ast.Call):
            e = e.func
        if isinstance(e, ast.Name):
            return e.id
        if isinstance(e, ast.Attribute):
            return e.attr
        return "Exception"

    def exec_if(self, s, fr):
        t = self.truth(self.eval(s.test, fr), fr, s)
        if t is True:
            return self.exec_block(s.body, fr)
        if t is False:
            return self.exec_block(s.orelse, fr)
        cond = t
        f1, f2 = self.fork(fr), self.fork(fr)
        f1.facts.append(cond)
        f2.facts.append(sp.Not(cond))
        o1 = self._arm(s.body, f1)
        o2 = self._arm(s.orelse, f2)
        k1 = o1.kind if o1 else None
        k2 = o2.kind if o2 else None
        if k1 in ("break", "continue") or k2 in ("break", "continue"):
            self.unsupported("break/continue under an undecided condition", s, fr)
        if k1 is None and k2 is None:
            self.merge_into(fr, cond, f1, f2)
            return None
        if k1 == "raise" and k2 == "raise":
            return Outcome("raise", exc=o1.exc)
        if k1 == "raise":
            self._adopt(fr, f2, sp.Not(cond))
            fr.events.append(("guard", norm(s.test), o1.exc))
            self.guard_log.append((fr.fi.qualname if fr.fi else "?", norm(s.test), o1.exc, o1.where))
            return o2
        if k2 == "raise":
            self._adopt(fr, f1, cond)
            fr.events.append(("guard-else", norm(s.test), o2.exc))
            self.guard_log.append((fr.fi.qualname if fr.fi else "?", "not " + norm(s.test), o2.exc, o2.where))
            return o1
        if k1 == "return" and k2 == "return":
            base = len(fr.pending)
            rev1, rev2 = self.merge_into(fr, cond, f1, f2)
            return Outcome("return", self.ite(cond, self._unclone(o1.value, rev1, set()), self._unclone(o2.value, rev2, set())))
        if k1 == "return":
            self._adopt(fr, f2, sp.Not(cond))
            fr.pending.append((cond, o1.value))
            return None
        if k2 == "return":
            self._adopt(fr, f1, cond)
            fr.pending.append((sp.Not(cond), o2.value))
            return None
        self.unsupported("if-conversion case", s, fr)

    def _arm(self, stmts, f):
        try:
            return self.exec_block(stmts, f)
        except Raised as r:
            return Outcome("raise", exc=r.exc_name, where=r.msg)

    def exec_for(self, s, fr):
        it = self.eval(s.iter, fr)
        if isinstance(it, OpaqueV) and it.what == "nditer":
            for mi, x in it.payload["elems"]:
                it.payload["current"] = mi
                self.assign(s.target, x, fr)
                out = self.exec_block(s.body, fr)
                if out is not None:
                    if out.kind == "break":
                        return None
                    if out.kind == "continue":
                        continue
                    return out
            return self.exec_block(s.orelse, fr)
        items = self.iterate(it, fr, s)
        if len(items) > MAX_UNROLL:
            self.unsupported("loop too long to unroll", s, fr)
        for x in items:
            self.assign(s.target, x, fr)
            out = self.exec_block(s.body, fr)
            if out is not None:
                if out.kind == "break":
                    return None
                if out.kind == "continue":
                    continue
                return out
        return self.exec_block(s.orelse, fr)

    def exec_while(self, s, fr):
        n = 0
        while True:
            t = self.truth(self.eval(s.test, fr), fr, s)
            if t is False:
                return self.exec_block(s.orelse, fr)
            if t is not True:
                self.unsupported("while loop with undecided condition", s, fr)
            out = self.exec_block(s.body, fr)
            if out is not None:
                if out.kind == "break":
                    return None
                if out.kind != "continue":
                    return out
            n += 1
            if n > MAX_UNROLL:
                self.unsupported("while loop does not terminate within the unroll bound", s, fr)

    def exec_try(self, s, fr):
        try:
            out = self.exec_block(s.body, fr)
        except Raised as r:
            out = Outcome("raise", exc=r.exc_name, where=r.msg)
        except DimensionError as d:
            out = Outcome("raise", exc="UnitConversionError")
        if out is not None and out.kind == "raise":
            for h in s.handlers:
                names = _handler_names(h)
                if names is None or exc_matches(out.exc, names):
                    if h.name:
                        fr.env[h.name] = OpaqueV("exception", out.exc)
                    res = self.exec_block(h.body, fr)
                    if res is None and s.finalbody:
                        return self.exec_block(s.finalbody, fr)
                    return res
            return out
        if out is None:
            out = self.exec_block(s.orelse, fr)
        if s.finalbody:
            o2 = self.exec_block(s.finalbody, fr)
            if o2 is not None:
                return o2
        return out

    # --------------------------------------------------------------- assignment
    def assign(self, target, v, fr):
        if isinstance(target, ast.Name):
            fr.env[target.id] = v
        elif isinstance(target, (ast.Tuple, ast.List)):
            items = self.iterate(v, fr, target)
            star = [i for i, e in enumerate(target.elts) if isinstance(e, ast.Starred)]
            if star:
                i = star[0]
                n_after = len(target.elts) - i - 1
                if len(items) < len(target.elts) - 1:
                    raise Raised("ValueError", msg="not enough values to unpack")
                for t, x in zip(target.elts[:i], items[:i]):
                    self.assign(t, x, fr)
                self.assign(target.elts[i].value, ListV(items[i:len(items) - n_after]), fr)
                for t, x in zip(target.elts[i + 1:], items[len(items) - n_after:]):
                    self.assign(t, x, fr)
            else:
                if len(items) != len(target.elts):
                    raise Raised("ValueError", msg="unpack length mismatch")
                for t, x in zip(target.elts, items):
                    self.assign(t, x, fr)
        elif isinstance(target, ast.Attribute):
            obj = self.eval(target.value, fr)
            self.setattr(obj, target.attr, v, fr, target)
        elif isinstance(target, ast.Subscript):
            obj = self.eval(target.value, fr)
            idx = self.eval(target.slice, fr)
            self.setitem(obj, idx, v, fr, target)
        else:
            self.unsupported("assignment target", target, fr)

    def _rebind_aliases(self, fr, old, new):
        seen = set()

        def walk(c):
            if id(c) in seen:
                return
            seen.add(id(c))
            if isinstance(c, ObjV):
                for k, x in list(c.attrs.items()):
                    if x is old:
                        c.attrs[k] = new
                        self.trace.append(("inplace-alias", k, old, new))
                    else:
                        walk(x)
            elif isinstance(c, DictV):
                for k, x in list(c.d.items()):
                    if x is old:
                        c.d[k] = new
                    else:
                        walk(x)
            elif isinstance(c, (ListV, TupleV, self.ext.StackV)):
                for i, x in enumerate(list(c.items)):
                    if x is old:
                        c.items[i] = new
                        if isinstance(c, self.ext.StackV):
                            self.trace.append(("inplace-alias", "component of a stacked array", old, new))
                    else:
                        walk(x)
        for k, x in list(fr.env.items()):
            if x is old:
                fr.env[k] = new
            else:
                walk(x)

    def setattr(self, obj, name, v, fr, node=None):
        if isinstance(obj, ObjV):
            pr = obj.cls.find_property(name)
            if pr is not None:
                if pr["set"] is None:
                    raise Raised("AttributeError", msg=f"property {name} has no setter")
                self.call(pr["set"], [v], {}, self_val=obj, depth=fr.depth + 1)
                return
            obj.attrs[name] = v
            return
        if isinstance(obj, (FuncV, DispatchV, PyFuncV)):
            return    # func.__name__ = ... bookkeeping
        if isinstance(obj, self.ext.PolyV) and name in ("domain", "window"):
            items = v.items if isinstance(v, (self.ext.NdArr, TupleV, ListV)) else None
            if items is None or len(items) != 2 or not all(isinstance(i, Num) for i in items):
                self.unsupported("Polynomial domain/window assigned something other than two numbers", node, fr)
            if isinstance(obj, self.ext.DerivedPoly):
                self.unsupported("domain store on a derivative polynomial", node, fr)
            setattr(obj, name, (items[0].expr, items[1].expr))
            return
        if isinstance(obj, Num) and name == "imaginary":
            return
        if isinstance(obj, Num) and obj.kind == "time" and name in ("precision", "format"):
            return    # display attributes of a Time: no effect on the instant it denotes
        if isinstance(obj, BoundBuiltin) and obj.name == "flags" and name == "writeable":
            return    # write-protection flag: no effect on values
        self.unsupported(f"attribute store .{name} on {obj!r}", node, fr)

    def setitem(self, obj, idx, v, fr, node=None):
        if isinstance(obj, PhiV):
            self.setitem(obj.a, idx, v, fr, node)
            self.setitem(obj.b, idx, v, fr, node)
            return
        if isinstance(obj, DictV):
            obj.d[self.key(idx)] = v
            return
        if isinstance(obj, ListV):
            k = self.concrete_int(idx)
            if k is None:
                self.unsupported("list store with symbolic index", node, fr)
            if not -len(obj.items) <= k < len(obj.items):
                raise Raised("IndexError", node, "list assignment index out of range")
            obj.items[k] = v
            return
        if isinstance(obj, Num):
            # array element/slice store: record as an effect on the array term
            self.ext.array_store(self, obj, idx, v, fr, node)
            return
        if isinstance(obj, self.ext.NdArr):
            self.ext.nd_setitem(self, obj, idx, v, fr, node)
            return
        if isinstance(obj, OpaqueV) and obj.what == "recbuf" and isinstance(idx, StrV):
            buf = obj.payload
            if buf["names"] and idx.s not in buf["names"]:
                raise Raised("ValueError", node, f"no field of name {idx.s}")
            vs = tuple(v.shape) if isinstance(v, Num) and v.shape else ()
            ts = tuple(buf["shape"])
            ok = len(vs) <= len(ts)
            if ok:
                for a_, b_ in zip(reversed(vs), reversed(ts)):
                    if a_ != 1 and a_ != b_:
                        ok = False
            if not ok:
                raise Raised("ValueError", node, f"could not broadcast input array from shape {vs} into shape {ts}")
            buf["fields"][idx.s] = v
            return
        self.unsupported(f"subscript store on {obj!r}", node, fr)

    def key(self, v):
        if isinstance(v, StrV):
            return v.s
        if isinstance(v, Num) and v.expr.is_number:
            return int(v.expr) if v.expr.is_integer else float(v.expr)
        if isinstance(v, BoolV):
            return v.b
        if isinstance(v, NoneV):
            return None
        if isinstance(v, TupleV):
            return tuple(self.key(x) for x in v.items)
        if isinstance(v, ExtV):
            return ("ext", v.dotted)
        if isinstance(v, Num):
            return ("sym", str(v.expr))
        if isinstance(v, OpaqueV) and v.what == "bytes":
            return ("bytes", v.payload)
        raise Unsupported(f"unhashable/unsupported key {v!r}")

    def concrete_int(self, v):
        if isinstance(v, Num) and v.expr.is_number and v.expr.is_integer:
            return int(v.expr)
        if isinstance(v, BoolV):
            return int(v.b)
        return None

    # --------------------------------------------------------------- iteration
    def iterate(self, v, fr=None, node=None):
        if isinstance(v, (TupleV, ListV, SetV)):
            return list(v.items)
        if isinstance(v, DictV):
            return [self.unkey(k) for k in v.d]
        if isinstance(v, StrV):
            return [StrV(c) for c in v.s]
        if isinstance(v, OpaqueV) and v.what == "iter":
            return list(v.payload)
        if isinstance(v, self.ext.NdArr):
            if v.ndim == 1:
                return list(v.items)
            return [self.ext.nd_getitem(self, v, Num(i), fr, node) for i in range(v.shape[0])]
        if isinstance(v, Num) and v.shape is not None and len(v.shape) >= 1:
            n = v.shape[0]
            if n.is_number:
                return [self.ext.num_getitem(self, v, Num(i), fr, node) for i in range(int(n))]
        if isinstance(v, self.ext.StackV) and v.axis == 0:
            return list(v.items)        # the components themselves: views of the stacked array, not copies
        self.unsupported(f"iteration over {v!r}", node, fr)

    def unkey(self, k):
        if isinstance(k, str):
            return StrV(k)
        if isinstance(k, bool):
            return BoolV(k)
        if isinstance(k, (int, float)):
            return Num(sp.nsimplify(k))
        if k is None:
            return NONE
        if isinstance(k, tuple):
            return TupleV([self.unkey(x) for x in k])
        raise Unsupported(f"unkey {k!r}")

    # -------------------------------------------------------------- expressions
    def eval(self, e, fr) -> Val:
        m = getattr(self, "x_" + type(e).__name__, None)
        if m is None:
            self.unsupported(f"expression {type(e).__name__}", e, fr)
        return m(e, fr)

    def x_Constant(self, e, fr):
        v = e.value
        if v is None:
            return NONE
        if isinstance(v, bool):
            return BoolV(v)
        if isinstance(v, int):
            return Num(sp.Integer(v))
        if isinstance(v, float):
            if v != v or v in (float("inf"), float("-inf")):
                return Num(sp.nan if v != v else (sp.oo if v > 0 else -sp.oo), isfloat=True)
            return Num(sp.Rational(*self.ext.float_ratio(repr(v))), isfloat=True)      # the literal's exact decimal value
        if isinstance(v, complex):
            re_, im_ = sp.Rational(*self.ext.float_ratio(repr(v.real))), sp.Rational(*self.ext.float_ratio(repr(v.imag)))
            return Num(re_ + sp.I * im_)
        if isinstance(v, str):
            sv = StrV(v)
            sv.literal = True        # a compile-time constant: CPython shares one object between equal constants (see identical())
            return sv
        if v is Ellipsis:
            return ExtV("builtins.Ellipsis")
        self.unsupported("constant", e, fr)

    def x_Name(self, e, fr):
        return self.lookup_name(e.id, fr, e)

    def lookup_name(self, name, fr, node=None):
        f = fr
        while f is not None:
            if name in f.env:
                return f.env[name]
            f = f.closure
        return self.module_name(fr.mi, name, node, fr)

    def module_name(self, mi: ModuleInfo, name, node=None, fr=None):
        if name in mi.classes:
            return ClassV(mi.classes[name])
        if name in mi.functions:
            return FuncV(mi.functions[name])
        if name in mi.imports:
            return self.resolve_dotted(mi.imports[name])
        if name in mi.assigns:
            key = (mi.name, name)
            if key not in self.modcache:
                val = mi.assigns[name]
                if val is None:
                    self.unsupported(f"module-level name {name}", node, fr)
                self.modcache[key] = self.eval(val, Frame(self, None, mi, {}, 0))
            return self.modcache[key]
        star = self.prog._star_lookup(mi, name)
        if star:
            return self.resolve_dotted(star)
        if name in self.ext.BUILTINS:
            return ExtV("builtins." + name)
        self.unsupported(f"unknown name {name}", node, fr)

    def resolve_dotted(self, dotted):
        tgt = self.prog.lookup(dotted)
        if isinstance(tgt, ClassInfo):
            return ClassV(tgt)
        if isinstance(tgt, FunctionInfo):
            return FuncV(tgt)
        if isinstance(tgt, ModuleInfo):
            return ExtV(tgt.name)
        if isinstance(tgt, tuple) and tgt[0] == "assign":
            return self.module_name(tgt[1], tgt[2])
        return self.ext.constant(self, dotted)

    def x_NamedExpr(self, e, fr):
        v = self.eval(e.value, fr)
        fr.env[e.target.id] = v
        return v

    def x_Tuple(self, e, fr):
        out = []
        for x in e.elts:
            if isinstance(x, ast.Starred):
                out.extend(self.iterate(self.eval(x.value, fr), fr, x))
            else:
                out.append(self.eval(x, fr))
        return TupleV(out)

    def x_List(self, e, fr):
        return ListV(self.x_Tuple(e, fr).items)

    def x_Set(self, e, fr):
        return SetV(self.x_Tuple(e, fr).items)

    def x_Dict(self, e, fr):
        d = DictV()
        for k, v in zip(e.keys, e.values):
            if k is None:
                src = self.eval(v, fr)
                if not isinstance(src, DictV):
                    self.unsupported("** of non-dict", e, fr)
                d.d.update(src.d)
            else:
                d.d[self.key(self.eval(k, fr))] = self.eval(v, fr)
        return d

    def x_JoinedStr(self, e, fr):
        return StrV("<fstring>")

    def _definition_time_defaults(self, sub, fr):
        """Default values of a nested function / lambda are evaluated once, where it is defined (lambda f=f: ... binds the
        current f), not when it is called."""
        try:
            sub._eval_defaults = {k: self.eval(v, fr) for k, v in sub.defaults().items()}
        except Unsupported:
            sub._eval_defaults = None

    def x_Lambda(self, e, fr):
        sub = FunctionInfo(fr.fi.module if fr.fi else fr.mi.name, "<lambda>", e, None, "lambda")
        self._definition_time_defaults(sub, fr)
        return FuncV(sub, closure=fr)

    def x_IfExp(self, e, fr):
        t = self.truth(self.eval(e.test, fr), fr, e)
        if t is True:
            return self.eval(e.body, fr)
        if t is False:
            return self.eval(e.orelse, fr)
        return self.ite(t, self.eval(e.body, fr), self.eval(e.orelse, fr))

    def x_Slice(self, e, fr):
        g = lambda x: NONE if x is None else self.eval(x, fr)  # noqa: E731
        return SliceV(g(e.lower), g(e.upper), g(e.step))

    def x_Starred(self, e, fr):
        return self.eval(e.value, fr)

    def x_UnaryOp(self, e, fr):
        v = self.eval(e.operand, fr)
        if isinstance(e.op, ast.Not):
            t = self.truth(v, fr, e)
            if t is True or t is False:
                return BoolV(not t)
            return CondV(sp.Not(t))
        if isinstance(v, BoolV):
            v = Num(int(v.b))
        if isinstance(v, Num):
            if isinstance(e.op, ast.USub):
                return v.like(-v.expr, unit=v.unit)
            if isinstance(e.op, ast.UAdd):
                return v
            if isinstance(e.op, ast.Invert):
                if v.kind == "bool" or is_bool_expr(v.expr):
                    return Num(sp.Not(v.expr), kind="bool", shape=v.shape, axes=v.axes)
                return v.like(-v.expr - 1)
        if isinstance(v, CondV) and isinstance(e.op, ast.Invert):
            return CondV(sp.Not(v.expr))
        self.unsupported("unary op", e, fr)

    def x_BoolOp(self, e, fr):
        is_and = isinstance(e.op, ast.And)
        pend = []          # (truth expr, value) of undecided earlier operands
        result = None
        for i, x in enumerate(e.values):
            v = self.eval(x, fr)
            last = i == len(e.values) - 1
            if last:
                result = v
                break
            t = self.truth(v, fr, e)
            if t is True:
                if not is_and:
                    result = v
                    break
                continue
            if t is False:
                if is_and:
                    result = v
                    break
                continue
            pend.append((t, v))
        if not pend:
            return result
        # undecided operands: boolean algebra when everything is truth-like, value-ITE otherwise
        tr = self.truth(result, fr, e) if isinstance(result, (CondV, BoolV, Num, NoneV)) else None
        if isinstance(result, (CondV, BoolV)):
            conds = [t for t, _ in pend]
            if tr is True:
                return CondV(sp.And(*conds)) if is_and else BoolV(True)
            if tr is False:
                return BoolV(False) if is_and else CondV(sp.Or(*conds))
            return CondV(sp.And(*conds, tr) if is_and else sp.Or(*conds, tr))
        for t, v in reversed(pend):
            result = self.ite(t, result, v) if is_and else self.ite(t, v, result)
        return result

    def x_Compare(self, e, fr):
        left = self.eval(e.left, fr)
        res = []
        for op, c in zip(e.ops, e.comparators):
            right = self.eval(c, fr)
            r = self.compare(op, left, right, e, fr)
            res.append(r)
            left = right
        if len(res) == 1:
            return res[0]
        out = res[0]
        for r in res[1:]:
            out = self.and_(out, r, fr)
        return out

    def and_(self, a, b, fr):
        ta, tb = self.truth(a, fr), self.truth(b, fr)
        if ta is False or tb is False:
            return BoolV(False)
        if ta is True:
            return b
        if tb is True:
            return a
        return CondV(sp.And(ta, tb))

    def compare(self, op, a, b, node, fr):
        if isinstance(op, (ast.Is, ast.IsNot)):
            r = self.identical(a, b)
            if r is None:
                self.unsupported("identity test on symbolic values", node, fr)
            return BoolV(r if isinstance(op, ast.Is) else not r)
        if isinstance(op, (ast.In, ast.NotIn)):
            r = self.contains(b, a, node, fr)
            if isinstance(r, bool):
                return BoolV(r if isinstance(op, ast.In) else not r)
            return CondV(r if isinstance(op, ast.In) else sp.Not(r))
        if any(isinstance(v_, Num) and v_.expr is sp.nan for v_ in (a, b)) and isinstance(op, (ast.Lt, ast.LtE, ast.Gt, ast.GtE, ast.Eq, ast.NotEq)):
            return BoolV(isinstance(op, ast.NotEq))          # IEEE: every ordered comparison with NaN is False, != is True
        if isinstance(a, self.ext.NdArr) or isinstance(b, self.ext.NdArr):
            other = b if isinstance(a, self.ext.NdArr) else a
            if isinstance(other, self.ext.NdArr) or (isinstance(other, Num) and other.shape and self.ext.nd_materialize(other) is not None):
                shape, pairs = self.ext.nd_pairs(self, a, b, node, fr)
                return self.ext.NdArr(shape, [self.compare(op, p_, q, node, fr) for p_, q in pairs])
            arr, flip = (a, False) if isinstance(a, self.ext.NdArr) else (b, True)
            pairs = [(x_, other) for x_ in arr.items]
            out = [self.compare(op, (q if flip else p_), (p_ if flip else q), node, fr) for p_, q in pairs]
            return self.ext.NdArr(arr.shape, out)
        if isinstance(a, BoolV):
            a = Num(int(a.b))
        if isinstance(b, BoolV):
            b = Num(int(b.b))
        if isinstance(a, Num) and isinstance(b, Num):
            x, y = a.expr, b.expr
            if x is sp.nan or y is sp.nan:
                return BoolV(isinstance(op, ast.NotEq))     # IEEE: every ordered comparison with NaN is false
            if isinstance(op, (ast.Lt, ast.LtE, ast.Gt, ast.GtE)):
                # astropy refuses to order a dimensional Quantity against a bare number (other than 0, inf, nan) or against a
                # Quantity of another dimension
                try:
                    da_, db_ = self.ext.dim_of(sp.sympify(x)), self.ext.dim_of(sp.sympify(y))
                except Exception:
                    da_ = db_ = None
                if da_ is not None and db_ is not None and da_ != db_:
                    bare = y if not db_ else x if not da_ else None
                    if bare is None or not (bare == 0 or bare in (sp.oo, -sp.oo, sp.nan)):
                        raise Raised("UnitConversionError", node, f"ordering comparison between dimension {da_ or 'dimensionless'} and {db_ or 'dimensionless'}")
            rel = {ast.Eq: sp.Eq, ast.NotEq: sp.Ne, ast.Lt: sp.Lt, ast.LtE: sp.Le, ast.Gt: sp.Gt, ast.GtE: sp.Ge}[type(op)]
            try:
                r = rel(x, y)
            except TypeError:
                r = sp.Function("Rel" + type(op).__name__)(x, y)
                return CondV(sp.Ne(r, 0))
            if r is sp.true:
                return BoolV(True)
            if r is sp.false:
                return BoolV(False)
            shape = a.shape if a.shape is not None else b.shape
            if shape:
                return Num(r, kind="bool", shape=shape, axes=a.axes if a.shape is not None else b.axes)
            return CondV(r)
        if isinstance(op, (ast.Eq, ast.NotEq)):
            for u_, v_ in ((a, b), (b, a)):
                if isinstance(u_, OpaqueV) and u_.what in ("timeformat", "timescale") and isinstance(v_, StrV):
                    c_ = sp.Symbol(f"{u_.what}_is_{v_.s}")
                    return CondV(c_ if isinstance(op, ast.Eq) else sp.Not(c_))
                if isinstance(u_, OpaqueV) and u_.what == "timeprecision" and isinstance(v_, Num) and v_.expr.is_number:
                    c_ = sp.Symbol(f"timeprecision_is_{v_.expr}")
                    return CondV(c_ if isinstance(op, ast.Eq) else sp.Not(c_))
            eq = self.equal_vals(a, b)
            if eq is None and isinstance(a, TupleV) and isinstance(b, TupleV) and len(a.items) == len(b.items) \
                    and all(isinstance(x_, Num) and not x_.shape for x_ in list(a.items) + list(b.items)):
                # tuples of scalars (shapes): equal iff every pair is; an undecided pair (3 == N) makes the verdict a condition
                conds = []
                for x_, y_ in zip(a.items, b.items):
                    c_ = self.compare(ast.Eq(), x_, y_, node, fr)
                    if isinstance(c_, BoolV):
                        if not c_.b:
                            return BoolV(isinstance(op, ast.NotEq))
                    elif isinstance(c_, CondV):
                        conds.append(c_.expr)
                    else:
                        conds = None
                        break
                if conds is not None:
                    if not conds:
                        return BoolV(isinstance(op, ast.Eq))
                    e_ = sp.And(*conds)
                    return CondV(e_ if isinstance(op, ast.Eq) else sp.Not(e_))
            if eq is None:
                self.unsupported(f"== between {a!r} and {b!r}", node, fr)
            return BoolV(eq if isinstance(op, ast.Eq) else not eq)
        self.unsupported(f"comparison between {a!r} and {b!r}", node, fr)

    def identical(self, a, b):
        if isinstance(a, NoneV) or isinstance(b, NoneV):
            return isinstance(a, NoneV) and isinstance(b, NoneV)
        if isinstance(a, BoolV) and isinstance(b, BoolV):
            # True / False are singletons, and so are numpy.True_ / numpy.False_ -- but numpy.True_ is not True
            return a.b == b.b and bool(getattr(a, "np", False)) == bool(getattr(b, "np", False))
        if isinstance(a, BoolV) or isinstance(b, BoolV):
            return False
        if isinstance(a, ClassV) and isinstance(b, ClassV):
            return a.ci is b.ci
        if isinstance(a, ExtV) and isinstance(b, ExtV):
            na = "numpy." + a.dotted.split(":")[1] if a.dotted.startswith("ufunc:") else a.dotted
            nb = "numpy." + b.dotted.split(":")[1] if b.dotted.startswith("ufunc:") else b.dotted
            return na == nb
        if isinstance(a, ExtV) or isinstance(b, ExtV):
            other = b if isinstance(a, ExtV) else a
            if isinstance(other, (ClassV, StrV, TupleV, DictV, ListV, ObjV, Num)):
                return False
            if isinstance(other, OpaqueV) and other.what == "default":
                return False      # a parameter's default value is never the `empty` sentinel
        if isinstance(a, ClassV) or isinstance(b, ClassV):
            return False
        if (isinstance(a, OpaqueV) and a.what == "object") or (isinstance(b, OpaqueV) and b.what == "object"):
            return a is b            # a sentinel made by object() is identical to itself and to nothing else
        if isinstance(a, StrV) and isinstance(b, StrV):
            if a.s != b.s:
                return False
            if a is b or (getattr(a, "literal", False) and getattr(b, "literal", False)):
                return True
            # equal text, but at least one of the two was made by the caller at run time (read from a header, joined, decoded):
            # nothing makes it the same object as a constant of the package -- `is` then answers False
            self.trace.append(("string-identity", a.s))
            return False
        if a is b:
            return True
        if isinstance(a, SigParamV) or isinstance(b, SigParamV):
            return a is b
        if isinstance(a, ObjV) != isinstance(b, ObjV):
            return False          # an object is never identical to a number / container
        if isinstance(a, (BoundBuiltin, FuncV, PyFuncV)) != isinstance(b, (BoundBuiltin, FuncV, PyFuncV)):
            return False          # a bound method / function is never identical to a value of another kind
        if isinstance(a, ObjV) and isinstance(b, ObjV):
            return False          # distinct abstract objects (a is b was handled above)
        return None

    def equal_vals(self, a, b):
        if isinstance(a, StrV) and isinstance(b, StrV):
            return a.s == b.s
        if isinstance(a, NoneV) or isinstance(b, NoneV):
            return isinstance(a, NoneV) and isinstance(b, NoneV)
        if isinstance(a, (TupleV, ListV)) and isinstance(b, (TupleV, ListV)):
            if type(a) is not type(b):
                return False
            if len(a.items) != len(b.items):
                return False
            rs = [self.equal_vals(x, y) if not (isinstance(x, Num) and isinstance(y, Num))
                  else (True if sp.simplify(x.expr - y.expr) == 0 else (False if (x.expr - y.expr).is_number else None))
                  for x, y in zip(a.items, b.items)]
            if any(r is False for r in rs):
                return False
            if any(r is None for r in rs):
                return None
            return True
        if isinstance(a, StrV) or isinstance(b, StrV):
            if isinstance(a, (Num, NoneV, BoolV, TupleV, ListV, DictV)) or isinstance(b, (Num, NoneV, BoolV, TupleV, ListV, DictV)):
                return False
        if isinstance(a, ExtV) and isinstance(b, ExtV):
            na = "numpy." + a.dotted.split(":")[1] if a.dotted.startswith("ufunc:") else a.dotted
            nb = "numpy." + b.dotted.split(":")[1] if b.dotted.startswith("ufunc:") else b.dotted
            return na == nb
        if isinstance(a, ClassV) and isinstance(b, ClassV):
            return a.ci is b.ci
        if isinstance(a, BoolV) and isinstance(b, BoolV):
            return a.b == b.b
        if isinstance(a, SliceV) and isinstance(b, SliceV):
            # slice(a, b, c) == slice(a', b', c') compares the three fields
            return self.equal_vals(TupleV([a.start, a.stop, a.step]), TupleV([b.start, b.stop, b.step]))
        if isinstance(a, SliceV) != isinstance(b, SliceV) and isinstance(a if not isinstance(a, SliceV) else b, (Num, StrV, NoneV, BoolV, TupleV, ListV)):
            return False
        return None

    def contains(self, container, item, node, fr):
        if isinstance(item, PhiV):
            a_, b_ = self.contains(container, item.a, node, fr), self.contains(container, item.b, node, fr)
            if a_ is True and b_ is True:
                return True
            if a_ is False and b_ is False:
                return False
            ta = sp.true if a_ is True else sp.false if a_ is False else a_
            tb = sp.true if b_ is True else sp.false if b_ is False else b_
            return sp.Or(sp.And(item.cond, ta), sp.And(sp.Not(item.cond), tb))
        if isinstance(container, DictV):
            return self.key(item) in container.d
        if isinstance(container, (TupleV, ListV, SetV)):
            undecided = []
            for x in container.items:
                if isinstance(x, Num) and isinstance(item, Num):
                    d = sp.simplify(x.expr - item.expr)
                    if d == 0:
                        return True
                    if not d.is_number:
                        undecided.append(sp.Eq(x.expr, item.expr))
                    continue
                eq = self.equal_vals(x, item)
                if eq is True:
                    return True
                if eq is None:
                    if isinstance(item, (ListV, DictV)) and isinstance(container, SetV):
                        raise Raised("TypeError", msg="unhashable in set membership")
                    self.unsupported("membership with symbolic equality", node, fr)
            if undecided:
                return sp.Or(*undecided)
            if isinstance(item, (ListV, DictV)) and isinstance(container, SetV):
                raise Raised("TypeError", msg="unhashable in set membership")
            return False
        if isinstance(container, StrV) and isinstance(item, StrV):
            return item.s in container.s
        self.unsupported(f"membership in {container!r}", node, fr)

    def x_BinOp(self, e, fr):
        return self.binop(e.op, self.eval(e.left, fr), self.eval(e.right, fr), e, fr)

    def binop(self, op, a, b, node, fr):
        return self.ext.binop(self, op, a, b, node, fr)

    def x_Yield(self, e, fr):
        f = fr
        if not hasattr(f, "yielded"):
            self.unsupported("yield outside a generator function the evaluator entered", e, fr)
        f.yielded.append(self.eval(e.value, fr) if e.value is not None else NONE)
        return NONE

    def x_YieldFrom(self, e, fr):
        if not hasattr(fr, "yielded"):
            self.unsupported("yield from outside a generator function the evaluator entered", e, fr)
        fr.yielded.extend(self.iterate(self.eval(e.value, fr), fr, e))
        return NONE

    def x_Attribute(self, e, fr):
        obj = self.eval(e.value, fr)
        return self.getattr(obj, e.attr, fr, e)

    def getattr(self, obj, name, fr, node=None):
        if isinstance(obj, PhiV):
            return self.ite(obj.cond, self.getattr(obj.a, name, fr, node), self.getattr(obj.b, name, fr, node))
        if isinstance(obj, ObjV):
            if name in obj.attrs:
                return obj.attrs[name]
            if name == "__dict__":
                d = DictV()
                d.d = obj.attrs          # live view: pop / item stores act on the instance
                return d
            if name == "view" and "_recbuf" in obj.attrs:
                buf = obj.attrs["_recbuf"]
                return PyFuncV(lambda ev, a, k, fr, node: buf if (a and isinstance(a[0], ExtV) and a[0].dotted == "numpy.ndarray")
                               else ev.unsupported("view of a record-array object as another class", node, fr), "recview.view")
            return self.class_attr(obj.cls, name, obj, fr, node)
        if isinstance(obj, ClassV):
            if name == "__name__":
                return StrV(obj.ci.name)
            return self.class_attr(obj.ci, name, None, fr, node, cls_val=obj)
        if isinstance(obj, ExtV):
            return self.ext.ext_getattr(self, obj, name, fr, node)
        if isinstance(obj, self.ext.SuperV):
            return self.ext.super_getattr(self, obj, name, fr, node)
        if isinstance(obj, self.ext.StackV):
            if name in ("real", "imag"):
                return obj.map(lambda x: self.getattr(x, name, fr, node))
            if name == "dtype":
                return getattr(obj, "dtype", None) or ExtV("numpy.dtype:unknown")
            if name in ("shape", "ndim"):
                shp = getattr(obj, "shape", None)
                if shp is None:
                    self.unsupported("shape of a stacked array", node, fr)
                return TupleV([Num(x) for x in shp]) if name == "shape" else Num(len(shp))
            return BoundBuiltin(obj, name)
        if isinstance(obj, Num) and obj.cls is not None:
            m = obj.cls.find_method(name)
            if m is not None:
                return FuncV(m, bound=obj)
            pr = obj.cls.find_property(name)
            if pr is not None and pr["get"] is not None:
                return self.call(pr["get"], [], {}, self_val=obj, depth=fr.depth + 1)
            a, owner = obj.cls.find_class_attr(name)
            if a is not None:
                return self.class_const(owner, name, a)
        return self.ext.val_getattr(self, obj, name, fr, node)

    def class_attr(self, ci, name, inst, fr, node, cls_val=None):
        pr = ci.find_property(name)
        if pr is not None and pr["get"] is not None:
            if inst is None:
                return OpaqueV("property", pr)
            v = self.call(pr["get"], [], {}, self_val=inst, depth=fr.depth + 1)
            if is_cached_property(pr["get"]) and isinstance(inst, ObjV):
                inst.attrs[name] = v          # kept in the instance dict: later reads do not recompute
            return v
        m = ci.find_method(name)
        if m is not None:
            if m.kind == "classmethod":
                return FuncV(m, bound_cls=cls_val or ClassV(inst.cls if inst is not None else ci))
            if m.kind == "staticmethod" or inst is None:
                return FuncV(m)
            return FuncV(m, bound=inst)
        a, owner = ci.find_class_attr(name)
        if a is not None:
            return self.class_const(owner, name, a)
        if name == "__class__" and inst is not None:
            return ClassV(inst.cls)
        if name == "__name__":
            return StrV(ci.name)
        if name.startswith("__") and name.endswith("__"):
            # object-protocol attributes the model does not represent: a gap of the analyser, not an AttributeError of the code
            self.unsupported(f"object-protocol attribute {name} of {ci.name}", node, fr)
        if ci.ext_base_names() and not ci.is_subclass_of("Signal") and not ci.is_subclass_of("BaseReader"):
            self.unsupported(f"attribute {name} of {ci.name} may be inherited from an external base class", node, fr)
        raise Raised("AttributeError", node, f"{ci.name} has no attribute {name}")

    def class_const(self, owner, name, valnode):
        key = (owner.module, owner.name, name)
        if key not in self.modcache:
            mi = self.prog.modules[owner.module]
            self.modcache[key] = self.eval(valnode, Frame(self, None, mi, {}, 0))
        return self.modcache[key]

    def has_attr(self, obj, name):
        if isinstance(obj, ObjV):
            if name in obj.attrs:
                return True
            ci = obj.cls
            return bool(ci.find_property(name) or ci.find_method(name) or ci.find_class_attr(name)[0] is not None)
        raise Unsupported(f"hasattr on {obj!r}")

    def x_Subscript(self, e, fr):
        obj = self.eval(e.value, fr)
        idx = self.eval(e.slice, fr)
        return self.getitem(obj, idx, fr, e)

    def getitem(self, obj, idx, fr, node=None):
        if isinstance(obj, PhiV):
            return self.ite(obj.cond, self.getitem(obj.a, idx, fr, node), self.getitem(obj.b, idx, fr, node))
        if isinstance(obj, DictV):
            k = self.key(idx)
            if k not in obj.d:
                raise Raised("KeyError", node, f"key {k!r}")
            return obj.d[k]
        if isinstance(obj, (TupleV, ListV)):
            if isinstance(idx, SliceV):
                lo, hi, st = (self.concrete_int(x) if not isinstance(x, NoneV) else None for x in (idx.start, idx.stop, idx.step))
                for raw, val in ((idx.start, lo), (idx.stop, hi), (idx.step, st)):
                    if not isinstance(raw, NoneV) and val is None:
                        self.unsupported("sequence slice with symbolic bound", node, fr)
                items = obj.items[slice(lo, hi, st)]
                return TupleV(items) if isinstance(obj, TupleV) else ListV(items)
            k = self.concrete_int(idx)
            if k is None:
                self.unsupported("sequence index not concrete", node, fr)
            try:
                return obj.items[k]
            except IndexError:
                raise Raised("IndexError", node)
        if isinstance(obj, StrV):
            if isinstance(idx, SliceV):
                g = lambda x: None if isinstance(x, NoneV) else self.concrete_int(x)  # noqa: E731
                return StrV(obj.s[slice(g(idx.start), g(idx.stop), g(idx.step))])
            k = self.concrete_int(idx)
            return StrV(obj.s[k])
        if isinstance(obj, ObjV) and isinstance(obj.attrs.get("__getitem__"), PyFuncV):
            return obj.attrs["__getitem__"].fn(self, [idx], {}, fr, node)
        if isinstance(obj, ObjV):
            m = obj.cls.find_method("__getitem__")
            if m is None:
                raise Raised("TypeError", node, "object is not subscriptable")
            if obj.cls.is_subclass_of("Signal") and fr is not None and fr.fi is not None:
                self.signal_slices.append((fr.fi, node, idx, list(fr.facts)))
            return self.apply(FuncV(m, bound=obj), [idx], {}, fr if fr is not None and fr.ev is not None else Frame(self, None, None, {}, 0), node)
        if isinstance(obj, ExtV):
            return self.ext.ext_getitem(self, obj, idx, fr, node)
        if isinstance(obj, OpaqueV) and obj.what == "array0d" and isinstance(idx, TupleV) and not idx.items:
            return obj.payload
        if isinstance(obj, Num):
            # a crop of sample data done on the array instead of on the signal (data[a:b] handed to like()): the bounds are
            # subject to the same sign rule as signal-level slice bounds
            first = idx.items[0] if isinstance(idx, TupleV) and idx.items else idx
            if obj.shape and obj.kind != "time" and isinstance(first, SliceV) and fr is not None and fr.fi is not None and fr.fi.cls is None \
                    and any(isinstance(b_, Num) and not b_.expr.is_number for b_ in (first.start, first.stop)):
                self.signal_slices.append((fr.fi, node, idx, list(fr.facts)))
            return self.ext.num_getitem(self, obj, idx, fr, node)
        if isinstance(obj, self.ext.NdArr):
            return self.ext.nd_getitem(self, obj, idx, fr, node)
        if isinstance(obj, self.ext.StackV):
            return self.ext.stack_getitem(self, obj, idx, fr, node)
        self.unsupported(f"subscript of {obj!r}", node, fr)

    def _comp(self, e, fr, build):
        out = []
        inner = Frame(self, fr.fi, fr.mi, {}, fr.depth, closure=fr)
        inner.facts = fr.facts

        def rec(gi):
            if gi == len(e.generators):
                out.append(build(inner))
                return
            g = e.generators[gi]
            for x in self.iterate(self.eval(g.iter, inner), inner, e):
                self.assign(g.target, x, inner)
                ok = True
                for c in g.ifs:
                    t = self.truth(self.eval(c, inner), inner, c)
                    if t is False:
                        ok = False
                        break
                    if t is not True:
                        self.unsupported("comprehension filter undecided", c, fr)
                if ok:
                    rec(gi + 1)
        rec(0)
        return out

    def x_ListComp(self, e, fr):
        return ListV(self._comp(e, fr, lambda f: self.eval(e.elt, f)))

    def x_GeneratorExp(self, e, fr):
        return OpaqueV("iter", self._comp(e, fr, lambda f: self.eval(e.elt, f)))

    def x_SetComp(self, e, fr):
        return SetV(self._comp(e, fr, lambda f: self.eval(e.elt, f)))

    def x_DictComp(self, e, fr):
        d = DictV()
        for k, v in self._comp(e, fr, lambda f: (self.eval(e.key, f), self.eval(e.value, f))):
            d.d[self.key(k)] = v
        return d

    # -------------------------------------------------------------------- calls
    def x_Call(self, e, fr):
        fn = self.eval(e.func, fr)
        args = []
        for a in e.args:
            if isinstance(a, ast.Starred):
                args.extend(self.iterate(self.eval(a.value, fr), fr, a))
            else:
                args.append(self.eval(a, fr))
        kwargs = {}
        for k in e.keywords:
            v = self.eval(k.value, fr)
            if k.arg is None:
                if isinstance(v, DictV):
                    for kk, vv in v.d.items():
                        if not isinstance(kk, str):
                            self.unsupported("** with non-string key", e, fr)
                        kwargs[kk] = vv
                else:
                    self.unsupported("** of non-dict value", e, fr)
            else:
                kwargs[k.arg] = v
        return self.apply(fn, args, kwargs, fr, e)

    def apply(self, fn, args, kwargs, fr, node=None):
        if isinstance(fn, PhiV):
            return self.ite(fn.cond, self.apply(fn.a, args, kwargs, fr, node), self.apply(fn.b, args, kwargs, fr, node))
        if isinstance(fn, FuncV):
            dotted = f"{fn.fi.module}.{fn.fi.qualname}"
            if dotted in self.overrides:
                return self.overrides[dotted](self, args, kwargs, node, fr, fn)
            if any(d.startswith("lru_cache") or d.startswith("functools.lru_cache") for d in fn.fi.decorators):
                if dotted not in self.overrides:
                    pass
            return self.call(fn.fi, args, kwargs, self_val=fn.bound, depth=fr.depth + 1,
                             closure=fn.closure, cls_val=fn.bound_cls)
        if isinstance(fn, ClassV):
            return self.construct(fn.ci, args, kwargs, fr, node)
        if isinstance(fn, ExtV):
            if fn.dotted in self.overrides:
                return self.overrides[fn.dotted](self, args, kwargs, node, fr, fn)
            return self.ext.call_ext(self, fn, args, kwargs, fr, node)
        if isinstance(fn, BoundBuiltin):
            return self.ext.call_method(self, fn.recv, fn.name, args, kwargs, fr, node)
        if isinstance(fn, PyFuncV):
            return fn.fn(self, args, kwargs, fr, node)
        if isinstance(fn, DispatchV):
            first = args[0] if args else None
            key = None
            if isinstance(first, Num) and first.backend == "dask" or getattr(first, "backend", None) == "dask":
                key = "dask.array.Array"
            impl = fn.registry.get(key, fn.default) if key else fn.default
            return self.apply(impl, args, kwargs, fr, node)
        if isinstance(fn, self.ext.PolyV):
            x = args[0]
            if isinstance(x, self.ext.NdArr):
                return x.map(lambda e_: Num(fn.expr(e_.expr), kind="number", isfloat=True))
            return Num(fn.expr(x.expr), kind="number", shape=getattr(x, "shape", None), isfloat=True)
        if isinstance(fn, OpaqueV):
            if fn.what == "delayed":
                res = self.apply(fn.payload["func"], args, kwargs, fr, node)
                return OpaqueV("delayed-call", {"func": fn.payload["func"], "args": args, "kwargs": kwargs,
                                                "result": res, "delayed_kwargs": fn.payload["kwargs"]})
            if fn.what == "decorator":
                return args[0]
        self.unsupported(f"call of {fn!r}", node, fr)

    def construct(self, ci: ClassInfo, args, kwargs, fr, node=None):
        dotted = f"{ci.module}.{ci.name}"
        if dotted in self.overrides:
            return self.overrides[dotted](self, args, kwargs, node, fr, ci)
        if any(b.startswith("astropy") or b.startswith("numpy") for b in ci.ext_base_names()) \
                and not ci.is_subclass_of("Signal"):
            return self.ext.construct_ext_subclass(self, ci, args, kwargs, fr, node)
        obj = ObjV(ci, {})
        init = ci.init()
        if init is not None:
            self.call(init, args, kwargs, self_val=obj, depth=fr.depth + 1)
        elif any(norm(d).split("(")[0].endswith("dataclass") for d in ci.node.decorator_list):
            fields = [s_.target.id for s_ in ci.node.body if isinstance(s_, ast.AnnAssign) and isinstance(s_.target, ast.Name)]
            for name, v in zip(fields, args):
                obj.attrs[name] = v
            for k, v in kwargs.items():
                if k not in fields:
                    raise Raised("TypeError", node, f"unexpected field {k}")
                obj.attrs[k] = v
            missing = [f_ for f_ in fields if f_ not in obj.attrs]
            if missing:
                raise Raised("TypeError", node, f"missing fields {missing}")
        return obj


def _ov_prev_fast(ev, args, kwargs, node, fr, fn):
    n = args[0].expr
    if n.is_number and n <= 10:
        return Num(n)
    return Num(F["PrevFast"](n))


def _ov_next_fast(ev, args, kwargs, node, fr, fn):
    n = args[0].expr
    if n.is_number and n <= 10:
        return Num(n)
    return Num(F["NextFast"](n))


DEFAULT_OVERRIDES = {
    "pulsarbat.utils.prev_fast_len": _ov_prev_fast,   # search loop over all N: C18, not interpreted
    "pulsarbat.utils.next_fast_len": _ov_next_fast,
}


class PhiV(Val):
    """Join of two non-numeric values under an undecided condition."""
    def __init__(self, cond, a, b):
        self.cond, self.a, self.b = cond, a, b

    def __repr__(self):
        return f"PhiV({self.cond}, {self.a!r}, {self.b!r})"


def _load(t):
    import copy
    t2 = copy.copy(t)
    t2.ctx = ast.Load()
    return t2


def _handler_names(h):
    if h.type is None:
        return None
    if isinstance(h.type, ast.Tuple):
        return [_n(x) for x in h.type.elts]
    return [_n(h.type)]


def _n(x):
    if isinstance(x, ast.Name):
        return x.id
    if isinstance(x, ast.Attribute):
        return x.attr
    return "?"
