"""Abstract values of the term evaluator (E4)."""
from __future__ import annotations

import sympy as sp


class Unsupported(Exception):
    """Construct outside the evaluator's vocabulary (-> inconclusive, never a violation)."""


class DimensionError(Exception):
    """A unit conversion in the analysed code cannot succeed (astropy would raise)."""


class Val:
    pass


class Num(Val):
    """A number / Quantity / Time / array as a sympy term.

    kind  : 'number' | 'quantity' | 'time' | 'array' | 'bool'
    shape : tuple of sympy exprs or None (scalar or unknown)
    axes  : tuple (same length as shape) of index Symbols or None per axis
    unit  : sympy expr of the unit the quantity is currently *represented* in (None = unknown)
    cls   : ClassInfo when the value is an instance of a repo Quantity subclass (DispersionMeasure)
    backend: 'numpy' | 'dask' | None for data arrays
    """
    __slots__ = ("expr", "kind", "shape", "axes", "unit", "cls", "backend", "tag", "dtype", "isfloat", "base")

    def __init__(self, expr, kind="number", shape=None, axes=None, unit=None, cls=None, backend=None,
                 tag=None, dtype=None, isfloat=False):
        self.isfloat = isfloat
        self.base = None          # the array this one is a VIEW of (reshape / swapaxes / basic slice / .real ...), if any
        self.expr = sp.sympify(expr)
        self.kind = kind
        self.shape = tuple(shape) if shape is not None else None
        self.axes = tuple(axes) if axes is not None else (tuple([None] * len(self.shape)) if self.shape is not None else None)
        self.unit = unit
        self.cls = cls
        self.backend = backend
        self.tag = tag
        self.dtype = dtype

    def like(self, expr, **kw):
        d = dict(kind=self.kind, shape=self.shape, axes=self.axes, unit=None, cls=None,
                 backend=self.backend, tag=None, dtype=self.dtype, isfloat=self.isfloat)
        d.update(kw)
        return Num(expr, **d)

    def __repr__(self):
        s = f"Num({self.expr}"
        if self.kind != "number":
            s += f", {self.kind}"
        if self.shape is not None:
            s += f", shape={self.shape}"
        return s + ")"


class StrV(Val):
    def __init__(self, s):
        self.s = s

    def __repr__(self):
        return f"StrV({self.s!r})"


class NoneV(Val):
    _inst = None

    def __new__(cls):
        if cls._inst is None:
            cls._inst = super().__new__(cls)
        return cls._inst

    def __repr__(self):
        return "NoneV"


NONE = NoneV()


class BoolV(Val):
    def __init__(self, b):
        self.b = bool(b)

    def __repr__(self):
        return f"BoolV({self.b})"


class CondV(Val):
    """Symbolic truth value (sympy Boolean / relational or opaque predicate)."""
    def __init__(self, expr):
        self.expr = expr

    def __repr__(self):
        return f"CondV({self.expr})"


class TupleV(Val):
    def __init__(self, items):
        self.items = list(items)

    def __repr__(self):
        return f"TupleV({self.items})"


class ListV(Val):
    def __init__(self, items):
        self.items = list(items)

    def __repr__(self):
        return f"ListV({self.items})"


class DictV(Val):
    def __init__(self, d=None):
        self.d = dict(d or {})     # python key (str/int/tuple) -> Val

    def __repr__(self):
        return f"DictV({self.d})"


class SetV(Val):
    def __init__(self, items):
        self.items = list(items)


class SliceV(Val):
    def __init__(self, start, stop, step):
        self.start, self.stop, self.step = start, stop, step

    def __repr__(self):
        return f"SliceV({self.start}, {self.stop}, {self.step})"


class ObjV(Val):
    def __init__(self, cls, attrs=None, tag=None):
        self.cls = cls            # ClassInfo
        self.attrs = dict(attrs or {})
        self.tag = tag

    def __repr__(self):
        return f"ObjV({self.cls.name}, {sorted(self.attrs)})"


class ClassV(Val):
    def __init__(self, ci):
        self.ci = ci

    def __repr__(self):
        return f"ClassV({self.ci.name})"


class FuncV(Val):
    def __init__(self, fi, bound=None, closure=None, bound_cls=None):
        self.fi, self.bound, self.closure, self.bound_cls = fi, bound, closure, bound_cls

    def __repr__(self):
        return f"FuncV({self.fi.qualname})"


class ExtV(Val):
    """External module / function / class / constant referred to by dotted name."""
    def __init__(self, dotted, bound=None):
        self.dotted = dotted
        self.bound = bound      # receiver for bound external methods

    def __repr__(self):
        return f"ExtV({self.dotted})"


class BoundBuiltin(Val):
    """A method of an abstract value (x.to, d.update, s.indices, ...)."""
    def __init__(self, recv, name):
        self.recv, self.name = recv, name

    def __repr__(self):
        return f"BoundBuiltin({self.name})"


class OpaqueV(Val):
    """A value the evaluator carries around without interpreting (e.g. a file handle)."""
    def __init__(self, what, payload=None):
        self.what, self.payload = what, payload

    def __repr__(self):
        return f"OpaqueV({self.what})"


class PyFuncV(Val):
    """A callable supplied by a rule module (models a method of an external base class)."""
    def __init__(self, fn, name="pyfunc"):
        self.fn, self.name = fn, name

    def __repr__(self):
        return f"PyFuncV({self.name})"


class DispatchV(Val):
    """functools.singledispatch object: default implementation plus registry keyed by dotted type name."""
    def __init__(self, default):
        self.default = default
        self.registry = {}

    def __repr__(self):
        return f"DispatchV({self.default!r}, {sorted(self.registry)})"


class SigParamV(Val):
    """An inspect.Parameter as seen through inspect.signature(cls)."""
    def __init__(self, name, kind, has_default):
        self.name, self.kind, self.has_default = name, kind, has_default


class SignatureV(Val):
    def __init__(self, params):
        self.params = params      # list[SigParamV]


# --------------------------------------------------------------------------- sympy vocabulary
I = sp.I
pi = sp.pi
Hz = sp.Symbol("Hz", positive=True)
pc = sp.Symbol("pc", positive=True)
cm = sp.Symbol("cm", positive=True)
UNIT_SYMS = {Hz, pc, cm}
NONE_S = sp.Symbol("None_")

UNITS = {
    "Hz": Hz, "kHz": 10**3 * Hz, "MHz": 10**6 * Hz, "GHz": 10**9 * Hz, "mHz": Hz / 1000,
    "s": 1 / Hz, "ms": sp.Rational(1, 10**3) / Hz, "us": sp.Rational(1, 10**6) / Hz,
    "ns": sp.Rational(1, 10**9) / Hz, "min": 60 / Hz, "minute": 60 / Hz, "hour": 3600 / Hz,
    "h": 3600 / Hz, "day": 86400 / Hz, "d": 86400 / Hz, "second": 1 / Hz,
    "cycle": 2 * sp.pi, "rad": sp.Integer(1), "radian": sp.Integer(1), "deg": sp.pi / 180,
    "one": sp.Integer(1), "dimensionless_unscaled": sp.Integer(1), "percent": sp.Rational(1, 100),
    "pc": pc, "cm": cm, "m": 100 * cm, "km": 10**5 * cm,
}

# uninterpreted functions
F = {name: sp.Function(name) for name in (
    "Idx", "Slc", "Tup", "FFT", "IFFT", "FFTSHIFT", "IFFTSHIFT", "Round", "Int", "TClose", "QClose",
    "Reshape", "Swapaxes", "Transpose", "Flip", "Stack", "Take", "Concat", "Astype", "Opq", "Where",
    "PrevFast", "NextFast", "SliceLen", "Mod", "Broadcast", "Len", "Real", "Imag", "Conj", "Sign",
    "Allclose", "Cast", "DaskOf", "Compute", "Persist", "Rechunk", "MapBlocks", "Call", "Unique",
    "Searchsorted", "Poly", "Deriv", "Sel", "Ravel", "Unravel", "TimeScaleOffsetDays", "JD1of", "TimeRendered", "Roll", "TakeAlong", "ExpandDims", "Squeeze",
)}


def fresh_index(name, **assump):
    return sp.Symbol(name, integer=True, nonnegative=True, **assump)


ITE_F = sp.Function("ITE_")


def mk_ite(cond, a, b):
    """Piecewise((a, cond), (b, True)), falling back to an opaque ITE_ application when sympy cannot build
    the Piecewise (conditions that themselves contain Piecewise terms trip a sympy rewriting bug)."""
    try:
        return sp.Piecewise((a, cond), (b, True))
    except Exception:
        return ITE_F(cond, a, b)
