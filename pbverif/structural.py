"""E5 / two small scope rules about Python semantics that make results depend on call history or on when a callable runs.

late_binding:   a lambda / nested function created inside a loop (or comprehension) that reads the loop variable as a free
                variable sees the variable's LAST value if it runs after the loop has moved on.  Harmless when the callable is
                consumed on the spot (called in place, handed to sorted/min/max/map/filter/...); a defect when it is deferred
                (dask.delayed, stored, appended, returned): every deferred task then works on the final element.
mutable_default: a parameter whose default is a mutable container (dict()/[]/{}...) that the function mutates keeps the change
                for every later call that relies on the default.
"""
from __future__ import annotations

import ast

from .model import norm

IMMEDIATE = {"sorted", "min", "max", "map", "filter", "reduce", "any", "all", "sum", "list", "tuple", "next", "sort"}
MUTATORS = {"append", "extend", "insert", "pop", "remove", "clear", "update", "setdefault", "popitem", "add", "discard", "sort", "reverse", "__setitem__",
            "__delitem__"}


def _parents(root):
    out = {}
    for p in ast.walk(root):
        for c in ast.iter_child_nodes(p):
            out[id(c)] = p
    return out


def _target_names(t):
    return {n.id for n in ast.walk(t) if isinstance(n, ast.Name)}


def _free_loads(fn):
    """Names loaded in the body of a lambda / def that are not its own parameters or local assignments."""
    args = fn.args
    own = {a.arg for a in args.posonlyargs + args.args + args.kwonlyargs}
    if args.vararg:
        own.add(args.vararg.arg)
    if args.kwarg:
        own.add(args.kwarg.arg)
    body = [fn.body] if isinstance(fn, ast.Lambda) else fn.body
    loads, stores = set(), set()
    for b in body:
        for n in ast.walk(b):
            if isinstance(n, ast.Name):
                (loads if isinstance(n.ctx, ast.Load) else stores).add(n.id)
    return loads - own - stores


def rebound_to_copy_before(fn, pname, node):
    """Is `node` (a statement or expression inside function `fn`) preceded, on every path that reaches it, by a rebinding of the
    name `pname` to a NEW container (p = dict(p), p = {**p}, p = list(p), p = p.copy(), p = copy.copy(p), ...)?  Decided
    syntactically: such an assignment that comes earlier in the source and whose statement list is the statement list of an
    enclosing block of `node` (so it is not skipped by a branch that `node` is not in)."""
    parents = _parents(fn)

    def chain(n):
        out = []
        while id(n) in parents:
            n = parents[id(n)]
            out.append(n)
        return out
    anc = chain(node)
    anc_ids = {id(a) for a in anc}
    for st in ast.walk(fn):
        if not (isinstance(st, ast.Assign) and len(st.targets) == 1 and isinstance(st.targets[0], ast.Name) and st.targets[0].id == pname):
            continue
        if getattr(st, "lineno", 10**9) >= getattr(node, "lineno", 0):
            continue
        v = st.value
        fresh = isinstance(v, (ast.Dict, ast.List, ast.Set, ast.DictComp, ast.ListComp, ast.SetComp)) or (
            isinstance(v, ast.Call) and (norm(v.func) in ("dict", "list", "set", "copy.copy", "copy.deepcopy", "collections.OrderedDict", "sorted")
                                         or (isinstance(v.func, ast.Attribute) and v.func.attr == "copy")))
        if not fresh:
            continue
        holder_ = parents.get(id(st))
        if holder_ is not None and (id(holder_) in anc_ids or holder_ is fn):
            # the assignment sits directly in a block that encloses `node`: no way around it
            if not isinstance(holder_, (ast.If, ast.For, ast.While, ast.Try, ast.With)) or any(st in getattr(holder_, f, []) and any(
                    id(x) in anc_ids or x is node for x in getattr(holder_, f, [])) for f in ("body", "orelse", "finalbody")):
                return True
    return False


def late_binding(funcs):
    """-> [(FunctionInfo, node of the callable, loop variable names, how it is deferred)] and the number of callables examined."""
    found, examined = [], 0
    for f in funcs:
        parents = _parents(f.node)
        for loop in ast.walk(f.node):
            if isinstance(loop, (ast.For, ast.AsyncFor)):
                tnames = _target_names(loop.target)
                region = loop.body
            elif isinstance(loop, (ast.ListComp, ast.SetComp, ast.GeneratorExp, ast.DictComp)):
                tnames = set()
                for g in loop.generators:
                    tnames |= _target_names(g.target)
                region = [loop.elt] if not isinstance(loop, ast.DictComp) else [loop.key, loop.value]
            else:
                continue
            for r in region:
                for fn in ast.walk(r):
                    if not isinstance(fn, (ast.Lambda, ast.FunctionDef)):
                        continue
                    examined += 1
                    captured = _free_loads(fn) & tnames
                    if not captured:
                        continue
                    par = parents.get(id(fn))
                    how = None
                    if isinstance(fn, ast.FunctionDef):
                        how = "a function defined in the loop body"
                        # used only by direct calls inside the same iteration?
                        uses = [n for n in ast.walk(loop) if isinstance(n, ast.Name) and n.id == fn.name and isinstance(n.ctx, ast.Load)]
                        if uses and all(isinstance(parents.get(id(u)), ast.Call) and parents[id(u)].func is u for u in uses):
                            continue
                    elif isinstance(par, ast.Call) and par.func is fn:
                        continue            # called in place
                    elif isinstance(par, ast.Call) and norm(par.func).split(".")[-1] in IMMEDIATE:
                        continue            # consumed on the spot
                    elif isinstance(par, ast.keyword) and isinstance(parents.get(id(par)), ast.Call) \
                            and norm(parents[id(par)].func).split(".")[-1] in IMMEDIATE:
                        continue
                    elif isinstance(par, ast.Call):
                        how = f"handed to {norm(par.func)}(...)"
                    else:
                        how = f"kept for later ({type(par).__name__})"
                    found.append((f, fn, sorted(captured), how))
    return found, examined


def mutable_defaults(funcs):
    """-> [(FunctionInfo, function node, parameter, mutating statement)] and the number of mutable defaults examined."""
    found, examined = [], 0
    for f in funcs:
        for fn in ast.walk(f.node):
            if not isinstance(fn, (ast.FunctionDef, ast.Lambda)):
                continue
            a = fn.args
            pos = a.posonlyargs + a.args
            pairs = list(zip(pos[len(pos) - len(a.defaults):], a.defaults)) + [(p, d) for p, d in zip(a.kwonlyargs, a.kw_defaults) if d is not None]
            for p, d in pairs:
                mutable = isinstance(d, (ast.Dict, ast.List, ast.Set)) or (isinstance(d, ast.Call) and norm(d.func) in ("dict", "list", "set", "collections.defaultdict",
                                                                                                                      "defaultdict", "bytearray"))
                if not mutable:
                    continue
                examined += 1
                body = [fn.body] if isinstance(fn, ast.Lambda) else fn.body
                for b in body:
                    for n in ast.walk(b):
                        hit = None
                        if isinstance(n, ast.Call) and isinstance(n.func, ast.Attribute) and n.func.attr in MUTATORS \
                                and isinstance(n.func.value, ast.Name) and n.func.value.id == p.arg:
                            hit = n
                        elif isinstance(n, (ast.Assign, ast.AugAssign, ast.Delete)):
                            tg = n.targets if isinstance(n, (ast.Assign, ast.Delete)) else [n.target]
                            for t in tg:
                                if isinstance(t, ast.Subscript) and isinstance(t.value, ast.Name) and t.value.id == p.arg:
                                    hit = n
                                if isinstance(n, ast.AugAssign) and isinstance(t, ast.Name) and t.id == p.arg:
                                    hit = n
                        if hit is not None and not rebound_to_copy_before(fn, p.arg, hit):
                            found.append((f, fn, p.arg, hit))
    return found, examined


CONTROL = '''
def _ctl(items, opts=dict()):
    out = []
    for f in items:
        out.append(wrap(lambda: work(f)))
    for g in items:
        out.append(sorted(items, key=lambda x: x - g))
    opts.setdefault("seen", 0)
    return out
'''


def controls():
    """The rules must fire on the embedded example (one deferred capture, one mutated default) and stay silent on its
    on-the-spot consumer."""
    from .model import FunctionInfo
    node = ast.parse(CONTROL).body[0]
    fi = FunctionInfo("pulsarbat._pbverif_structural_control", "_ctl", node)
    lb, _ = late_binding([fi])
    md, _ = mutable_defaults([fi])
    return len(lb) == 1 and lb[0][2] == ["f"] and len(md) == 1 and md[0][2] == "opts"


def report(ck, prog, rule, funcs, where_label):
    ok_ctl = controls()
    ck.run.ob(rule, "(embedded example)", "control: a lambda deferred inside a loop / a mutated dict() default", "both scope rules fire on the embedded example and "
              "not on its on-the-spot consumer", True if ok_ctl else None)
    lb, n1 = late_binding(funcs)
    md, n2 = mutable_defaults(funcs)
    for f, fn, names, how in lb:
        ck.same(rule, f.where, norm(fn)[:100], "a callable created in a loop and run later does not read the loop variable as a free variable "
                "(it would see the last element for every task)", False, found=f"captures {names}; {how}", nontrivial=True)
    for f, fn, p, hit in md:
        ck.same(rule, f.where, norm(hit)[:100], "a mutable default argument is never mutated (the change would persist into every later call that relies on the default)",
                False, found=f"default of parameter {p!r} is mutated", nontrivial=True)
    if not lb and not md:
        ck.same(rule, where_label, f"{len(funcs)} functions: {n1} callables created in loops, {n2} mutable defaults",
                "no deferred callable captures a loop variable; no mutable default is mutated", True, nontrivial=bool(n1 or n2))


# ------------------------------------------------------------------------------------------------ overwrite_* options
OVERWRITE_CONTROL = '''
def _ctl(x, **kwargs):
    if x.nbytes > 10:
        kwargs.setdefault("overwrite_x", True)
    a = f(x, overwrite_x=False)
    y = x * 2
    w = x.T
    return g(x, **kwargs), h(x, overwrite_a=flag), h(x * 2, overwrite_x=True), h(y, overwrite_x=True), h(w, overwrite_x=True)
'''


def _params_of(fn):
    a = fn.args
    names = {x.arg for x in a.posonlyargs + a.args + a.kwonlyargs}
    if a.vararg:
        names.add(a.vararg.arg)
    if a.kwarg:
        names.add(a.kwarg.arg)
    return names


def _rooted_in_param(e, params):
    """x, x.data, x[...], *args -- an expression that IS (part of) what the caller handed in; a product, a function result or a
    local temporary is not."""
    while isinstance(e, (ast.Attribute, ast.Subscript, ast.Starred)):
        e = e.value
    return isinstance(e, ast.Name) and e.id in params


def overwrite_options(tree):
    """Every way of switching on a third-party `overwrite_*` option (scipy.fft's overwrite_x, scipy.linalg's overwrite_a/_b,
    numpy's overwrite_input) for an operand that is the caller's own array: a keyword argument with that name whose value is
    not the constant False/None at a call whose operand is (rooted in) a parameter of the enclosing function; or the option name
    as a string constant (a key put into a kwargs dict by hand) in a function that forwards **kwargs together with a parameter
    as operand.  A temporary (z.data * ph) may be overwritten freely.  -> [(node, text, verdict)]: False = violation, None = the
    operand's provenance is not syntactically evident (left to the alias analysis of C14)."""
    out = []
    parents = _parents(tree)

    def enclosing(n):
        while id(n) in parents:
            n = parents[id(n)]
            if isinstance(n, (ast.FunctionDef, ast.AsyncFunctionDef, ast.Lambda)):
                return n
        return None
    for n in ast.walk(tree):
        if isinstance(n, ast.keyword) and n.arg and n.arg.startswith("overwrite_"):
            if isinstance(n.value, ast.Constant) and n.value.value in (False, None):
                continue
            call = parents.get(id(n))
            fn = enclosing(n)
            if not isinstance(call, ast.Call) or fn is None or not call.args:
                out.append((n.value, f"{n.arg}={norm(n.value)}", None))
            elif _rooted_in_param(call.args[0], _params_of(fn)):
                out.append((n.value, f"{n.arg}={norm(n.value)} with operand {norm(call.args[0])[:40]}", False))
            elif isinstance(call.args[0], ast.Name):
                defs = [a_.value for a_ in ast.walk(fn) if isinstance(a_, ast.Assign) and len(a_.targets) == 1 and isinstance(a_.targets[0], ast.Name)
                        and a_.targets[0].id == call.args[0].id]
                if len(defs) == 1 and isinstance(defs[0], (ast.BinOp, ast.UnaryOp)):
                    continue            # a named arithmetic temporary
                out.append((n.value, f"{n.arg}={norm(n.value)} with operand {norm(call.args[0])[:40]}", None))
        elif isinstance(n, ast.Constant) and isinstance(n.value, str) and n.value.startswith("overwrite_") and n.value.isidentifier():
            fn = enclosing(n)
            verdict = None
            if fn is not None:
                params = _params_of(fn)
                for c in ast.walk(fn):
                    if isinstance(c, ast.Call) and any(k.arg is None for k in c.keywords) and c.args and _rooted_in_param(c.args[0], params):
                        verdict = False
            out.append((n, f"the option name {n.value!r} is put into forwarded keyword arguments by hand", verdict))
    return out


def overwrite_report(ck, prog, rule, modules=None):
    """The package never gives a third-party routine permission to destroy its operand: the operand is (a view of) the
    caller's signal data at every FFT call site of the package."""
    ctl = overwrite_options(ast.parse(OVERWRITE_CONTROL))
    ok_ctl = len(ctl) == 3 and sorted(str(v) for _, _, v in ctl) == ["False", "False", "None"]
    ck.run.ob(rule, "(embedded example)", "control: kwargs.setdefault('overwrite_x', True); f(x, overwrite_x=False); h(x, overwrite_a=flag); h(x * 2, overwrite_x=True); y = x * 2; h(y, overwrite_x=True); w = x.T; h(w, overwrite_x=True)",
              "the rule fires on the hand-made option and the non-constant keyword on a parameter, leaves a named view undecided, and accepts overwrite_x=False and arithmetic temporaries", True if ok_ctl else None)
    n_mod = 0
    bad = []
    for name, mi in sorted(prog.modules.items()):
        if modules is not None and name not in modules:
            continue
        n_mod += 1
        for node, text, verdict in overwrite_options(mi.tree):
            bad.append((name, node, text, verdict))
    for name, node, text, verdict in bad:
        where = f"{name.replace('.', '/')}.py:{getattr(node, 'lineno', 0)}"
        if verdict is None:
            ck.unk(rule, where, text, "the operand is a temporary of the function, not the caller's data",
                   "an overwrite_* option is switched on for an operand whose provenance is not syntactically evident")
        else:
            ck.same(rule, where, text, "no third-party routine is allowed to overwrite an operand that is the caller's data", False,
                    found="an overwrite_* option is switched on (or can be, depending on a run-time value) for a parameter of the function", nontrivial=True)
    if not bad:
        ck.same(rule, "pulsarbat (all modules)", f"{n_mod} modules searched for overwrite_* options",
                "no third-party routine is allowed to overwrite its operand (the operand is the caller's data)", True, nontrivial=True)
    ck.run.floor(rule, "modules searched for overwrite_* options", n_mod, 15 if modules is None else len(modules))


# ------------------------------------------------------------------------------------------------ process-wide hooks
GLOBAL_HOOKS = {
    "scipy.fft.register_backend": "registers a scipy.fft backend for the whole process: every scipy.fft call (also the package's direct ones) is routed through it",
    "scipy.fft.set_global_backend": "replaces the scipy.fft backend for the whole process",
    "scipy.fft.set_backend": "switches the scipy.fft backend (outside a with-block: for good)",
    "numpy.seterr": "changes NumPy's floating-point error handling for the whole process",
    "numpy.seterrcall": "changes NumPy's floating-point error handling for the whole process",
    "dask.config.set": "changes Dask's configuration (scheduler, chunk sizes) for the whole process when not used as a context manager",
}
HOOK_CONTROL = '''
import scipy.fft
import numpy as np
import dask


class _B:
    __ua_domain__ = "numpy.scipy.fft"


scipy.fft.register_backend(_B)
np.fft.fft = lambda x: x


def f(x):
    with dask.config.set(scheduler="threads"):
        return x.compute()
'''


def global_hooks(tree, imports):
    """Process-wide hooks installed by a module: calls of GLOBAL_HOOKS functions that are not the context expression of a
    with-statement, and assignments to attributes of imported third-party modules (monkey-patching).  `imports` maps local
    aliases to dotted names.  -> [(node, text)]"""
    parents = _parents(tree)
    third = {a: d for a, d in imports.items() if not d.startswith("pulsarbat")}

    def dotted(e):
        parts = []
        while isinstance(e, ast.Attribute):
            parts.append(e.attr)
            e = e.value
        if isinstance(e, ast.Name) and e.id in third:
            return ".".join([third[e.id]] + parts[::-1])
        return None
    out = []
    for n in ast.walk(tree):
        if isinstance(n, ast.Call):
            d = dotted(n.func)
            if d in GLOBAL_HOOKS:
                par = parents.get(id(n))
                if isinstance(par, ast.withitem) and par.context_expr is n:
                    continue        # scoped: undone when the block is left
                out.append((n, f"{d}(...): {GLOBAL_HOOKS[d]}"))
        elif isinstance(n, (ast.Assign, ast.AugAssign, ast.AnnAssign)):
            tg = n.targets if isinstance(n, ast.Assign) else [n.target]
            for t in tg:
                if isinstance(t, ast.Attribute):
                    d = dotted(t)
                    if d is not None:
                        out.append((n, f"assignment to {d}: replaces part of a third-party module for the whole process"))
        elif isinstance(n, ast.ClassDef):
            if any(isinstance(b, ast.Assign) and any(isinstance(t, ast.Name) and t.id == "__ua_domain__" for t in b.targets) for b in n.body):
                out.append((n, f"class {n.name} declares __ua_domain__: a uarray backend that intercepts third-party calls once registered"))
    return out


def hooks_report(ck, prog, rule):
    """The package installs no process-wide hook: what scipy.fft / numpy / astropy / dask compute for the package (and for the
    user) is what their documentation says, which is what every API-table entry of the evaluator assumes."""
    ctl_tree = ast.parse(HOOK_CONTROL)
    ctl = global_hooks(ctl_tree, {"scipy": "scipy", "np": "numpy", "dask": "dask"})
    ok_ctl = len(ctl) == 3
    ck.run.ob(rule, "(embedded example)", "control: scipy.fft.register_backend(B); np.fft.fft = ...; class with __ua_domain__; with dask.config.set(...)",
              "the hook rule fires on the registration, the monkey-patch and the backend class, not on the scoped with-block", True if ok_ctl else None)
    n_mod, bad = 0, []
    for name, mi in sorted(prog.modules.items()):
        n_mod += 1
        for node, text in global_hooks(mi.tree, mi.imports):
            bad.append((name, node, text))
    for name, node, text in bad:
        ck.same(rule, f"{name.replace('.', '/')}.py:{getattr(node, 'lineno', 0)}", text[:140],
                "no process-wide hook is installed into a third-party library (backends, monkey-patches, global configuration)", False,
                found=text, nontrivial=True)
    if not bad:
        ck.same(rule, "pulsarbat (all modules)", f"{n_mod} modules searched for backend registrations, monkey-patches and global configuration calls",
                "no process-wide hook is installed into a third-party library", True, nontrivial=True)
    ck.run.floor(rule, "modules searched for process-wide hooks", n_mod, 15)
