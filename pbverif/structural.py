"""E5 / two small scope rules about Python semantics that make results depend on call history or on when a callable runs.

late_binding:   a lambda / nested function created inside a loop (or comprehension) that reads the loop variable as a free
                variable sees the variable's LAST value if it runs after the loop has moved on.  Harmless when the callable is
                consumed on the spot (called in place, handed to sorted/min/max/map/filter/...); a defect when it is deferred
                (dask.delayed, stored, appended, returned): every deferred task then works on the final element.
mutable_default: a parameter whose default is a mutable container (dict()/[]/{}...) that the function mutates keeps the change
                for every later call that relies on the default.
"""
from __future__ import annotations

import ast

from .model import norm

IMMEDIATE = {"sorted", "min", "max", "map", "filter", "reduce", "any", "all", "sum", "list", "tuple", "next", "sort"}
MUTATORS = {"append", "extend", "insert", "pop", "remove", "clear", "update", "setdefault", "popitem", "add", "discard", "sort", "reverse", "__setitem__",
            "__delitem__"}


def _parents(root):
    out = {}
    for p in ast.walk(root):
        for c in ast.iter_child_nodes(p):
            out[id(c)] = p
    return out


def _target_names(t):
    return {n.id for n in ast.walk(t) if isinstance(n, ast.Name)}


def _free_loads(fn):
    """Names loaded in the body of a lambda / def that are not its own parameters or local assignments."""
    args = fn.args
    own = {a.arg for a in args.posonlyargs + args.args + args.kwonlyargs}
    if args.vararg:
        own.add(args.vararg.arg)
    if args.kwarg:
        own.add(args.kwarg.arg)
    body = [fn.body] if isinstance(fn, ast.Lambda) else fn.body
    loads, stores = set(), set()
    for b in body:
        for n in ast.walk(b):
            if isinstance(n, ast.Name):
                (loads if isinstance(n.ctx, ast.Load) else stores).add(n.id)
    return loads - own - stores


def rebound_to_copy_before(fn, pname, node):
    """Is `node` (a statement or expression inside function `fn`) preceded, on every path that reaches it, by a rebinding of the
    name `pname` to a NEW container (p = dict(p), p = {**p}, p = list(p), p = p.copy(), p = copy.copy(p), ...)?  Decided
    syntactically: such an assignment that comes earlier in the source and whose statement list is the statement list of an
    enclosing block of `node` (so it is not skipped by a branch that `node` is not in)."""
    parents = _parents(fn)

    def chain(n):
        out = []
        while id(n) in parents:
            n = parents[id(n)]
            out.append(n)
        return out
    anc = chain(node)
    anc_ids = {id(a) for a in anc}
    for st in ast.walk(fn):
        if not (isinstance(st, ast.Assign) and len(st.targets) == 1 and isinstance(st.targets[0], ast.Name) and st.targets[0].id == pname):
            continue
        if getattr(st, "lineno", 10**9) >= getattr(node, "lineno", 0):
            continue
        v = st.value
        fresh = isinstance(v, (ast.Dict, ast.List, ast.Set, ast.DictComp, ast.ListComp, ast.SetComp)) or (
            isinstance(v, ast.Call) and (norm(v.func) in ("dict", "list", "set", "copy.copy", "copy.deepcopy", "collections.OrderedDict", "sorted")
                                         or (isinstance(v.func, ast.Attribute) and v.func.attr == "copy")))
        if not fresh:
            continue
        holder_ = parents.get(id(st))
        if holder_ is not None and (id(holder_) in anc_ids or holder_ is fn):
            # the assignment sits directly in a block that encloses `node`: no way around it
            if not isinstance(holder_, (ast.If, ast.For, ast.While, ast.Try, ast.With)) or any(st in getattr(holder_, f, []) and any(
                    id(x) in anc_ids or x is node for x in getattr(holder_, f, [])) for f in ("body", "orelse", "finalbody")):
                return True
    return False


def late_binding(funcs):
    """-> [(FunctionInfo, node of the callable, loop variable names, how it is deferred)] and the number of callables examined."""
    found, examined = [], 0
    for f in funcs:
        parents = _parents(f.node)
        for loop in ast.walk(f.node):
            if isinstance(loop, (ast.For, ast.AsyncFor)):
                tnames = _target_names(loop.target)
                region = loop.body
            elif isinstance(loop, (ast.ListComp, ast.SetComp, ast.GeneratorExp, ast.DictComp)):
                tnames = set()
                for g in loop.generators:
                    tnames |= _target_names(g.target)
                region = [loop.elt] if not isinstance(loop, ast.DictComp) else [loop.key, loop.value]
            else:
                continue
            for r in region:
                for fn in ast.walk(r):
                    if not isinstance(fn, (ast.Lambda, ast.FunctionDef)):
                        continue
                    examined += 1
                    captured = _free_loads(fn) & tnames
                    if not captured:
                        continue
                    par = parents.get(id(fn))
                    how = None
                    if isinstance(fn, ast.FunctionDef):
                        how = "a function defined in the loop body"
                        # used only by direct calls inside the same iteration?
                        uses = [n for n in ast.walk(loop) if isinstance(n, ast.Name) and n.id == fn.name and isinstance(n.ctx, ast.Load)]
                        if uses and all(isinstance(parents.get(id(u)), ast.Call) and parents[id(u)].func is u for u in uses):
                            continue
                    elif isinstance(par, ast.Call) and par.func is fn:
                        continue            # called in place
                    elif isinstance(par, ast.Call) and norm(par.func).split(".")[-1] in IMMEDIATE:
                        continue            # consumed on the spot
                    elif isinstance(par, ast.keyword) and isinstance(parents.get(id(par)), ast.Call) \
                            and norm(parents[id(par)].func).split(".")[-1] in IMMEDIATE:
                        continue
                    elif isinstance(par, ast.Call):
                        how = f"handed to {norm(par.func)}(...)"
                    else:
                        how = f"kept for later ({type(par).__name__})"
                    found.append((f, fn, sorted(captured), how))
    return found, examined


def mutable_defaults(funcs):
    """-> [(FunctionInfo, function node, parameter, mutating statement)] and the number of mutable defaults examined."""
    found, examined = [], 0
    for f in funcs:
        for fn in ast.walk(f.node):
            if not isinstance(fn, (ast.FunctionDef, ast.Lambda)):
                continue
            a = fn.args
            pos = a.posonlyargs + a.args
            pairs = list(zip(pos[len(pos) - len(a.defaults):], a.defaults)) + [(p, d) for p, d in zip(a.kwonlyargs, a.kw_defaults) if d is not None]
            for p, d in pairs:
                mutable = isinstance(d, (ast.Dict, ast.List, ast.Set)) or (isinstance(d, ast.Call) and norm(d.func) in ("dict", "list", "set", "collections.defaultdict",
                                                                                                                      "defaultdict", "bytearray"))
                if not mutable:
                    continue
                examined += 1
                body = [fn.body] if isinstance(fn, ast.Lambda) else fn.body
                for b in body:
                    for n in ast.walk(b):
                        hit = None
                        if isinstance(n, ast.Call) and isinstance(n.func, ast.Attribute) and n.func.attr in MUTATORS \
                                and isinstance(n.func.value, ast.Name) and n.func.value.id == p.arg:
                            hit = n
                        elif isinstance(n, (ast.Assign, ast.AugAssign, ast.Delete)):
                            tg = n.targets if isinstance(n, (ast.Assign, ast.Delete)) else [n.target]
                            for t in tg:
                                if isinstance(t, ast.Subscript) and isinstance(t.value, ast.Name) and t.value.id == p.arg:
                                    hit = n
                                if isinstance(n, ast.AugAssign) and isinstance(t, ast.Name) and t.id == p.arg:
                                    hit = n
                        if hit is not None and not rebound_to_copy_before(fn, p.arg, hit):
                            found.append((f, fn, p.arg, hit))
    return found, examined


CONTROL = '''
def _ctl(items, opts=dict()):
    out = []
    for f in items:
        out.append(wrap(lambda: work(f)))
    for g in items:
        out.append(sorted(items, key=lambda x: x - g))
    opts.setdefault("seen", 0)
    return out
'''


def controls():
    """The rules must fire on the embedded example (one deferred capture, one mutated default) and stay silent on its
    on-the-spot consumer."""
    from .model import FunctionInfo
    node = ast.parse(CONTROL).body[0]
    fi = FunctionInfo("pulsarbat._pbverif_structural_control", "_ctl", node)
    lb, _ = late_binding([fi])
    md, _ = mutable_defaults([fi])
    return len(lb) == 1 and lb[0][2] == ["f"] and len(md) == 1 and md[0][2] == "opts"


def report(ck, prog, rule, funcs, where_label):
    ok_ctl = controls()
    ck.run.ob(rule, "(embedded example)", "control: a lambda deferred inside a loop / a mutated dict() default", "both scope rules fire on the embedded example and "
              "not on its on-the-spot consumer", True if ok_ctl else None)
    lb, n1 = late_binding(funcs)
    md, n2 = mutable_defaults(funcs)
    for f, fn, names, how in lb:
        ck.same(rule, f.where, norm(fn)[:100], "a callable created in a loop and run later does not read the loop variable as a free variable "
                "(it would see the last element for every task)", False, found=f"captures {names}; {how}", nontrivial=True)
    for f, fn, p, hit in md:
        ck.same(rule, f.where, norm(hit)[:100], "a mutable default argument is never mutated (the change would persist into every later call that relies on the default)",
                False, found=f"default of parameter {p!r} is mutated", nontrivial=True)
    if not lb and not md:
        ck.same(rule, where_label, f"{len(funcs)} functions: {n1} callables created in loops, {n2} mutable defaults",
                "no deferred callable captures a loop variable; no mutable default is mutated", True, nontrivial=bool(n1 or n2))
