"""Driver: /verif/check <Cxx> [--tier quick|thorough] [--replay path]"""
from __future__ import annotations

import argparse
import importlib
import os
import sys

HERE = os.path.dirname(os.path.dirname(os.path.abspath(__file__)))
DEPS = os.path.join(HERE, ".deps")
if os.path.isdir(DEPS) and DEPS not in sys.path:
    sys.path.insert(1, DEPS)

from . import report  # noqa: E402
from .model import Program, AnalysisError  # noqa: E402

CLAIMED = ["C%02d" % i for i in range(1, 21) if i != 18]


def main(argv=None):
    ap = argparse.ArgumentParser()
    ap.add_argument("pid")
    ap.add_argument("--tier", default=os.environ.get("VERIF_TIER", "quick"), choices=["quick", "thorough"])
    ap.add_argument("--replay", default=None)
    ap.add_argument("--repo", default=None)
    args = ap.parse_args(argv)
    pid = args.pid.upper()
    try:
        seed = int(os.environ.get("VERIF_SEED", "0"))
    except ValueError:
        seed = 0

    budget = float(os.environ.get("PBVERIF_BUDGET_S", "420" if args.tier == "quick" else "3000"))

    def _watchdog():
        print(f"ANALYSIS-ERROR: time budget of {budget:.0f}s exceeded for {pid} [{args.tier}]")
        sys.stdout.flush()
        os._exit(2)
    import threading
    wd = threading.Timer(budget, _watchdog)
    wd.daemon = True
    wd.start()

    def go():
        if pid not in CLAIMED:
            print(f"ANALYSIS-ERROR: no check for {pid}")
            return 2
        run = report.Run(pid, args.tier, seed, replay=args.replay)
        try:
            mod = importlib.import_module(f"pbverif.props.{pid.lower()}")
        except ModuleNotFoundError as e:
            print(f"ANALYSIS-ERROR: check for {pid} not built ({e})")
            return 2
        try:
            prog = Program(args.repo) if args.repo else Program()
            run.census = prog.check_floor()
            mod.check(run, prog)
            from . import coherence
            coherence.check(run, prog, pid)
            from . import sigmodel
            sigmodel.report_discrepancies(run, prog, pid)
            from . import memo
            memo.check(run, prog, pid)
            if args.tier == "thorough" and hasattr(mod, "thorough"):
                mod.thorough(run, prog)
        except AnalysisError as e:
            run.ob("R0", "(analysis)", "anchor/vocabulary", "the analyser could read every anchored construct",
                   None, note=str(e))
        except RecursionError as e:
            run.ob("R0", "(analysis)", "recursion", "analysis terminated", None, note=str(e))
        code = run.finish()
        if code == 0 and args.tier == "thorough" and not args.replay:
            from . import selftest
            code = selftest.run_for(run, pid)
        return code

    report.guarded_main(go)


if __name__ == "__main__":
    main()
