"""E3 / laziness domain: which expressions may hold a Dask array, and where such a value is *forced*.

Abstract value: 'A' (maybe a lazy array), 'C' (container/iterator of such arrays), None (not lazy).
Sources: attribute reads .data / ._data, results of dask.array.* calls, parameters listed by the caller.
A value stops being lazy inside the NumPy arm of an explicit back-end test (`isinstance(E, da.Array)` /
`use_dask`) for the tested expression E and everything derived from it afterwards in that arm.
"""
from __future__ import annotations

import ast
from dataclasses import dataclass

from .model import Program, FunctionInfo, norm, attr_chain

# numpy callables that hand over to Dask through __array_function__ / __array_ufunc__ (validated at run time)
DISPATCHING = {
    "numpy.stack", "numpy.take", "numpy.concatenate", "numpy.where", "numpy.flip", "numpy.exp", "numpy.abs", "numpy.absolute",
    "numpy.sqrt", "numpy.real", "numpy.imag", "numpy.conj", "numpy.conjugate", "numpy.fft.fftshift", "numpy.fft.ifftshift",
    "numpy.sum", "numpy.mean", "numpy.square", "numpy.angle", "numpy.moveaxis", "numpy.swapaxes", "numpy.transpose",
    "numpy.reshape", "numpy.squeeze", "numpy.expand_dims", "numpy.broadcast_to", "numpy.roll", "numpy.round", "numpy.floor",
    "numpy.ceil", "numpy.sin", "numpy.cos", "numpy.multiply", "numpy.add", "numpy.subtract", "numpy.divide", "numpy.negative",
    "numpy.isfinite", "numpy.isnan", "numpy.clip", "numpy.power", "numpy.maximum", "numpy.minimum", "numpy.tile", "numpy.repeat",
    "numpy.pad", "numpy.diff", "numpy.cumsum", "numpy.prod", "numpy.max", "numpy.min", "numpy.log", "numpy.log10", "numpy.vstack",
    "numpy.hstack", "numpy.dstack", "numpy.atleast_1d", "numpy.atleast_2d", "numpy.ravel", "numpy.einsum", "numpy.tensordot",
    "numpy.dot", "numpy.matmul", "numpy.median", "numpy.var", "numpy.std", "numpy.nan_to_num", "numpy.zeros_like", "numpy.ones_like",
    "numpy.empty_like", "numpy.full_like",
}
NON_ARRAY_OPTIONS = {"casting", "order", "dtype", "subok", "signature", "sig", "axes", "axis", "keepdims", "extobj", "initial"}
# callables that never look at element values
METADATA_ONLY = {"numpy.iscomplexobj", "numpy.isrealobj", "numpy.shape", "numpy.ndim", "numpy.result_type", "numpy.can_cast",
                 "len", "isinstance", "issubclass", "type", "id", "hasattr", "getattr", "repr", "callable", "hex"}
FORCING_FUNCS = {"numpy.asarray", "numpy.array", "numpy.asanyarray", "numpy.ascontiguousarray", "numpy.asfortranarray",
                 "numpy.nditer", "numpy.lexsort", "numpy.allclose", "numpy.array_equal", "numpy.isclose_scalar", "numpy.copyto",
                 "numpy.savetxt", "numpy.save", "numpy.frombuffer", "numpy.unique", "numpy.searchsorted", "numpy.argsort", "numpy.sort",
                 "bool", "int", "float", "complex", "list", "tuple", "sorted", "set", "sum", "min", "max", "any", "all", "iter",
                 "next", "enumerate", "zip", "map", "print", "str", "format", "dask.compute", "dask.persist"}
FORCING_PREFIX = ("scipy.",)
FORCING_METHODS = {"compute", "persist", "tolist", "item", "tobytes", "tofile", "dump", "dumps", "__array__", "__bool__", "__iter__",
                   "visualize_forced"}
LAZY_METHODS = {"reshape", "swapaxes", "transpose", "astype", "conj", "conjugate", "copy", "rechunk", "ravel", "squeeze", "round",
                "sum", "mean", "min", "max", "std", "var", "prod", "view", "flatten", "clip", "real", "imag", "map_blocks",
                "map_overlap", "repeat", "cumsum", "any", "all", "dot", "argmax", "argmin", "to_delayed", "store_lazy"}
NON_VALUE_ATTRS = {"shape", "ndim", "dtype", "size", "chunks", "chunksize", "numblocks", "npartitions", "nbytes", "itemsize", "name",
                   "__class__", "dask", "blocks_shape"}
SOURCES = {"data", "_data"}


@dataclass
class Force:
    func: FunctionInfo
    node: ast.AST
    how: str
    expr: str
    sanctioned: str | None = None

    def key(self):
        return (self.func.module, self.func.qualname, self.how, self.expr)


class LazyAnalysis:
    def __init__(self, prog: Program, functions, sanction=None, lazy_params=None):
        self.prog = prog
        self.functions = functions
        self.sanction = sanction or (lambda fi, node, how: None)
        self.lazy_params = lazy_params or {}
        self.forces: list[Force] = []
        self.unknown = {}
        self.np_used = set()
        self.n_exprs = 0
        self.n_tainted = 0

    def run(self):
        for f in self.functions:
            _Walk(self, f).run()
        seen, out = set(), []
        for x in self.forces:
            if x.key() not in seen:
                seen.add(x.key())
                out.append(x)
        self.forces = out
        return out


class _Walk:
    def __init__(self, an: LazyAnalysis, fi: FunctionInfo):
        self.an, self.fi = an, fi
        self.mi = an.prog.modules[fi.module]
        self.env = {}
        for p in an.lazy_params.get(fi.qualname, []):
            if isinstance(p, tuple):
                self.env[p[0]] = p[1]        # ("inputs", "C"): a container whose elements may be lazy arrays
            else:
                self.env[p] = "A"
        self.numpy_exprs = set()     # expression texts known to be NumPy-backed on the current path
        self.cur = None

    def run(self):
        body = self.fi.node.body if not isinstance(self.fi.node, ast.Lambda) else [ast.Expr(self.fi.node.body)]
        for _ in range(2):           # two passes: loop-carried taint
            self.block(body)

    # ------------------------------------------------------------ statements
    def block(self, stmts):
        for s in stmts:
            self.cur = s
            self.stmt(s)

    def force(self, node, how, expr):
        self.an.forces.append(Force(self.fi, self.cur or node, how, norm(expr)[:120], self.an.sanction(self.fi, self.cur or node, how)))

    def cond(self, test):
        """Truthiness of `test` is needed."""
        if isinstance(test, ast.BoolOp):
            for v in test.values:
                self.cond(v)
            return
        if isinstance(test, ast.UnaryOp) and isinstance(test.op, ast.Not):
            self.cond(test.operand)
            return
        if isinstance(test, ast.Compare) and all(isinstance(o, (ast.Is, ast.IsNot)) for o in test.ops):
            self.ev(test.left)
            for c in test.comparators:
                self.ev(c)
            return
        if isinstance(test, ast.Compare) and all(isinstance(o, (ast.In, ast.NotIn)) for o in test.ops):
            v = self.ev(test.left)
            for c in test.comparators:
                self.ev(c)
            if v == "A":
                self.force(test, "membership test on an array value", test)
            return
        v = self.ev(test)
        if v == "A":
            self.force(test, "array value used as a condition (truth value forces computation)", test)

    def backend_test(self, test):
        """-> (expr_text, dask_branch_is_body) for `isinstance(E, da.Array)` / `use_dask`-like tests; else None."""
        neg = False
        t = test
        if isinstance(t, ast.UnaryOp) and isinstance(t.op, ast.Not):
            neg, t = True, t.operand
        if isinstance(t, ast.Call) and isinstance(t.func, ast.Name) and t.func.id == "isinstance" and len(t.args) == 2:
            d = self.an.prog.resolve_expr_name(self.mi, t.args[1])
            if d in ("dask.array.Array", "dask.array.core.Array"):
                return norm(t.args[0]), not neg
        return None

    def stmt(self, s):
        if isinstance(s, ast.Assign):
            v = self.ev(s.value)
            for t in s.targets:
                self.assign(t, v, s.value)
        elif isinstance(s, ast.AnnAssign):
            if s.value is not None:
                self.assign(s.target, self.ev(s.value), s.value)
        elif isinstance(s, ast.AugAssign):
            v = self.ev(s.value)
            cur = self.ev(_load(s.target))
            self.assign(s.target, "A" if "A" in (v, cur) else cur or v, None)
        elif isinstance(s, ast.Expr):
            self.ev(s.value)
        elif isinstance(s, ast.Return):
            if s.value is not None:
                self.ev(s.value)
        elif isinstance(s, ast.If):
            bt = self.backend_test(s.test)
            if bt is None:
                self.cond(s.test)
            else:
                # the tested expression itself is still evaluated (isinstance(np.asarray(z.data), da.Array) forces)
                t_ = s.test.operand if isinstance(s.test, ast.UnaryOp) else s.test
                self.ev(t_.args[0])
            e0, n0 = dict(self.env), set(self.numpy_exprs)
            if bt is not None and not bt[1]:
                self.mark_numpy(bt[0])
            self.block(s.body)
            e1, n1 = self.env, self.numpy_exprs
            self.env, self.numpy_exprs = dict(e0), set(n0)
            if bt is not None and bt[1]:
                self.mark_numpy(bt[0])
            self.block(s.orelse)
            self.env = _join(e1, self.env)
            self.numpy_exprs = n1 & self.numpy_exprs
        elif isinstance(s, (ast.For, ast.AsyncFor)):
            it = self.ev(s.iter)
            if it == "A":
                self.force(s.iter, "iteration over an array value", s.iter)
            self.bind_iter(s.target, s.iter, it)
            for _ in range(2):
                self.block(s.body)
            self.block(s.orelse)
        elif isinstance(s, ast.While):
            self.cond(s.test)
            for _ in range(2):
                self.block(s.body)
            self.block(s.orelse)
        elif isinstance(s, ast.Assert):
            self.cond(s.test)
        elif isinstance(s, ast.Try):
            self.block(s.body)
            for h in s.handlers:
                self.block(h.body)
            self.block(s.orelse)
            self.block(s.finalbody)
        elif isinstance(s, (ast.With, ast.AsyncWith)):
            for item in s.items:
                v = self.ev(item.context_expr)
                if item.optional_vars is not None:
                    self.assign(item.optional_vars, v, item.context_expr)
            self.block(s.body)
        elif isinstance(s, (ast.FunctionDef, ast.AsyncFunctionDef)):
            sub = FunctionInfo(self.fi.module, self.fi.qualname + ".<locals>." + s.name, s, self.fi.cls, "nested")
            w = _Walk(self.an, sub)
            w.env = dict(self.env)
            w.numpy_exprs = set(self.numpy_exprs)
            w.run()
        elif isinstance(s, ast.Raise):
            if s.exc is not None:
                self.ev(s.exc)
        elif isinstance(s, ast.Delete):
            pass

    def mark_numpy(self, text):
        self.numpy_exprs.add(text)
        for k in list(self.env):
            pass

    def bind_iter(self, target, iter_node, it):
        """Loop variable(s) of `for target in iter_node`.  zip(a, b, c) unpacked into as many names binds each name to an
        element of ITS iterable: a flag taken from a tuple of booleans is not an array because it is zipped with arrays."""
        if isinstance(iter_node, ast.Call) and isinstance(iter_node.func, ast.Name) and iter_node.func.id == "zip" and not iter_node.keywords \
                and isinstance(target, (ast.Tuple, ast.List)) and len(target.elts) == len(iter_node.args) \
                and not any(isinstance(a, ast.Starred) for a in list(iter_node.args) + list(target.elts)):
            for t, a in zip(target.elts, iter_node.args):
                v = self.ev(a)
                self.assign(t, "A" if v in ("A", "C") else None, None)
            return
        self.assign(target, "A" if it == "C" else None, None)

    def assign(self, t, v, value_node):
        if isinstance(t, ast.Name):
            self.env[t.id] = v
            self.numpy_exprs.discard(t.id)
        elif isinstance(t, (ast.Tuple, ast.List)):
            if isinstance(value_node, (ast.Tuple, ast.List)) and len(value_node.elts) == len(t.elts):
                for a, b in zip(t.elts, value_node.elts):
                    self.assign(a, self.ev(b), b)
            else:
                for a in t.elts:
                    self.assign(a.value if isinstance(a, ast.Starred) else a, "A" if v in ("A", "C") else None, None)
        elif isinstance(t, ast.Subscript):
            self.ev(t.value)
            self.ev(t.slice)
            if isinstance(t.value, ast.Name) and v in ("A", "C") and self.env.get(t.value.id) is None:
                self.env[t.value.id] = "C"
        elif isinstance(t, ast.Attribute):
            self.ev(t.value)

    # ----------------------------------------------------------- expressions
    def is_numpy(self, e):
        txt = norm(e)
        return any(txt == k or txt.startswith(k + ".") or txt.startswith(k + "[") for k in self.numpy_exprs)

    def ev(self, e):
        self.an.n_exprs += 1
        v = self._ev(e)
        if v == "A" and self.is_numpy(e):
            v = None
        if v == "A":
            self.an.n_tainted += 1
        return v

    def _ev(self, e):
        if e is None or isinstance(e, ast.Constant):
            return None
        if isinstance(e, ast.Name):
            return self.env.get(e.id)
        if isinstance(e, ast.NamedExpr):
            v = self.ev(e.value)
            self.env[e.target.id] = v
            return v
        if isinstance(e, ast.Attribute):
            base = self.ev(e.value)
            if e.attr in NON_VALUE_ATTRS:
                return None
            if e.attr in SOURCES:
                return None if self.is_numpy(e) else "A"
            if base == "A" and e.attr in ("real", "imag", "T", "flat", "value"):
                return "A"
            return base if base == "A" and e.attr in LAZY_METHODS else (None if base != "C" else None)
        if isinstance(e, ast.Subscript):
            base = self.ev(e.value)
            idx = self.ev(e.slice)
            if base == "C":
                return "A"
            return base
        if isinstance(e, (ast.BinOp,)):
            l, r = self.ev(e.left), self.ev(e.right)
            if isinstance(e.left, (ast.Tuple, ast.List)) or isinstance(e.right, (ast.Tuple, ast.List)):
                return "C" if "A" in (l, r) or "C" in (l, r) else None
            return "A" if "A" in (l, r) else None
        if isinstance(e, ast.UnaryOp):
            if isinstance(e.op, ast.Not):
                self.cond(e.operand)
                return None
            return self.ev(e.operand)
        if isinstance(e, ast.BoolOp):
            for v in e.values[:-1]:
                self.cond(v)
            return self.ev(e.values[-1])
        if isinstance(e, ast.Compare):
            vs = [self.ev(e.left)] + [self.ev(c) for c in e.comparators]
            if all(isinstance(o, (ast.Is, ast.IsNot)) for o in e.ops):
                return None
            return "A" if "A" in vs else None
        if isinstance(e, ast.IfExp):
            bt = self.backend_test(e.test)
            if bt is None:
                self.cond(e.test)
                return _j(self.ev(e.body), self.ev(e.orelse))
            saved = set(self.numpy_exprs)
            if not bt[1]:
                self.mark_numpy(bt[0])
            a = self.ev(e.body)
            self.numpy_exprs = set(saved)
            if bt[1]:
                self.mark_numpy(bt[0])
            b = self.ev(e.orelse)
            self.numpy_exprs = saved
            return _j(a, b)
        if isinstance(e, (ast.Tuple, ast.List, ast.Set)):
            vs = [self.ev(x.value if isinstance(x, ast.Starred) else x) for x in e.elts]
            return "C" if any(v in ("A", "C") for v in vs) else None
        if isinstance(e, ast.Dict):
            vs = [self.ev(v) for v in e.values]
            return "C" if any(v in ("A", "C") for v in vs) else None
        if isinstance(e, (ast.ListComp, ast.SetComp, ast.GeneratorExp, ast.DictComp)):
            saved = dict(self.env)
            for g in e.generators:
                it = self.ev(g.iter)
                if it == "A":
                    self.force(g.iter, "iteration over an array value", g.iter)
                self.bind_iter(g.target, g.iter, it)
                for c in g.ifs:
                    self.cond(c)
            elts = [e.elt] if not isinstance(e, ast.DictComp) else [e.key, e.value]
            vs = [self.ev(x) for x in elts]
            self.env = saved
            return "C" if any(v in ("A", "C") for v in vs) else None
        if isinstance(e, ast.Call):
            return self.call(e)
        if isinstance(e, ast.Starred):
            return self.ev(e.value)
        if isinstance(e, ast.Slice):
            for x in (e.lower, e.upper, e.step):
                if x is not None and self.ev(x) == "A":
                    self.force(x, "array value used as a slice bound", x)
            return None
        if isinstance(e, (ast.JoinedStr,)):
            for v in e.values:
                if isinstance(v, ast.FormattedValue) and self.ev(v.value) == "A":
                    self.force(v.value, "array value formatted into a string", v.value)
            return None
        if isinstance(e, ast.Lambda):
            return None
        for c in ast.iter_child_nodes(e):
            if isinstance(c, ast.expr):
                self.ev(c)
        return None

    def call(self, e: ast.Call):
        argv = [self.ev(a.value if isinstance(a, ast.Starred) else a) for a in e.args]
        kwv = {k.arg: self.ev(k.value) for k in e.keywords}
        lazy_args = [a for a, v in zip(e.args, argv) if v == "A"] + [k.value for k in e.keywords if kwv.get(k.arg) == "A"]
        cont_args = [a for a, v in zip(e.args, argv) if v == "C"]
        any_lazy = bool(lazy_args)
        fn = e.func
        dotted = None
        chain = attr_chain(fn)
        if chain and (chain[0] in self.mi.imports or (isinstance(fn, ast.Name) and fn.id not in self.env)):
            dotted = self.an.prog.resolve_expr_name(self.mi, fn)
        if isinstance(fn, ast.Attribute) and not (chain and chain[0] in self.mi.imports):
            recv = self.ev(fn.value)
            name = fn.attr
            if recv == "A":
                if name in FORCING_METHODS:
                    self.force(e, f".{name}() on an array value", e)
                    return None
                if name in LAZY_METHODS or True:
                    return "A"
            if name == "like":
                return None
            if name in ("append", "extend") and any(v in ("A", "C") for v in argv) and isinstance(fn.value, ast.Name):
                self.env[fn.value.id] = "C"
            if recv == "C" and name in ("items", "values", "keys", "copy"):
                return "C"
            if recv == "C" and name in ("get", "pop", "setdefault") and isinstance(fn.value, ast.Name):
                if e.args and isinstance(e.args[0], ast.Constant) and e.args[0].value in NON_ARRAY_OPTIONS:
                    return None          # ufunc options that are never arrays
                return "A"               # an element of a container of possibly lazy values
            return "A" if (any_lazy and name not in ("like", "update", "format")) and recv is None and False else None
        if dotted:
            tgt = self.an.prog.lookup(dotted)
            if dotted.startswith("pulsarbat.fft."):
                return "A" if any_lazy else None
            if isinstance(tgt, FunctionInfo) or (dotted.startswith("pulsarbat") and tgt is not None):
                return None          # repo callee analysed on its own
            if dotted.startswith("dask.array") or dotted in ("dask.delayed",):
                if dotted.endswith(".compute"):
                    if any_lazy:
                        self.force(e, f"{dotted}(...)", e)
                    return None
                return "A"
            short = dotted.replace("builtins.", "")
            if short in METADATA_ONLY or dotted in METADATA_ONLY:
                return None
            if any_lazy or (cont_args and short in ("numpy.asarray", "numpy.array")):
                if short in FORCING_FUNCS or dotted in FORCING_FUNCS or dotted.startswith(FORCING_PREFIX):
                    # tuple()/list()/enumerate()... of a *container* is fine; of an array it iterates
                    self.force(e, f"{dotted}(...) applied to an array value", e)
                    return None
                if dotted in DISPATCHING:
                    self.an.np_used.add(dotted)
                    return "A"
                if dotted.startswith("numpy."):
                    self.an.unknown[dotted] = self.an.unknown.get(dotted, 0) + 1
                    self.force(e, f"{dotted}(...) is not in the table of NumPy functions known to dispatch to Dask", e)
                    return "A"
                return "A"
            if cont_args and dotted in DISPATCHING:
                self.an.np_used.add(dotted)
                return "A"
            if cont_args and short in ("tuple", "list", "sorted", "reversed", "zip", "enumerate", "dict"):
                return "C"
            return None
        # call of a local/parameter callable (ufunc, func, cls ...): result may be lazy when fed lazy data
        if isinstance(fn, ast.Name) and fn.id in ("tuple", "list") and cont_args:
            return "C"
        return "A" if (any_lazy or cont_args) else None


def _j(a, b):
    if "A" in (a, b):
        return "A"
    if "C" in (a, b):
        return "C"
    return None


def _join(a, b):
    return {k: _j(a.get(k), b.get(k)) for k in set(a) | set(b)}


def _load(t):
    import copy
    t2 = copy.copy(t)
    t2.ctx = ast.Load()
    return t2
