"""C04 - freq_shift moves the spectrum by the given amount, zeroing what leaves the band."""
from __future__ import annotations

from fractions import Fraction
import sympy as sp

from ..spec import Checker, FR, obj_summary
from ..sigmodel import make_signal, N, NCHAN, CF, BW, SR, T0
from ..values import Num, StrV, ObjV, NONE, Hz, F, NONE_S, TupleV, SliceV, BoolV
from ..extapi import NdArr
from ..symeval import Raised
from ..values import Unsupported
from .c13 import meta_same
from .c03 import run_coverage

EXPLANATION = (
    "freq_shift is evaluated by the term evaluator with a symbolic scalar frequency shift: the result must be "
    "ifft(ifftshift(Z, axis 0), axis 0) where Z is fftshift(fft(x * exp(+2*pi*i*(df/sample_rate)*n), axis 0), axis 0) with the "
    "zero-fill applied to Z (between fftshift and ifftshift), the mixer exponent dimensionless and evaluated at full precision, "
    "no metadata override, and the class/unit guards raising. With concrete shift arrays of every broadcastable shape on a small "
    "concrete sample shape the recorded zero-fill stores are expanded to (bin, element) pairs and must equal the statement's set "
    "(bins that wrapped in: the first ceil(a) / last ceil(|a|) shifted bins, a = df*N/sample_rate, for every element the shift "
    "broadcasts to; everything for |a| >= N). Value accuracy and the boundary-bin convention are not decided."
)


def check(run, prog):
    run.explanation = EXPLANATION
    run.assumptions += ["real-number semantics; fft/ifft/fftshift as opaque injective operators"]
    ck = Checker(run, prog)
    fi = prog.func("freq_shift")
    run.touched(fi)
    df = sp.Symbol("df", real=True)
    for clsname, dtype in (("BasebandSignal", "complex128"), ("DualPolarizationSignal", "complex64")):
        z = make_signal(prog, clsname, nchan=2, dtype=dtype)
        tag = f"[{clsname}, {dtype}]"
        ev = ck.evaluator()
        out = ck.attempt("R1", fi.where, "freq_shift(z, df) " + tag, "evaluates with consistent units", lambda: ev.call(fi, [z, Num(df * Hz, kind="quantity")], {}),
                         ev=ev, allowed_guards=[])
        if out is None:
            continue
        d = out.attrs["_data"]
        D = z.attrs["_data"].expr
        nn = [s_ for s_ in d.expr.free_symbols if s_.name.startswith("n") and s_.name[1:].isdigit()] if isinstance(d, Num) else []
        if not isinstance(d, Num) or len(nn) != 1:
            ck.unk("R1", fi.where, "shifted data " + tag, "a single array term with one time index", repr(d)[:200])
            continue
        n_idx = nn[0]
        Z = F["FFTSHIFT"](F["FFT"](D * sp.exp(2 * sp.pi * sp.I * (df / SR) * n_idx), 0), F["Tup"](0))
        exp = F["IFFT"](F["IFFTSHIFT"](Z, F["Tup"](0)), 0)
        ck.eq("R1", fi.where, "shifted data " + tag,
              "== ifft(ifftshift(fftshift(fft(x * exp(+2*pi*i*df*t), 0), 0), 0), 0) with t = n/sample_rate", d, exp)
        stores = [t for t in ev.trace if t[0] == "store"]
        ck.same("R3", fi.where, "zero-fill target " + tag, "the zero-fill is applied to the fftshift-ed spectrum (between fftshift and ifftshift)",
                bool(stores) and all(isinstance(t[1], Num) and sp.simplify(t[1].expr - Z) == 0 for t in stores),
                found=(str(stores[0][1].expr)[:160] if stores else "no zero-fill store at all"), expected=str(Z)[:160], nontrivial=True)
        prec = [t for t in ev.trace if t[0] in ("exp-dtype", "precision-cast")]
        ck.same("R1", fi.where, "mixer precision " + tag, "the mixer phase is exponentiated at full precision before the cast to the signal dtype",
                not prec, found=str(prec)[:200], nontrivial=True)
        bm = [t for t in ev.trace if t[0] == "broadcast-mismatch"]
        ck.same("R1", fi.where, "mixer axis " + tag, "the sample index runs along the time axis (axis 0)", not bm, found=str(bm)[:160], nontrivial=True)
        if d.shape:
            ck.eq("R1", fi.where, "length " + tag, "the output has the input's length", d.shape[0], N)
        bad = meta_same(z, out)
        ck.same("R1", fi.where, "ledger " + tag, "type, sample rate, start time and frequency labels unchanged", out.cls is z.cls and not bad,
                found="; ".join(bad) or obj_summary(out), nontrivial=True)
    # guards
    zr = make_signal(prog, "RadioSignal", nchan=2)
    zb = make_signal(prog, "BasebandSignal", nchan=2, n=16)
    for label, args, exc in (("non-baseband signal", [zr, Num(df * Hz, kind="quantity")], "TypeError"),
                             ("shift that is not a frequency", [zb, Num(df / Hz, kind="quantity")], "ValueError"),
                             ("shift with as many axes as the signal", [zb, NdArr((1, 2, 1), [Num(Hz, kind="quantity"), Num(2 * Hz, kind="quantity")])], "ValueError")):
        try:
            ck.evaluator().call(fi, args, {})
            ck.same("R1", fi.where, f"freq_shift: {label}", f"is refused with {exc}", False, found="accepted")
        except Raised as e:
            ck.same("R1", fi.where, f"freq_shift: {label}", f"is refused with {exc}", e.exc_name == exc, found=str(e)[:140], nontrivial=True)
        except Unsupported as e:
            ck.unk("R1", fi.where, f"freq_shift: {label}", f"is refused with {exc}", str(e))

    # ------------------------------------------------------------------ R2: coverage.  shift values are given in bins: df = a * sample_rate / N
    n_time = 16

    def make_args(shp, vals, sample_shape, n):
        z = make_signal(prog, "BasebandSignal", n=n, nchan=sample_shape[0], extra=sample_shape[1:], dtype="complex128")
        elems = [Num(sp.Rational(v.numerator, v.denominator) * SR * Hz / n, kind="quantity") for v in vals]
        sh = elems[0] if not shp else NdArr(shp, elems)
        return [z, sh], {}
    run_coverage(ck, prog, fi, "R2", make_args, n_time, lambda arr: "FFTSHIFT" in str(arr.expr) or "Opq" in str(arr.expr), "freq_shift (values in bins)")
    run.extra["decided_by"] = ck.how
