"""C04 - freq_shift moves the spectrum by the given amount, zeroing what leaves the band."""
from __future__ import annotations

from fractions import Fraction
import sympy as sp

from ..spec import Checker, FR, obj_summary
from ..sigmodel import make_signal, N, NCHAN, CF, BW, SR, T0
from ..values import Num, StrV, ObjV, NONE, Hz, F, NONE_S, TupleV, SliceV, BoolV, NoneV
from ..extapi import NdArr
from ..symeval import Raised
from ..values import Unsupported
from .c13 import meta_same
from .c03 import run_coverage

EXPLANATION = (
    "freq_shift is evaluated by the term evaluator with a symbolic scalar frequency shift: the result must be "
    "ifft(ifftshift(Z, axis 0), axis 0) where Z is fftshift(fft(x * exp(+2*pi*i*(df/sample_rate)*n), axis 0), axis 0) with the "
    "zero-fill applied to Z (between fftshift and ifftshift), the mixer exponent dimensionless and evaluated at full precision, "
    "no metadata override, and the class/unit guards raising. With concrete shift arrays of every broadcastable shape on a small "
    "concrete sample shape the recorded zero-fill stores are expanded to (bin, element) pairs and must equal the statement's set "
    "(bins that wrapped in: the first ceil(a) / last ceil(|a|) shifted bins, a = df*N/sample_rate, for every element the shift "
    "broadcasts to; everything for |a| >= N). For concrete per-element shift arrays on symbolic-length signals (NumPy and Dask) the element index of the shift must sit on the matching sample axis of the result term and every element must be mixed with its own exp(+2*pi*i*df_elem*t). Value accuracy and the boundary-bin convention are not decided."
)


def concretize_index(idx, pt):
    """The time-axis slice (start, stop) a recorded store index denotes at a valuation of the symbols; None if undecidable."""
    from ..symeval import PhiV
    from .. import terms as _T

    def val(v):
        if isinstance(v, NoneV):
            return None
        e = sp.sympify(v.expr).subs(pt)
        try:
            r = _T.evaluate(e, env={})
        except Exception:
            return "?"
        r = sp.sympify(r)
        if not (r.is_number and r.is_real and r == sp.floor(r)):
            return "?"
        return int(r)

    def pick(v):
        while isinstance(v, PhiV):
            c = sp.sympify(v.cond).subs(pt)
            try:
                c = bool(sp.simplify(c)) if c not in (sp.true, sp.false) else bool(c)
            except Exception:
                return None
            v = v.a if c else v.b
        return v
    first = idx.items[0] if isinstance(idx, TupleV) else idx
    first = pick(first)
    if not isinstance(first, SliceV):
        return None
    a_, b_ = val(first.start), val(first.stop)
    if "?" in (a_, b_) or not isinstance(first.step, NoneV):
        return None
    return (a_, b_)


def ieee_whole_bins(ck, prog, fi):
    """Whole-bin shifts in double precision.  The inputs below are doubles for which df*N/sample_rate is EXACTLY the integer k in
    real arithmetic, so the statement's "exactly a circular move" applies; the number of bins the source computes (1/sample_rate,
    times df, times N: three rounded operations, folded here with IEEE round-to-nearest-even exactly as written in the source)
    comes out as k + 2^-50 or so for many of them.  The zero-filled range must still be the k wrapped bins: one bin more
    destroys a bin of legitimate content."""
    cases = [(5, 100, sp.Rational(3, 4), 15), (5, 100, sp.Rational(3, 2), 30), (10, 100, sp.Rational(3, 2), 15), (5, 1000, sp.Rational(3, 8), 75),
             (5, 100, -sp.Rational(3, 4), -15), (10, 1000, -sp.Rational(3, 2), -150), (1, 128, sp.Rational(7, 128), 7), (3, 96, sp.Rational(5, 32), 5),
             (7, 64, -sp.Rational(7, 8), -8), (1000, 100, sp.Integer(30), 3)]
    bad, unk, n = [], None, 0
    for sr, nlen, df_, k in cases:
        assert sp.Rational(df_) * nlen / sr == k
        z = make_signal(prog, "BasebandSignal", n=nlen, nchan=1, sample_rate=Num(sp.Integer(sr) * Hz, kind="quantity", unit=Hz, isfloat=True), dtype="complex128")
        ev = ck.evaluator()
        ev.float_fold = True
        try:
            ev.call(fi, [z, Num(df_ * Hz, kind="quantity", unit=Hz, isfloat=True)], {})
        except (Raised, Unsupported) as e:
            unk = f"sample_rate {sr} Hz, N {nlen}, df {df_} Hz: {str(e)[:160]}"
            break
        stores = [t for t in ev.trace if t[0] == "store"]
        got = concretize_index(stores[0][2], {}) if stores else None
        want = (k, None) if k < 0 else (None, k)
        if got is None:
            unk = f"sample_rate {sr} Hz, N {nlen}, df {df_} Hz: zero-fill index not concrete ({str(stores[0][2])[:100] if stores else 'no store'})"
            break
        n += 1
        if got != want:
            bad.append(f"sample_rate {sr} Hz, N = {nlen}, df = {df_} Hz (exactly {k} bins): zero-fills [{got[0]}:{got[1]}], the wrapped bins are [{want[0]}:{want[1]}]")
    if unk:
        ck.unk("R2", fi.where, "zero-fill extent for exact whole-bin shifts in double precision", "evaluates on concrete doubles", unk)
    else:
        ck.same("R2", fi.where, "zero-fill extent for exact whole-bin shifts in double precision",
                "a shift of exactly k bins zero-fills exactly the k wrapped bins, although the bin count computed in doubles is k only to within rounding",
                not bad, found="; ".join(bad[:3]) + (f" (+{len(bad) - 3} more)" if len(bad) > 3 else "") if bad else None, nontrivial=True,
                note=f"{n} witnesses; {len(bad)} wrong")
    ck.run.floor("R2", "whole-bin witnesses evaluated in double precision", n, 10 if not unk else 0)


def inband_oracle(df):
    """The formula scenarios shift by less than the bandwidth (the out-of-band case has its own rule): a test that compares the
    shift with the sample rate and has one answer for every in-band shift of either sign is decided that way; tests that depend on
    the sign or size of an in-band shift (which side is zero-filled, by how many bins) stay undecided and are if-converted."""
    def o(c, node, fr):
        try:
            if not isinstance(c, sp.Basic) or not c.free_symbols or not c.free_symbols <= {df, SR, Hz} or SR not in c.free_symbols:
                return None
            vals = set()
            for srv in (sp.Integer(10)**6, sp.Integer(4099)):
                for frac_ in ((sp.Rational(1, 8), sp.Rational(-1, 8), sp.Rational(1, 1000), sp.Rational(-999, 1000), sp.Rational(999, 1000))
                              if df in c.free_symbols else (0,)):
                    v = c.subs({df: frac_ * srv, SR: srv, Hz: 1})
                    v = sp.simplify(v)
                    if v not in (sp.true, sp.false):
                        return None
                    vals.add(bool(v))
            if len(vals) == 1:
                return vals.pop()
        except Exception:
            return None
        return None
    return o


def check(run, prog):
    run.explanation = EXPLANATION
    run.assumptions += ["real-number semantics; fft/ifft/fftshift as opaque injective operators"]
    ck = Checker(run, prog)
    fi = prog.func("freq_shift")
    run.touched(fi)
    df = sp.Symbol("df", real=True)
    for clsname, dtype in (("BasebandSignal", "complex128"), ("DualPolarizationSignal", "complex64")):
        z = make_signal(prog, clsname, nchan=2, dtype=dtype)
        tag = f"[{clsname}, {dtype}]"
        ev = ck.evaluator(oracle=inband_oracle(df))
        out = ck.attempt("R1", fi.where, "freq_shift(z, df) " + tag, "evaluates with consistent units", lambda: ev.call(fi, [z, Num(df * Hz, kind="quantity")], {}),
                         ev=ev, allowed_guards=[])
        if out is None:
            continue
        from ..symeval import PhiV
        if isinstance(out, PhiV):
            # a shortcut taken for some shifts (say, everything out of band): every arm must return the caller's kind of signal with the
            # ledger untouched; the formula below is then checked on the arm taken by an in-band shift
            arms, todo = [], [(sp.true, out)]
            while todo:
                c_, v_ = todo.pop()
                if isinstance(v_, PhiV):
                    cond = v_.cond if isinstance(v_.cond, sp.Basic) else sp.Symbol(str(v_.cond))
                    todo += [(sp.And(c_, cond), v_.a), (sp.And(c_, sp.Not(cond)), v_.b)]
                else:
                    arms.append((c_, v_))
            chosen = None
            for c_, v_ in arms:
                okv = isinstance(v_, ObjV) and v_.cls is z.cls and not meta_same(z, v_)
                ck.same("R1", fi.where, f"ledger of the result returned when {str(c_)[:80]} " + tag, "type, sample rate, start time and frequency labels unchanged on every return path",
                        okv, found=(v_.cls.name if isinstance(v_, ObjV) else repr(v_)[:60]) + (": " + "; ".join(meta_same(z, v_)) if isinstance(v_, ObjV) and meta_same(z, v_) else ""),
                        nontrivial=True)
                try:
                    inband = c_.subs(df, SR / 8)
                    if inband == sp.true or (inband.free_symbols and sp.simplify(inband.subs(SR, 1000)) == sp.true):
                        chosen = v_
                except Exception:
                    pass
            if not isinstance(chosen, ObjV):
                ck.unk("R1", fi.where, "freq_shift(z, df) " + tag, "the return path of an in-band shift can be singled out", str(out)[:160])
                continue
            out = chosen
        d = out.attrs["_data"]
        D = z.attrs["_data"].expr
        nn = [s_ for s_ in d.expr.free_symbols if s_.name.startswith("n") and s_.name[1:].isdigit()] if isinstance(d, Num) else []
        if not isinstance(d, Num) or len(nn) != 1:
            ck.unk("R1", fi.where, "shifted data " + tag, "a single array term with one time index", repr(d)[:200])
            continue
        n_idx = nn[0]
        Z = F["FFTSHIFT"](F["FFT"](D * sp.exp(2 * sp.pi * sp.I * (df / SR) * n_idx), 0), F["Tup"](0))
        exp = F["IFFT"](F["IFFTSHIFT"](Z, F["Tup"](0)), 0)
        ck.eq("R1", fi.where, "shifted data " + tag,
              "== ifft(ifftshift(fftshift(fft(x * exp(+2*pi*i*df*t), 0), 0), 0), 0) with t = n/sample_rate", d, exp)
        stores = [t for t in ev.trace if t[0] == "store"]
        ck.same("R3", fi.where, "zero-fill target " + tag, "the zero-fill is applied to the fftshift-ed spectrum (between fftshift and ifftshift)",
                bool(stores) and all(isinstance(t[1], Num) and sp.simplify(t[1].expr - Z) == 0 for t in stores),
                found=(str(stores[0][1].expr)[:160] if stores else "no zero-fill store at all"), expected=str(Z)[:160], nontrivial=True)
        # zero-fill extent for a scalar shift, decided at chosen shifts in bins (small, fractional, whole, and tens of thousands of
        # bins with a small fraction, where a relative-tolerance "snap to whole bins" would change the extent)
        if stores:
            bad_ext, unk_ext = None, None
            for a_bins in (sp.Rational(5, 2), sp.Rational(-7, 2), sp.Rational(1, 3), sp.Integer(7), sp.Integer(-4), sp.Rational(120001, 4), -sp.Rational(987655, 8),
                           sp.Rational(-1, 5)):
                nval = sp.Integer(65536)
                pt = {N: nval, SR: sp.Integer(1), df: a_bins / nval, Hz: sp.Integer(1)}
                got = concretize_index(stores[0][2], pt)
                if got is None:
                    unk_ext = f"store index not decidable at {a_bins} bins: {str(stores[0][2])[:120]}"
                    break
                want = (int(sp.floor(a_bins)), None) if a_bins < 0 else (None, int(sp.ceiling(a_bins)))
                if got != want:
                    bad_ext = f"shift of {a_bins} bins (N = {nval}): zero-fills [{got[0]}:{got[1]}], expected [{want[0]}:{want[1]}]"
                    break
            if unk_ext:
                ck.unk("R2", fi.where, "zero-fill extent " + tag, "first ceil(a) / last ceil(|a|) shifted bins for a shift of a bins", unk_ext)
            else:
                ck.same("R2", fi.where, "zero-fill extent (scalar shift, chosen magnitudes) " + tag,
                        "the zero-filled range is [:ceil(a)] for a > 0 and [floor(a):] for a < 0 bins, also for shifts of tens of thousands of bins with a small fraction",
                        bad_ext is None, found=bad_ext, nontrivial=True)
        prec = [t for t in ev.trace if t[0] in ("exp-dtype", "precision-cast")]
        ck.same("R1", fi.where, "mixer precision " + tag, "the mixer phase is exponentiated at full precision before the cast to the signal dtype",
                not prec, found=str(prec)[:200], nontrivial=True)
        bm = [t for t in ev.trace if t[0] == "broadcast-mismatch"]
        ck.same("R1", fi.where, "mixer axis " + tag, "the sample index runs along the time axis (axis 0)", not bm, found=str(bm)[:160], nontrivial=True)
        if d.shape:
            ck.eq("R1", fi.where, "length " + tag, "the output has the input's length", d.shape[0], N)
        bad = meta_same(z, out)
        ck.same("R1", fi.where, "ledger " + tag, "type, sample rate, start time and frequency labels unchanged", out.cls is z.cls and not bad,
                found="; ".join(bad) or obj_summary(out), nontrivial=True)
    ieee_whole_bins(ck, prog, fi)
    # ------------------------------------------------------------------ R1 per-element shifts (array shift, symbolic N), both back ends
    import itertools
    # shifts of a full bandwidth or more: whatever path produces the all-zero result, it is the caller's kind of signal with the
    # same ledger and dtype
    for clsname, dtype in (("BasebandSignal", "complex128"), ("DualPolarizationSignal", "complex64")):
        for label, dfv in (("2*sample_rate", 2 * SR), ("-3/2*sample_rate", -sp.Rational(3, 2) * SR), ("exactly sample_rate", SR)):
            z = make_signal(prog, clsname, nchan=2, dtype=dtype)
            tag = f"[{clsname}, {dtype}, df = {label}]"
            ev = ck.evaluator()
            out = ck.attempt("R1", fi.where, "freq_shift(z, df) " + tag, "evaluates for an out-of-band shift", lambda: ev.call(fi, [z, Num(dfv * Hz, kind="quantity")], {}),
                             ev=ev, allowed_guards=[])
            if out is None:
                continue
            badm = meta_same(z, out) if isinstance(out, ObjV) else ["not a signal"]
            dd = out.attrs.get("_data") if isinstance(out, ObjV) else None
            dt_ok = isinstance(dd, Num) and (dd.dtype is None or getattr(dd.dtype, "dotted", None) == getattr(z.attrs["_data"].dtype, "dotted", None))
            ck.same("R1", fi.where, "ledger " + tag, "type, dtype, sample rate, start time and frequency labels unchanged for an out-of-band shift",
                    isinstance(out, ObjV) and out.cls is z.cls and not badm and dt_ok,
                    found=(out.cls.name if isinstance(out, ObjV) else repr(out)[:60]) + ("; " + "; ".join(badm) if badm else "") + ("" if dt_ok else f"; dtype {getattr(dd, 'dtype', None)!r}"),
                    nontrivial=True)
    from fractions import Fraction
    from .. import terms
    arr_cases = [((2, 3), (2,), [Fraction(3, 2), Fraction(-2)]), ((2, 3), (2, 1), [Fraction(1), Fraction(-5, 2)]),
                 ((2, 3), (1, 3), [Fraction(1, 2), Fraction(-1, 2), Fraction(3)]), ((2, 2), (2,), [Fraction(3, 2), Fraction(-2)]),
                 ((2, 2), (1, 2), [Fraction(1, 2), Fraction(3)]), ((3,), (3,), [Fraction(1), Fraction(-7, 2), Fraction(2)]),
                 ((2, 3, 2), (2, 3), [Fraction(1), Fraction(2), Fraction(-3), Fraction(1, 2), Fraction(-1, 2), Fraction(7)])]
    n_arr = 0
    for backend in ("numpy", "dask"):
        for sample_shape, shp, vals in (arr_cases if backend == "numpy" else arr_cases[:2]):
            z = make_signal(prog, "BasebandSignal", nchan=sample_shape[0], extra=sample_shape[1:], dtype="complex128", backend=backend)
            tag = f"[{backend}, sample shape {sample_shape}, shift shape {shp} = {[str(v) for v in vals]} Hz]"
            ev = ck.evaluator(oracle=inband_oracle(df))
            sh = NdArr(shp, [Num(sp.Rational(v.numerator, v.denominator) * Hz, kind="quantity", unit=Hz) for v in vals])
            out = ck.attempt("R1", fi.where, "freq_shift(z, array) " + tag, "evaluates", lambda: ev.call(fi, [z, sh], {}), ev=ev, allowed_guards=[])
            if out is None:
                continue
            d = out.attrs["_data"]
            bm = [t for t in ev.trace if t[0] == "broadcast-mismatch"]
            if bm:
                ck.same("R1", fi.where, "array shift " + tag, "the shift array broadcasts against the sample shape (shift axis j <-> sample axis j)", False,
                        found=str(bm)[:160], nontrivial=True)
                continue
            if not isinstance(d, Num) or d.axes is None or d.shape is None or len(d.axes) != 1 + len(sample_shape):
                ck.unk("R1", fi.where, "array shift " + tag, "the shifted data is one indexed array term", repr(d)[:160])
                continue
            want_pos = {j + 1: k for j, k in enumerate(shp) if k > 1}
            got_pos = {i: ev.index_len.get(a_) for i, a_ in enumerate(d.axes) if a_ is not None and a_ in d.expr.free_symbols and a_.name.startswith("e")}
            ok_align = {i: sp.Integer(k) for i, k in want_pos.items()} == {i: sp.sympify(k) for i, k in got_pos.items()}
            ck.same("R1", fi.where, "array shift alignment " + tag, "shift axis j applies along sample axis j (array axis j+1), length-1 and missing axes broadcast",
                    ok_align, found=f"element indices on array axes {got_pos}", expected=str(want_pos), nontrivial=True)
            if not ok_align:
                continue
            D = z.attrs["_data"].expr
            nn = [s_ for s_ in d.expr.free_symbols if s_.name.startswith("n") and s_.name[1:].isdigit()]
            if len(nn) != 1:
                ck.unk("R1", fi.where, "array shift " + tag, "one time index in the mixer", str(d.expr)[:160])
                continue
            bad = None
            for combo in itertools.product(*[range(k) for k in shp]):
                sub = {d.axes[j + 1]: c for j, c in enumerate(combo) if shp[j] > 1}
                e = d.expr.subs(sub)
                e = e.replace(lambda t: t.func == F["Sel"] and t.args[0].is_Integer, lambda t: t.args[1 + int(t.args[0])])
                flat = 0
                for j, c in enumerate(combo):
                    flat = flat * shp[j] + c
                sv = sp.Rational(vals[flat].numerator, vals[flat].denominator)
                Zs = F["FFTSHIFT"](F["FFT"](D * sp.exp(2 * sp.pi * sp.I * (sv / SR) * nn[0]), 0), F["Tup"](0))
                exp_e = F["IFFT"](F["IFFTSHIFT"](Zs, F["Tup"](0)), 0)
                v = terms.equal(e, exp_e, seed=run.seed)
                if v.equal is not True:
                    bad = (combo, str(e)[:140], v.equal)
                    break
            n_arr += 1
            what = "for every element of the shift array the data of the elements it broadcasts to is mixed with exp(+2*pi*i*df_elem*t)"
            if bad is None or bad[2] is False:
                ck.same("R1", fi.where, "array shift values " + tag, what, bad is None, found=str(bad), nontrivial=True)
            else:
                ck.unk("R1", fi.where, "array shift values " + tag, what, str(bad))
    run.floor("R1", "array-shift cases decided", n_arr, 6)
    # guards
    zr = make_signal(prog, "RadioSignal", nchan=2)
    zb = make_signal(prog, "BasebandSignal", nchan=2, n=16)
    for label, args, exc in (("non-baseband signal", [zr, Num(df * Hz, kind="quantity")], "TypeError"),
                             ("shift that is not a frequency", [zb, Num(df / Hz, kind="quantity")], "ValueError"),
                             ("shift with as many axes as the signal", [zb, NdArr((1, 2, 1), [Num(Hz, kind="quantity"), Num(2 * Hz, kind="quantity")])], "ValueError")):
        try:
            ck.evaluator().call(fi, args, {})
            ck.same("R1", fi.where, f"freq_shift: {label}", f"is refused with {exc}", False, found="accepted")
        except Raised as e:
            ck.same("R1", fi.where, f"freq_shift: {label}", f"is refused with {exc}", e.exc_name == exc, found=str(e)[:140], nontrivial=True)
        except Unsupported as e:
            ck.unk("R1", fi.where, f"freq_shift: {label}", f"is refused with {exc}", str(e))

    # ------------------------------------------------------------------ R2: coverage.  shift values are given in bins: df = a * sample_rate / N
    n_time = 16

    def make_args(shp, vals, sample_shape, n):
        z = make_signal(prog, "BasebandSignal", n=n, nchan=sample_shape[0], extra=sample_shape[1:], dtype="complex128")
        from .c03 import NegZero
        elems = [Num(sp.Integer(0) * Hz, kind="quantity", isfloat=True, tag="negzero") if isinstance(v, NegZero)
                 else Num(sp.Rational(v.numerator, v.denominator) * SR * Hz / n, kind="quantity") for v in vals]
        sh = elems[0] if not shp else NdArr(shp, elems)
        return [z, sh], {}
    run_coverage(ck, prog, fi, "R2", make_args, n_time, lambda arr: "FFTSHIFT" in str(arr.expr) or "Opq" in str(arr.expr), "freq_shift (values in bins)")
    # the FFT routines work on (views of) the caller's data: they must never be given permission to overwrite their operand
    from ..structural import overwrite_report
    overwrite_report(ck, prog, "R1")
    run.extra["decided_by"] = ck.how
