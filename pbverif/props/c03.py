"""C03 - time_shift is a band-limited delay with exact zero-fill and no wrap-around."""
from __future__ import annotations

import itertools
import math
from fractions import Fraction
import sympy as sp

from ..spec import Checker, FR, obj_summary, nonzero_shift_oracle
from ..sigmodel import make_signal, N, NCHAN, CF, BW, SR, T0
from ..values import Num, StrV, ObjV, NONE, Hz, F, NONE_S, TupleV, SliceV, BoolV, ExtV, NoneV
from ..extapi import NdArr, StackV
from ..symeval import Raised
from ..values import Unsupported
from .. import terms
from .c13 import meta_same

EXPLANATION = (
    "time_shift is evaluated by the term evaluator (a) with a symbolic scalar shift on complex and real data and with a time "
    "Quantity: the shifted data term must be ifft(fft(x, axis 0) * exp(-2*pi*i*s*fftfreq(N)), axis 0) (real part for real "
    "input), with the ramp on axis 0, the exponent evaluated at full precision, the length unchanged and no metadata override; "
    "(b) with concrete shift arrays of every shape that broadcasts against a small concrete sample shape (scalar, fewer axes, "
    "explicit length-1 axes, full shape; mixed signs, fractional values, |s| >= N): the zero-fill stores recorded from the "
    "extracted loop are expanded to the set of (time index, sample element) pairs and must equal exactly the set the statement "
    "prescribes (first ceil(s) samples for s > 0, last ceil(|s|) for s < 0, for every element the shift broadcasts to); the crop "
    "bounds of crop=True must be max ceil / min floor over the elements.  For concrete per-element shift arrays on symbolic-length signals the element index of the shift must sit on the matching sample axis of the result term and every element must carry its own ramp; coverage cases are also generated beyond every size literal the function compares against, and zero sets are read from the returned data (index stores or explicit np.where masks). DFT accuracy is not decided."
)


def expected_zero_set(shift_of_elem, n, sample_shape):
    """{(t, elem)} that must be zero."""
    out = set()
    for e in itertools.product(*[range(k) for k in sample_shape]):
        s = shift_of_elem(e)
        if s == 0:
            continue
        if s < 0:
            a = math.floor(s)
            rng = range(*slice(a, None).indices(n))
        else:
            a = math.ceil(s)
            rng = range(*slice(None, a).indices(n))
        for t in rng:
            out.add((t, e))
    return out


def expand_store(ev, idx, n, sample_shape):
    """(time slice, per-axis index ...) -> set of (t, elem); None if not understood."""
    items = idx.items if isinstance(idx, TupleV) else [idx]
    if not items or not isinstance(items[0], SliceV):
        return None
    g = lambda x: None if isinstance(x, NoneV) else ev.concrete_int(x)  # noqa: E731
    ts = items[0]
    for x in (ts.start, ts.stop, ts.step):
        if not isinstance(x, NoneV) and ev.concrete_int(x) is None:
            return None
    trange = range(*slice(g(ts.start), g(ts.stop), g(ts.step)).indices(n))
    per_axis = []
    rest = items[1:]
    for ax, k in enumerate(sample_shape):
        if ax < len(rest):
            it = rest[ax]
            if isinstance(it, SliceV):
                per_axis.append(list(range(*slice(g(it.start), g(it.stop), g(it.step)).indices(k))))
            else:
                c = ev.concrete_int(it)
                if c is None:
                    return None
                if c < 0:
                    c += k
                if not 0 <= c < k:
                    return "IndexError"
                per_axis.append([c])
        else:
            per_axis.append(list(range(k)))
    if len(rest) > len(sample_shape):
        return "IndexError"
    out = set()
    for e in itertools.product(*per_axis):
        for t in trange:
            out.add((t, e))
    return out


def bcast_value(arr_shape, flat, sample_shape):
    """value of the shift for a sample element under numpy broadcasting (shift axes are left-aligned with the
    sample axes after time_shift's own re-indexing: shape (k1, .., km) applies to the first m sample axes)."""
    def f(e):
        idx = 0
        stride = 1
        strides = []
        for s in reversed(arr_shape):
            strides.insert(0, stride)
            stride *= s
        for ax, s in enumerate(arr_shape):
            c = e[ax] if s != 1 else 0
            idx += c * strides[ax]
        return flat[idx]
    return f


class NegZero(Fraction):
    """The IEEE negative zero as a shift value (what negating a delay array that contains 0.0 produces): numerically 0, sign bit set."""
    def __str__(self):
        return "-0.0"


def shift_num(v, unit=None):
    """The evaluator value of one shift entry."""
    if isinstance(v, NegZero):
        return Num(sp.Integer(0) * (unit if unit is not None else 1), isfloat=True, tag="negzero", **({"kind": "quantity", "unit": unit} if unit is not None else {}))
    e = sp.Rational(v.numerator, v.denominator)
    return Num(e * unit, kind="quantity", unit=unit) if unit is not None else Num(e)


def coverage_cases(tier, fi=None):
    """[(sample_shape, shift shape, flat shift values)].  Besides the small shapes, one case per integer literal that the
    function compares a size/length against (a vectorised fast path behind `shift.size > 32`, say) is generated on the far
    side of that literal, so that both arms of such a test are examined."""
    import ast as _ast
    F_ = Fraction
    ss = (2, 3)
    cases = []
    cases.append((ss, (), [F_(5, 2)]))
    cases.append((ss, (), [F_(-7, 2)]))
    cases.append((ss, (), [F_(20)]))            # |s| >= N
    cases.append((ss, (2,), [F_(3, 2), F_(-2)]))
    cases.append((ss, (2, 1), [F_(1), F_(-5, 2)]))
    cases.append((ss, (1, 3), [F_(1, 2), F_(-1, 2), F_(3)]))
    cases.append((ss, (2, 3), [F_(1), F_(-1), F_(5, 2), F_(-5, 2), F_(0), F_(4)]))
    cases.append((ss, (1,), [F_(-3, 2)]))
    cases.append((ss, (1, 1), [F_(7, 2)]))
    cases.append((ss, (), [F_(-19)]))           # N < |s| < 2N: a start index of N + floor(s) would be negative
    cases.append((ss, (2,), [F_(-37, 2), F_(25)]))
    cases.append((ss, (2,), [NegZero(0), F_(3)]))          # -0.0 is a zero shift: nothing of that element is zero-filled
    cases.append((ss, (1, 3), [F_(-2), NegZero(0), F_(0)]))
    sizes = {40}
    if fi is not None:
        for n in _ast.walk(fi.node):
            if isinstance(n, _ast.Compare):
                for c in [n.left] + list(n.comparators):
                    if isinstance(c, _ast.Constant) and isinstance(c.value, int) and not isinstance(c.value, bool) and 4 <= c.value <= 512:
                        sizes.add(c.value + 1)
                        sizes.add(max(c.value - 1, 2))
    cyc = [F_(3, 2), F_(-2), F_(5, 2), F_(1), F_(-1, 2), F_(0), F_(17), F_(-16)]
    for k in sorted(sizes):
        if k <= 6:
            continue
        cases.append(((k,), (k,), [cyc[i % len(cyc)] for i in range(k)]))
    big = max(sizes)
    if big % 2 == 0 or True:
        a = 2
        b = -(-big // 2)
        cases.append(((a, b), (a, b), [cyc[(3 * i) % len(cyc)] for i in range(a * b)]))
        cases.append(((a, b), (1, b), [cyc[(i + 1) % len(cyc)] for i in range(b)]))
    if tier == "thorough":
        cases.append((ss, (2,), [F_(-18), F_(17)]))
        cases.append((ss, (1, 3), [F_(-16), F_(16), F_(1, 3)]))
        cases.append((ss, (2, 3), [F_(-1, 4), F_(1, 4), F_(15), F_(-15), F_(16), F_(-16)]))
    return cases


def mask_cells(mask, which, n, sample_shape):
    """Cells (t, elem) an np.where(mask, a, b) takes from the *scalar* side: mask broadcast against (n, *sample_shape)."""
    full = (n,) + tuple(sample_shape)
    if mask.ndim > len(full):
        return None
    shp = (1,) * (len(full) - mask.ndim) + tuple(mask.shape)
    for a, b in zip(shp, full):
        if a not in (1, b):
            return None
    strides, acc = [], 1
    for s_ in reversed(shp):
        strides.insert(0, 0 if s_ == 1 else acc)
        acc *= s_
    out = set()
    for combo in itertools.product(*[range(k) for k in full]):
        v = mask.items[sum(c * t for c, t in zip(combo, strides))]
        if not isinstance(v, BoolV):
            return None
        takes_data = v.b if which == "true" else (not v.b)
        if not takes_data:
            out.add((combo[0], tuple(combo[1:])))
    return out


def run_coverage(ck, prog, fi, rule, make_args, n_time, target_pred, label, scale=1):
    """Shared by C03/C04: evaluates `fi` for each concrete shift array and compares the cells of the *returned* data that
    were set to zero - through recorded index stores into the array the result holds, or through an np.where with an
    explicit mask - with the statement's zero set.  scale: samples (C03) or bins (C04) per unit of the given shift value."""
    cases = coverage_cases(ck.run.tier, fi)
    n_cases = 0
    for sample_shape, shp, vals in cases:
        n_cases += 1
        shown = [str(v) for v in vals[:8]] + (["..."] if len(vals) > 8 else [])
        tag = f"{label}: shift shape {shp or 'scalar'} values {shown} on sample shape {sample_shape}, N={n_time}"
        ev = ck.evaluator(oracle=nonzero_shift_oracle())
        args, kw = make_args(shp, vals, sample_shape, n_time)
        out = ck.attempt(rule, fi.where, tag, "evaluates", lambda: ev.call(fi, args, kw), ev=ev, allowed_guards=[])
        if out is None:
            continue
        res = out.attrs.get("_data") if isinstance(out, ObjV) else out
        if not isinstance(res, Num):
            ck.unk(rule, fi.where, tag, "the result holds one data array term", repr(res)[:120])
            continue
        got = set()
        bad_store = None
        # peel np.where(mask, data, 0) layers off the returned term
        base = res.expr
        masks = {t[1]: t for t in ev.trace if t[0] == "where-mask"}
        n_masks = 0
        while base.func == F["Where"] and base.args[0] in masks:
            t = masks[base.args[0]]
            other = t[5]
            if not ((isinstance(other, Num) and other.expr == 0) or (isinstance(other, BoolV) and not other.b)):
                bad_store = f"np.where fills with {other!r}, not zero"
                break
            cells = mask_cells(t[2], t[3], n_time, sample_shape)
            if cells is None:
                bad_store = "store index not understood"
                break
            got |= cells
            n_masks += 1
            base = base.args[1] if t[3] == "true" else base.args[2]
        # a result that IS a freshly made all-zero array (np.zeros / np.zeros_like, never stored into): every cell is zero
        for sym_, fill_, dims_, _node in getattr(ev, "fresh_arrays", []):
            if base == sym_ and fill_ == 0 and not [t for t in ev.trace if t[0] == "store" and getattr(t[1], "expr", None) == sym_]:
                import itertools as _it
                got |= {(t_, e_) for t_ in range(n_time) for e_ in _it.product(*[range(k) for k in sample_shape])}
        def same_array(a_, b_, when):
            """a_ (the target of a store logged at trace position `when`) and b_ (what the result holds) are the same array object, one is a
            view of the other, or b_ is a copy of a_ taken AFTER that store (stores are seen through views, and by later copies only)."""
            chain = lambda x_: [x_] + ([] if getattr(x_, "base", None) is None else chain(x_.base))  # noqa: E731
            ca = chain(a_)
            todo, seen_ = [b_], set()
            while todo:
                y_ = todo.pop()
                if id(y_) in seen_:
                    continue
                seen_.add(id(y_))
                if any(x_ is y_ for x_ in ca):
                    return True
                if getattr(y_, "base", None) is not None:
                    todo.append(y_.base)
                cf = getattr(y_, "copied_from", None)
                if cf is not None and when < cf[1]:
                    todo.append(cf[0])
            return False
        pos_of = {id(t): i_ for i_, t in enumerate(ev.trace)}
        stores = [t for t in ev.trace if t[0] == "store" and target_pred(t[1]) and (t[1].expr == base or base.has(t[1].expr))
                  and not (t[1].expr == res.expr and not same_array(t[1], res, pos_of[id(t)]))]
        for _, arr, idx, val, node in stores:
            if bad_store:
                break
            if not (isinstance(val, Num) and val.expr == 0):
                bad_store = f"stores a non-zero value {val!r}"
                break
            s = expand_store(ev, idx, n_time, sample_shape)
            if s is None:
                bad_store = "store index not understood"
                break
            if s == "IndexError":
                bad_store = "store index out of range for the sample shape (IndexError at run time)"
                got = None
                break
            got |= s
        exp = expected_zero_set(lambda e: bcast_value(shp, [v * scale for v in vals], sample_shape)(e) if shp else vals[0] * scale,
                                n_time, sample_shape)
        if bad_store == "store index not understood":
            ck.unk(rule, fi.where, tag, "zero-fill stores are basic index stores or explicit masks", bad_store)
            continue
        if got is None:
            ck.same(rule, fi.where, tag, "zero-fill covers exactly the samples whose source lies outside the input", False, found=bad_store,
                    nontrivial=True)
            continue
        missing = sorted(exp - got)[:4]
        extra = sorted(got - exp)[:4]
        ck.same(rule, fi.where, tag,
                "the zero-filled (time, element) set of the returned data equals the statement's: first ceil(s) / last ceil(|s|) samples of every element the shift broadcasts to",
                not missing and not extra and bad_store is None,
                found=(bad_store or "") + (f" not zeroed: {missing}" if missing else "") + (f" zeroed but should be kept: {extra}" if extra else "")
                + f" [{len(stores)} stores, {n_masks} masks, {len(got)} cells]",
                expected=f"{len(exp)} cells", nontrivial=True)
    ck.run.floor(rule, "zero-fill coverage cases", n_cases, 9)


def check(run, prog):
    run.explanation = EXPLANATION
    run.assumptions += ["real-number semantics; fft/ifft as opaque injective operators", "numpy basic-index store semantics"]
    ck = Checker(run, prog)
    fi = prog.func("time_shift")
    run.touched(fi)
    s = sp.Symbol("s", real=True)
    kb = sp.Symbol("kbin", integer=True)

    # ------------------------------------------------------------------ R1: the multiplier
    scen = [("BasebandSignal", "complex128", Num(s), s, "samples"), ("Signal", "float64", Num(s), s, "samples"),
            ("BasebandSignal", "complex64", Num(sp.Symbol("sq", real=True) / Hz, kind="quantity"), sp.Symbol("sq", real=True) * SR, "time Quantity"),
            ("DualPolarizationSignal", "complex128", Num(s), s, "samples"),
            ("Signal", "complex64", Num(sp.Symbol("sq", real=True) / Hz, kind="quantity"), sp.Symbol("sq", real=True) * SR, "time Quantity"),
            ("IntensitySignal", "float64", Num(sp.Symbol("sq", real=True) / Hz, kind="quantity"), sp.Symbol("sq", real=True) * SR, "time Quantity"),
            ("BasebandSignal:dask", "complex128", Num(s), s, "samples"),
            ("Signal", "int16", Num(s), s, "samples")]
    for clsname, dtype, shiftv, s_eff, what in scen:
        backend = "dask" if clsname.endswith(":dask") else "numpy"
        clsname = clsname.split(":")[0]
        z = make_signal(prog, clsname, nchan=2, dtype=dtype, backend=backend)
        tag = f"[{clsname}, {backend}, {dtype}, shift in {what}]"
        ev = ck.evaluator(oracle=nonzero_shift_oracle())
        out = ck.attempt("R1", fi.where, "time_shift(z, s) " + tag, "evaluates", lambda: ev.call(fi, [z, shiftv], {}), ev=ev, allowed_guards=[])
        if out is None:
            continue
        d = out.attrs["_data"]
        D = z.attrs["_data"].expr
        core = F["IFFT"](F["FFT"](D, 0) * sp.exp(-2 * sp.pi * sp.I * s_eff * kb / N), 0)
        exp = core if "complex" in dtype else sp.re(core)
        if not isinstance(d, Num):
            ck.unk("R1", fi.where, "shifted data " + tag, "a single array term", repr(d)[:160])
            continue
        ck.eq("R1", fi.where, "shifted data " + tag,
              "== ifft(fft(x, axis 0) * exp(-2*pi*i*s*k/N), axis 0)" + ("" if "complex" in dtype else ", real part for real input"), d, exp)
        prec = [t for t in ev.trace if t[0] in ("exp-dtype", "precision-cast")]
        ck.same("R1", fi.where, "ramp precision " + tag, "the phase ramp is exponentiated at full precision before any cast", not prec,
                found=str(prec)[:160], nontrivial=True)
        # the "nothing to do" test must look at the shift in samples: astropy's allclose applies its absolute tolerance (1e-8) in
        # the Quantity's own unit, so a 5 ns shift given in seconds would count as zero on a GHz-rate signal
        from ..extapi import dim_of
        zt = [t for t in ev.trace if t[0] == "allclose" and t[4] == "time_shift" and isinstance(t[1], Num)]
        dimensional = [t for t in zt if dim_of(sp.sympify(t[1].expr)) not in ({}, None) or t[1].kind == "quantity"]
        ck.same("R1", fi.where, "zero-shift test " + tag, "the early-exit test compares the shift in samples (a dimensionless number), never a Quantity in the caller's unit",
                not dimensional, found=str([str(t[1].expr)[:60] for t in dimensional]), nontrivial=bool(zt))
        # zero-fill extent of the scalar shift at chosen magnitudes: small, fractional, whole, and tens of thousands of samples with a
        # small fraction (where a relative-tolerance "snap to whole samples" would change the extent and the delay)
        stores = [t for t in ev.trace if t[0] == "store"]
        free = [x for x in sp.sympify(s_eff).free_symbols if x.name in ("s", "sq")]
        if stores and len(free) == 1 and "int" not in dtype:
            from .c04 import concretize_index
            bad_ext, unk_ext = None, None
            for a_s in (sp.Rational(5, 2), sp.Rational(-7, 2), sp.Rational(1, 3), sp.Integer(7), sp.Integer(-4), sp.Rational(1000003, 10), -sp.Rational(400001, 8),
                        sp.Rational(700005, 100000), sp.Rational(-1, 5)):
                nval = sp.Integer(2 ** 18)
                sol = sp.solve(sp.Eq(sp.sympify(s_eff).subs({N: nval, SR: 1, Hz: 1}), a_s), free[0])
                if len(sol) != 1:
                    unk_ext = f"cannot choose the shift symbol for {a_s} samples"
                    break
                pt = {N: nval, SR: sp.Integer(1), Hz: sp.Integer(1), free[0]: sol[0]}
                got = concretize_index(stores[0][2], pt)
                if got is None:
                    unk_ext = f"store index not decidable at {a_s} samples: {str(stores[0][2])[:120]}"
                    break
                want = (int(sp.floor(a_s)), None) if a_s < 0 else (None, int(sp.ceiling(a_s)))
                if got != want:
                    bad_ext = f"shift of {a_s} samples (N = {nval}): zero-fills [{got[0]}:{got[1]}], expected [{want[0]}:{want[1]}]"
                    break
            if unk_ext:
                ck.unk("R2", fi.where, "zero-fill extent " + tag, "first ceil(s) / last ceil(|s|) samples for a shift of s samples", unk_ext)
            else:
                ck.same("R2", fi.where, "zero-fill extent (scalar shift, chosen magnitudes) " + tag,
                        "the zero-filled range is [:ceil(s)] for s > 0 and [floor(s):] for s < 0, also for shifts of tens of thousands of samples with a small fraction",
                        bad_ext is None, found=bad_ext, nontrivial=True)
        bm = [t for t in ev.trace if t[0] == "broadcast-mismatch"]
        ck.same("R1", fi.where, "ramp axis " + tag, "the frequency ramp lies along the time axis (axis 0) and broadcasts over the sample shape",
                not bm, found=str(bm)[:160], nontrivial=True)
        if d.shape:
            ck.eq("R1", fi.where, "length " + tag, "the output has the input's length", d.shape[0], N)
        bad = meta_same(z, out)
        ck.same("R4", fi.where, "ledger " + tag, "metadata unchanged (no override), same class", out.cls is z.cls and not bad,
                found="; ".join(bad) or obj_summary(out), nontrivial=True)
    # ------------------------------------------------------------------ R1 per-element shifts (array shift, symbolic N)
    arr_cases = [((2, 3), (2,), [Fraction(3, 2), Fraction(-2)]), ((2, 3), (2, 1), [Fraction(1), Fraction(-5, 2)]),
                 ((2, 3), (1, 3), [Fraction(1, 2), Fraction(-1, 2), Fraction(3)]),
                 ((2, 3), (2, 3), [Fraction(1), Fraction(-1), Fraction(5, 2), Fraction(-5, 2), Fraction(1, 4), Fraction(4)]),
                 ((2, 2), (2,), [Fraction(3, 2), Fraction(-2)]), ((2, 2), (1, 2), [Fraction(1, 2), Fraction(3)]), ((3,), (3,), [Fraction(1), Fraction(-7, 2), Fraction(2)]),
                 ((2, 3, 2), (2,), [Fraction(5, 2), Fraction(-1)]), ((2, 3, 2), (2, 3), [Fraction(1), Fraction(2), Fraction(-3), Fraction(1, 2), Fraction(-1, 2), Fraction(7)])]
    if run.tier == "quick":
        arr_cases = arr_cases[:3] + arr_cases[4:6] + arr_cases[7:]
    n_arr = 0
    for backend in ("numpy", "dask"):
        for sample_shape, shp, vals in (arr_cases if backend == "numpy" else arr_cases[:2]):
            z = make_signal(prog, "Signal", extra=sample_shape, dtype="complex128", backend=backend)
            tag = f"[{backend}, sample shape {sample_shape}, shift shape {shp} = {[str(v) for v in vals]}]"
            ev = ck.evaluator(oracle=nonzero_shift_oracle())
            sh = NdArr(shp, [Num(sp.Rational(v.numerator, v.denominator)) for v in vals])
            out = ck.attempt("R1", fi.where, "time_shift(z, array) " + tag, "evaluates", lambda: ev.call(fi, [z, sh], {}), ev=ev, allowed_guards=[])
            if out is None:
                continue
            d = out.attrs["_data"]
            bm = [t for t in ev.trace if t[0] == "broadcast-mismatch"]
            if bm:
                ck.same("R1", fi.where, "array shift " + tag, "the shift array broadcasts against the sample shape (shift axis j <-> sample axis j)", False,
                        found=str(bm)[:160], nontrivial=True)
                continue
            if not isinstance(d, Num) or d.axes is None or d.shape is None or len(d.axes) != 1 + len(sample_shape):
                ck.unk("R1", fi.where, "array shift " + tag, "the shifted data is one indexed array term", repr(d)[:160])
                continue
            # which array axis carries which shift axis
            want_pos = {j + 1: k for j, k in enumerate(shp) if k > 1}
            got_pos = {i: ev.index_len.get(a_) for i, a_ in enumerate(d.axes) if a_ is not None and a_ in d.expr.free_symbols}
            ok_align = {i: sp.Integer(k) for i, k in want_pos.items()} == {i: sp.sympify(k) for i, k in got_pos.items()}
            ck.same("R1", fi.where, "array shift alignment " + tag, "shift axis j applies along sample axis j (array axis j+1), length-1 and missing axes broadcast",
                    ok_align, found=f"element indices on array axes {got_pos}", expected=str(want_pos), nontrivial=True)
            if not ok_align:
                continue
            D = z.attrs["_data"].expr
            bad = None
            for combo in itertools.product(*[range(k) for k in shp]):
                sub = {d.axes[j + 1]: c for j, c in enumerate(combo) if shp[j] > 1}
                e = d.expr.subs(sub)
                e = e.replace(lambda t: t.func == F["Sel"] and t.args[0].is_Integer, lambda t: t.args[1 + int(t.args[0])])
                flat = 0
                for j, c in enumerate(combo):
                    flat = flat * shp[j] + c
                sv = sp.Rational(vals[flat].numerator, vals[flat].denominator)
                exp_e = F["IFFT"](F["FFT"](D, 0) * sp.exp(-2 * sp.pi * sp.I * sv * kb / N), 0)
                v = terms.equal(e, exp_e, seed=run.seed)
                if v.equal is not True:
                    bad = (combo, str(e)[:120], v.equal)
                    break
            n_arr += 1
            what = "for every element of the shift array the data of the elements it broadcasts to is ifft(fft(x) * exp(-2*pi*i*s_elem*k/N))"
            if bad is None or bad[2] is False:
                ck.same("R1", fi.where, "array shift values " + tag, what, bad is None, found=str(bad), nontrivial=True)
            else:
                ck.unk("R1", fi.where, "array shift values " + tag, what, str(bad))
    run.floor("R1", "array-shift cases decided", n_arr, 6)
    # zero shift returns the input unchanged
    z = make_signal(prog, "BasebandSignal", nchan=2)
    ev = ck.evaluator()
    out = ck.attempt("R1", fi.where, "time_shift(z, 0)", "evaluates", lambda: ev.call(fi, [z, Num(0)], {}), ev=ev)
    if out is not None:
        ck.same("R1", fi.where, "time_shift(z, 0)", "a zero shift returns the data unchanged", isinstance(out, ObjV) and isinstance(out.attrs["_data"], Num)
                and (out.attrs["_data"].expr == z.attrs["_data"].expr or "Allclose" in str(out.attrs["_data"].expr)), found=str(out.attrs["_data"])[:160])
    # too many dimensions is refused
    zz = make_signal(prog, "BasebandSignal", n=16, nchan=2)
    for shp_ in ((1, 2), (1, 2, 1)):
        lab = f"shift with {len(shp_)} axes on a signal with 2 axes"
        try:
            ck.evaluator(oracle=nonzero_shift_oracle()).call(fi, [zz, NdArr(shp_, [Num(1), Num(2)])], {})
            ck.same("R1", fi.where, lab, "is refused with ValueError (a shift axis cannot stand for the time axis)", False, found="accepted", nontrivial=True)
        except Raised as e:
            ck.same("R1", fi.where, lab, "is refused with ValueError (a shift axis cannot stand for the time axis)", e.exc_name == "ValueError", found=str(e)[:120],
                    nontrivial=True)
        except Unsupported as e:
            ck.unk("R1", fi.where, lab, "is refused with ValueError", str(e))

    # ------------------------------------------------------------------ R2/R3: zero-fill coverage and extents
    n_time = 16

    def make_args(shp, vals, sample_shape, n):
        z = make_signal(prog, "Signal", n=n, extra=sample_shape, dtype="complex128")
        elems = [shift_num(v) for v in vals]
        sh = elems[0] if not shp else NdArr(shp, elems)
        return [z, sh], {}
    run_coverage(ck, prog, fi, "R2", make_args, n_time, lambda arr: "IFFT" in str(arr.expr) or "Opq" in str(arr.expr), "time_shift")

    # the same for the documented target of time_shift, a baseband signal: its constructor looks at (and may convert) the data it is given,
    # so a result built before the zero-fill is written could hold a converted copy that never sees the zeros
    def make_args_bb(shp, vals, sample_shape, n):
        if sample_shape:
            z = make_signal(prog, "BasebandSignal", n=n, nchan=sample_shape[0], extra=sample_shape[1:], dtype="complex128", backend="numpy")
        else:
            z = make_signal(prog, "Signal", n=n, extra=sample_shape, dtype="complex128")
        elems = [shift_num(v) for v in vals]
        sh = elems[0] if not shp else NdArr(shp, elems)
        return [z, sh], {}
    run_coverage(ck, prog, fi, "R2", make_args_bb, n_time, lambda arr: "IFFT" in str(arr.expr) or "Opq" in str(arr.expr), "time_shift (BasebandSignal)")

    # crop bounds over array shifts
    sample_shape = (2, 3)
    for shp, vals in (((2,), [Fraction(3, 2), Fraction(-2)]), ((1, 3), [Fraction(1, 2), Fraction(-1, 2), Fraction(3)]),
                      ((2, 1), [Fraction(20), Fraction(-5, 2)]), ((), [Fraction(-20)])):
        z = make_signal(prog, "Signal", n=n_time, extra=sample_shape, dtype="complex128")
        elems = [Num(sp.Rational(v.numerator, v.denominator)) for v in vals]
        ev = ck.evaluator(oracle=nonzero_shift_oracle())
        tag = f"time_shift(crop=True), shift {shp or 'scalar'} {[str(v) for v in vals]}"
        out = ck.attempt("R3", fi.where, tag, "evaluates", lambda: ev.call(fi, [z, elems[0] if not shp else NdArr(shp, elems)], {"crop": BoolV(True)}),
                         ev=ev, allowed_guards=[])
        if out is None:
            continue
        lo = max([0] + [math.ceil(v) for v in vals if v > 0])
        hi = n_time + min([0] + [math.floor(v) for v in vals if v < 0])
        hi = max(hi, lo)
        from .c06 import destructure_item
        ds = destructure_item(out.attrs["_data"].expr) if isinstance(out.attrs["_data"], Num) else None
        ok = ds is not None and ds[1] == lo and ds[2] == hi and ds[3] == NONE_S
        ck.same("R3", fi.where, tag, "the crop keeps [max ceil(s+), N + min floor(s-)) and never a negative bound",
                ok, found=str(ds[1:4]) if ds else str(out.attrs["_data"])[:120], expected=f"[{lo}:{hi}]", nontrivial=True)
    # the FFT routines work on (views of) the caller's data: they must never be given permission to overwrite their operand
    from ..structural import overwrite_report
    overwrite_report(ck, prog, "R1")
    run.extra["decided_by"] = ck.how
