"""C03 - time_shift is a band-limited delay with exact zero-fill and no wrap-around."""
from __future__ import annotations

import itertools
import math
from fractions import Fraction
import sympy as sp

from ..spec import Checker, FR, obj_summary, nonzero_shift_oracle
from ..sigmodel import make_signal, N, NCHAN, CF, BW, SR, T0
from ..values import Num, StrV, ObjV, NONE, Hz, F, NONE_S, TupleV, SliceV, BoolV, ExtV, NoneV
from ..extapi import NdArr, StackV
from ..symeval import Raised
from ..values import Unsupported
from .. import terms
from .c13 import meta_same

EXPLANATION = (
    "time_shift is evaluated by the term evaluator (a) with a symbolic scalar shift on complex and real data and with a time "
    "Quantity: the shifted data term must be ifft(fft(x, axis 0) * exp(-2*pi*i*s*fftfreq(N)), axis 0) (real part for real "
    "input), with the ramp on axis 0, the exponent evaluated at full precision, the length unchanged and no metadata override; "
    "(b) with concrete shift arrays of every shape that broadcasts against a small concrete sample shape (scalar, fewer axes, "
    "explicit length-1 axes, full shape; mixed signs, fractional values, |s| >= N): the zero-fill stores recorded from the "
    "extracted loop are expanded to the set of (time index, sample element) pairs and must equal exactly the set the statement "
    "prescribes (first ceil(s) samples for s > 0, last ceil(|s|) for s < 0, for every element the shift broadcasts to); the crop "
    "bounds of crop=True must be max ceil / min floor over the elements.  DFT accuracy is not decided."
)


def expected_zero_set(shift_of_elem, n, sample_shape):
    """{(t, elem)} that must be zero."""
    out = set()
    for e in itertools.product(*[range(k) for k in sample_shape]):
        s = shift_of_elem(e)
        if s == 0:
            continue
        if s < 0:
            a = math.floor(s)
            rng = range(*slice(a, None).indices(n))
        else:
            a = math.ceil(s)
            rng = range(*slice(None, a).indices(n))
        for t in rng:
            out.add((t, e))
    return out


def expand_store(ev, idx, n, sample_shape):
    """(time slice, per-axis index ...) -> set of (t, elem); None if not understood."""
    items = idx.items if isinstance(idx, TupleV) else [idx]
    if not items or not isinstance(items[0], SliceV):
        return None
    g = lambda x: None if isinstance(x, NoneV) else ev.concrete_int(x)  # noqa: E731
    ts = items[0]
    for x in (ts.start, ts.stop, ts.step):
        if not isinstance(x, NoneV) and ev.concrete_int(x) is None:
            return None
    trange = range(*slice(g(ts.start), g(ts.stop), g(ts.step)).indices(n))
    per_axis = []
    rest = items[1:]
    for ax, k in enumerate(sample_shape):
        if ax < len(rest):
            it = rest[ax]
            if isinstance(it, SliceV):
                per_axis.append(list(range(*slice(g(it.start), g(it.stop), g(it.step)).indices(k))))
            else:
                c = ev.concrete_int(it)
                if c is None:
                    return None
                if c < 0:
                    c += k
                if not 0 <= c < k:
                    return "IndexError"
                per_axis.append([c])
        else:
            per_axis.append(list(range(k)))
    if len(rest) > len(sample_shape):
        return "IndexError"
    out = set()
    for e in itertools.product(*per_axis):
        for t in trange:
            out.add((t, e))
    return out


def bcast_value(arr_shape, flat, sample_shape):
    """value of the shift for a sample element under numpy broadcasting (shift axes are left-aligned with the
    sample axes after time_shift's own re-indexing: shape (k1, .., km) applies to the first m sample axes)."""
    def f(e):
        idx = 0
        stride = 1
        strides = []
        for s in reversed(arr_shape):
            strides.insert(0, stride)
            stride *= s
        for ax, s in enumerate(arr_shape):
            c = e[ax] if s != 1 else 0
            idx += c * strides[ax]
        return flat[idx]
    return f


def coverage_cases(tier):
    F_ = Fraction
    sample_shape = (2, 3)
    cases = []
    cases.append(((), [F_(5, 2)]))
    cases.append(((), [F_(-7, 2)]))
    cases.append(((), [F_(20)]))            # |s| >= N
    cases.append(((2,), [F_(3, 2), F_(-2)]))
    cases.append(((2, 1), [F_(1), F_(-5, 2)]))
    cases.append(((1, 3), [F_(1, 2), F_(-1, 2), F_(3)]))
    cases.append(((2, 3), [F_(1), F_(-1), F_(5, 2), F_(-5, 2), F_(0), F_(4)]))
    cases.append(((1,), [F_(-3, 2)]))
    cases.append(((1, 1), [F_(7, 2)]))
    if tier == "thorough":
        cases.append(((2,), [F_(-18), F_(17)]))
        cases.append(((1, 3), [F_(-16), F_(16), F_(1, 3)]))
        cases.append(((2, 3), [F_(-1, 4), F_(1, 4), F_(15), F_(-15), F_(16), F_(-16)]))
    return sample_shape, cases


def run_coverage(ck, prog, fi, rule, make_args, n_time, target_pred, label, scale=1):
    """Shared by C03/C04: evaluates `fi` for each concrete shift array and compares recorded stores with the
    statement's zero set.  scale: samples (C03) or bins (C04) per unit of the given shift value."""
    sample_shape, cases = coverage_cases(ck.run.tier)
    n_cases = 0
    for shp, vals in cases:
        n_cases += 1
        tag = f"{label}: shift shape {shp or 'scalar'} values {[str(v) for v in vals]} on sample shape {sample_shape}, N={n_time}"
        ev = ck.evaluator(oracle=nonzero_shift_oracle())
        args, kw = make_args(shp, vals, sample_shape, n_time)
        out = ck.attempt(rule, fi.where, tag, "evaluates", lambda: ev.call(fi, args, kw), ev=ev, allowed_guards=[])
        if out is None:
            continue
        stores = [t for t in ev.trace if t[0] == "store" and target_pred(t[1])]
        got = set()
        bad_store = None
        for _, arr, idx, val, node in stores:
            if not (isinstance(val, Num) and val.expr == 0):
                bad_store = f"stores a non-zero value {val!r}"
                break
            s = expand_store(ev, idx, n_time, sample_shape)
            if s is None:
                bad_store = "store index not understood"
                break
            if s == "IndexError":
                bad_store = "store index out of range for the sample shape (IndexError at run time)"
                got = None
                break
            got |= s
        exp = expected_zero_set(lambda e: bcast_value(shp, [v * scale for v in vals], sample_shape)(e) if shp else vals[0] * scale,
                                n_time, sample_shape)
        if bad_store == "store index not understood":
            ck.unk(rule, fi.where, tag, "zero-fill stores are basic index stores", bad_store)
            continue
        if got is None:
            ck.same(rule, fi.where, tag, "zero-fill covers exactly the samples whose source lies outside the input", False, found=bad_store,
                    nontrivial=True)
            continue
        missing = sorted(exp - got)[:4]
        extra = sorted(got - exp)[:4]
        ck.same(rule, fi.where, tag,
                "the zero-filled (time, element) set equals the statement's: first ceil(s) / last ceil(|s|) samples of every element the shift broadcasts to",
                not missing and not extra and bad_store is None,
                found=(bad_store or "") + (f" not zeroed: {missing}" if missing else "") + (f" zeroed but should be kept: {extra}" if extra else "")
                + f" [{len(stores)} stores, {len(got)} cells]",
                expected=f"{len(exp)} cells", nontrivial=True)
    ck.run.floor(rule, "zero-fill coverage cases", n_cases, 9)


def check(run, prog):
    run.explanation = EXPLANATION
    run.assumptions += ["real-number semantics; fft/ifft as opaque injective operators", "numpy basic-index store semantics"]
    ck = Checker(run, prog)
    fi = prog.func("time_shift")
    run.touched(fi)
    s = sp.Symbol("s", real=True)
    kb = sp.Symbol("kbin", integer=True)

    # ------------------------------------------------------------------ R1: the multiplier
    scen = [("BasebandSignal", "complex128", Num(s), s, "samples"), ("Signal", "float64", Num(s), s, "samples"),
            ("BasebandSignal", "complex64", Num(sp.Symbol("sq", real=True) / Hz, kind="quantity"), sp.Symbol("sq", real=True) * SR, "time Quantity"),
            ("DualPolarizationSignal", "complex128", Num(s), s, "samples")]
    for clsname, dtype, shiftv, s_eff, what in scen:
        z = make_signal(prog, clsname, nchan=2, dtype=dtype)
        tag = f"[{clsname}, {dtype}, shift in {what}]"
        ev = ck.evaluator(oracle=nonzero_shift_oracle())
        out = ck.attempt("R1", fi.where, "time_shift(z, s) " + tag, "evaluates", lambda: ev.call(fi, [z, shiftv], {}), ev=ev, allowed_guards=[])
        if out is None:
            continue
        d = out.attrs["_data"]
        D = z.attrs["_data"].expr
        core = F["IFFT"](F["FFT"](D, 0) * sp.exp(-2 * sp.pi * sp.I * s_eff * kb / N), 0)
        exp = core if "complex" in dtype else sp.re(core)
        if not isinstance(d, Num):
            ck.unk("R1", fi.where, "shifted data " + tag, "a single array term", repr(d)[:160])
            continue
        ck.eq("R1", fi.where, "shifted data " + tag,
              "== ifft(fft(x, axis 0) * exp(-2*pi*i*s*k/N), axis 0)" + ("" if "complex" in dtype else ", real part for real input"), d, exp)
        prec = [t for t in ev.trace if t[0] in ("exp-dtype", "precision-cast")]
        ck.same("R1", fi.where, "ramp precision " + tag, "the phase ramp is exponentiated at full precision before any cast", not prec,
                found=str(prec)[:160], nontrivial=True)
        bm = [t for t in ev.trace if t[0] == "broadcast-mismatch"]
        ck.same("R1", fi.where, "ramp axis " + tag, "the frequency ramp lies along the time axis (axis 0) and broadcasts over the sample shape",
                not bm, found=str(bm)[:160], nontrivial=True)
        if d.shape:
            ck.eq("R1", fi.where, "length " + tag, "the output has the input's length", d.shape[0], N)
        bad = meta_same(z, out)
        ck.same("R4", fi.where, "ledger " + tag, "metadata unchanged (no override), same class", out.cls is z.cls and not bad,
                found="; ".join(bad) or obj_summary(out), nontrivial=True)
    # zero shift returns the input unchanged
    z = make_signal(prog, "BasebandSignal", nchan=2)
    ev = ck.evaluator()
    out = ck.attempt("R1", fi.where, "time_shift(z, 0)", "evaluates", lambda: ev.call(fi, [z, Num(0)], {}), ev=ev)
    if out is not None:
        ck.same("R1", fi.where, "time_shift(z, 0)", "a zero shift returns the data unchanged", isinstance(out, ObjV) and isinstance(out.attrs["_data"], Num)
                and (out.attrs["_data"].expr == z.attrs["_data"].expr or "Allclose" in str(out.attrs["_data"].expr)), found=str(out.attrs["_data"])[:160])
    # too many dimensions is refused
    zz = make_signal(prog, "BasebandSignal", n=16, nchan=2)
    try:
        ck.evaluator(oracle=nonzero_shift_oracle()).call(fi, [zz, NdArr((1, 2, 1), [Num(1), Num(2)])], {})
        ck.same("R1", fi.where, "shift with as many axes as the signal", "is refused with ValueError", False, found="accepted")
    except Raised as e:
        ck.same("R1", fi.where, "shift with as many axes as the signal", "is refused with ValueError", e.exc_name == "ValueError", found=str(e)[:120])
    except Unsupported as e:
        ck.unk("R1", fi.where, "shift with as many axes as the signal", "is refused with ValueError", str(e))

    # ------------------------------------------------------------------ R2/R3: zero-fill coverage and extents
    n_time = 16

    def make_args(shp, vals, sample_shape, n):
        z = make_signal(prog, "Signal", n=n, extra=sample_shape, dtype="complex128")
        elems = [Num(sp.Rational(v.numerator, v.denominator)) for v in vals]
        sh = elems[0] if not shp else NdArr(shp, elems)
        return [z, sh], {}
    run_coverage(ck, prog, fi, "R2", make_args, n_time, lambda arr: "IFFT" in str(arr.expr) or "Opq" in str(arr.expr), "time_shift")

    # crop bounds over array shifts
    sample_shape = (2, 3)
    for shp, vals in (((2,), [Fraction(3, 2), Fraction(-2)]), ((1, 3), [Fraction(1, 2), Fraction(-1, 2), Fraction(3)]),
                      ((2, 1), [Fraction(20), Fraction(-5, 2)]), ((), [Fraction(-20)])):
        z = make_signal(prog, "Signal", n=n_time, extra=sample_shape, dtype="complex128")
        elems = [Num(sp.Rational(v.numerator, v.denominator)) for v in vals]
        ev = ck.evaluator(oracle=nonzero_shift_oracle())
        tag = f"time_shift(crop=True), shift {shp or 'scalar'} {[str(v) for v in vals]}"
        out = ck.attempt("R3", fi.where, tag, "evaluates", lambda: ev.call(fi, [z, elems[0] if not shp else NdArr(shp, elems)], {"crop": BoolV(True)}),
                         ev=ev, allowed_guards=[])
        if out is None:
            continue
        lo = max([0] + [math.ceil(v) for v in vals if v > 0])
        hi = n_time + min([0] + [math.floor(v) for v in vals if v < 0])
        hi = max(hi, lo)
        from .c06 import destructure_item
        ds = destructure_item(out.attrs["_data"].expr) if isinstance(out.attrs["_data"], Num) else None
        ok = ds is not None and ds[1] == lo and ds[2] == hi and ds[3] == NONE_S
        ck.same("R3", fi.where, tag, "the crop keeps [max ceil(s+), N + min floor(s-)) and never a negative bound",
                ok, found=str(ds[1:4]) if ds else str(out.attrs["_data"])[:120], expected=f"[{lo}:{hi}]", nontrivial=True)
    run.extra["decided_by"] = ck.how
