"""C09 - Dask-backed signals give identical results, lazily, for any chunks or scheduler."""
from __future__ import annotations

import ast
import sympy as sp

from ..spec import Checker, FR, obj_summary, nonzero_shift_oracle
from ..sigmodel import make_signal, pol_data, N, NCHAN, SR
from ..values import Num, StrV, NONE, ExtV, ObjV, TupleV, DictV, BoolV, Hz, ClassV, FuncV
from ..symeval import Raised
from ..values import Unsupported
from ..model import norm, ModuleInfo
from ..lazy import LazyAnalysis, DISPATCHING
from .c13 import meta_same
from .c06 import dm_value

EXPLANATION = (
    "(R1) A laziness taint analysis over every function of core, transforms, dedispersion, contrib and the reader base classes: a "
    "value read from a signal's .data (or produced by dask.array) is 'maybe lazy'; the taint follows arithmetic, subscripts, lazy "
    "methods and the NumPy functions of the dispatch table (each re-validated against the installed dask.array namespace), and is "
    "dropped only inside the NumPy arm of an explicit back-end test. A *forcing sink* reached by a maybe-lazy value - .compute(), "
    "np.asarray/np.array, bool/int/float, use as an if/while/assert condition, iteration, .tolist()/.item(), a direct scipy call, an "
    "unlisted NumPy function - is a violation unless it is one of the three explicit forcing points of the API (compute, persist, "
    "__array__). (R2) Every public transform and method is evaluated by the term evaluator on NumPy-tagged and Dask-tagged symbolic "
    "signals: class, metadata and data term must be identical and the Dask-tagged input must yield a Dask-tagged result; lazily "
    "declared dtype/shape/name (from_delayed, map_blocks) must agree with what the eager branch returns and a custom graph key must "
    "depend on everything the lazy value depends on. (R3) compute/persist/to_dask_array/rechunk override nothing. Scheduler "
    "independence and chunk-layout acceptance are Dask's and are not decided."
)

SCOPE = ["pulsarbat.core", "pulsarbat.transforms.transforms", "pulsarbat.transforms.dedispersion", "pulsarbat.contrib.misc",
         "pulsarbat.readers._base"]

CONTROL = '''
import numpy as np
import dask.array as da
def _ctl_force(z):
    x = z.data * 2
    if np.allclose(x, 0):
        return z
    y = np.asarray(x)
    for row in x:
        pass
    return float(x[0])
def _ctl_guarded(z):
    if isinstance(z.data, da.Array):
        x = z.data.rechunk()
    else:
        x = np.asarray(z.data)
    t = tuple(i.data for i in (z, z))
    return np.stack([x, x])[0].real
'''


def sanction(fi, node, how):
    if fi.qualname in ("Signal.compute", "Signal.persist") and (".compute()" in how or ".persist()" in how):
        return "explicit forcing point of the API"
    if fi.qualname == "Signal.__array__":
        return "np.asarray(signal) is an explicit conversion requested by the caller"
    return None


def check(run, prog):
    run.explanation = EXPLANATION
    run.assumptions += ["NumPy functions in the dispatch table hand over to Dask (validated by introspection of dask.array)",
                        "third-party array functions passed to signal_transform are the caller's responsibility"]
    ck = Checker(run, prog)
    r1(ck, prog, run)
    r2(ck, prog, run)
    # graph keys: a hand-written Dask token must cover everything a lazy read depends on (shared with C11)
    from .c11 import statelessness_structure, single_read_per_request, delayed_names_rule
    statelessness_structure(ck, prog, run, only_token=True, rule="R4")
    single_read_per_request(ck, prog, "R4")
    delayed_names_rule(ck, prog, "R4")
    # a lazy read declares the dtype and shape of what its single delayed read will return: what the reader really returns must agree
    from .c11 import lazy_reads_rule
    lazy_reads_rule(ck, prog, "R2")
    # results must not depend on when a deferred callable runs, nor on earlier calls (shared mutable defaults)
    from .. import structural
    structural.report(ck, prog, "R4", [f for f in prog.all_functions if f.module in SCOPE and f.kind not in ("nested", "lambda")], "pulsarbat (laziness scope)")
    fft_chunk_discipline(ck, prog, "R2")
    # Dask arrays of unknown extent (boolean-mask selections: the shape holds NaN until computed) are legitimate signal data: the
    # constructor's shape checks must not mistake "unknown" for "empty"
    init = prog.func("Signal.__init__")
    for shp, what in (((N, sp.nan), "unknown number of columns"), ((N, sp.Integer(3), sp.nan), "unknown trailing extent")):
        ev = ck.evaluator()
        data = Num(sp.Symbol("D_masked"), kind="array", shape=shp, tag="data", backend="dask", dtype=ExtV("numpy.float64"))
        tag = f"Signal(<Dask array, {what}>)"
        try:
            o = ev.construct(prog.cls("Signal"), [data], {"sample_rate": Num(SR * Hz, kind="quantity")}, FR())
            ck.same("R2", init.where, tag, "accepted, the data stays the lazy array", isinstance(o, ObjV) and o.attrs.get("_data") is data, found=obj_summary(o)[:100], nontrivial=True)
        except Raised as e:
            ck.same("R2", init.where, tag, "accepted (NumPy-backed data of the same kind is)", False, found=str(e)[:160], nontrivial=True)
        except Unsupported as e:
            ck.unk("R2", init.where, tag, "the constructor evaluates on a shape with an unknown extent", str(e)[:200])
    # out=/in-place forms: the Dask-backed target ends up as the NumPy-backed one would (same dtype, or the same refusal)
    from .c17 import dask_out_rule
    dask_out_rule(ck, prog, "R2")
    run.extra["decided_by"] = ck.how


DASK_CREATORS_1D = {"arange", "linspace"}
DASK_CREATORS_ND = {"zeros", "ones", "full", "empty", "zeros_like", "ones_like", "full_like", "empty_like", "from_array", "asarray", "random.random",
                    "random.normal", "random.standard_normal", "random.uniform"}
_CHUNK_CTL = '''
def _ctl_bad(z):
    n = da.arange(len(z))
    return pb.fft.fft(z.data * n[:, None], axis=0)


def _ctl_good(z):
    n = da.arange(len(z), chunks=(-1,))
    return pb.fft.fft(z.data * n[:, None], axis=0)
'''


def _single_chunk(v, axis, fn=None):
    """Does the chunks= value keep `axis` (None: every axis) in one chunk?  True / False / None (cannot tell)."""
    def one(e):
        if isinstance(e, ast.Name) and fn is not None:
            defs = [a_.value for a_ in ast.walk(fn) if isinstance(a_, ast.Assign) and len(a_.targets) == 1 and isinstance(a_.targets[0], ast.Name) and a_.targets[0].id == e.id]
            if len(defs) == 1 and not isinstance(defs[0], ast.Name):
                return one(defs[0])          # N = len(z): the whole axis
        if isinstance(e, ast.UnaryOp) and isinstance(e.op, ast.USub) and isinstance(e.operand, ast.Constant) and e.operand.value == 1:
            return True
        if isinstance(e, ast.Constant):
            if e.value is None:
                return True
            if e.value == "auto" or isinstance(e.value, (int, float, str)):
                return False
        if isinstance(e, ast.Call) and isinstance(e.func, ast.Name) and e.func.id == "len":
            return True           # chunks=len(z): the whole axis
        if isinstance(e, ast.Subscript) and isinstance(e.value, ast.Attribute) and e.value.attr == "shape":
            return True
        return None
    if isinstance(v, (ast.Tuple, ast.List)):
        if axis is None:
            rs = [one(e) for e in v.elts]
            return False if False in rs else (None if None in rs else True)
        if -len(v.elts) <= axis < len(v.elts):
            return one(v.elts[axis])
        return None
    return one(v)


def _chunk_findings(fn_node):
    """In one function: dask creation calls when the function also runs an FFT of pulsarbat.fft -> [(call, verdict, why)]."""
    ffts = [c for c in ast.walk(fn_node) if isinstance(c, ast.Call) and ".fft." in "." + norm(c.func) and norm(c.func).split(".")[0] in ("pb", "pulsarbat", "fft")]
    if not ffts:
        return [], 0
    axes = set()
    for c in ffts:
        for k in c.keywords:
            if k.arg in ("axis", "axes"):
                for e in ast.walk(k.value):
                    if isinstance(e, ast.Constant) and isinstance(e.value, int):
                        axes.add(e.value)
                    elif isinstance(e, ast.UnaryOp) and isinstance(e.operand, ast.Constant):
                        axes.add(-e.operand.value)
    axis = next(iter(axes)) if len(axes) == 1 else None
    parents = {}
    for p_ in ast.walk(fn_node):
        for c_ in ast.iter_child_nodes(p_):
            parents[id(c_)] = p_
    out = []
    for c in ast.walk(fn_node):
        if not (isinstance(c, ast.Call) and norm(c.func).startswith(("da.", "dask.array."))):
            continue
        name = norm(c.func).split(".", 1)[1] if norm(c.func).startswith("da.") else norm(c.func)[len("dask.array."):]
        if name not in DASK_CREATORS_1D | DASK_CREATORS_ND:
            continue
        par = parents.get(id(c))
        if isinstance(par, ast.Attribute) and par.attr == "rechunk":
            gp = parents.get(id(par))
            if isinstance(gp, ast.Call) and gp.args:
                r = _single_chunk(gp.args[0], None if name in DASK_CREATORS_1D else axis, fn_node)
                out.append((c, r, "rechunked straight away"))
                continue
        ch = [k.value for k in c.keywords if k.arg == "chunks"]
        if not ch:
            out.append((c, False, "no chunks= given: Dask picks the chunk size, so a long time axis is split"))
            continue
        r = _single_chunk(ch[0], 0 if name in DASK_CREATORS_1D else axis, fn_node)
        out.append((c, r, f"chunks={norm(ch[0])}"))
    return out, len(ffts)


def fft_chunk_discipline(ck, prog, rule):
    """An FFT along an axis is refused by Dask unless that axis is a single chunk.  Operands the package itself creates as Dask
    arrays inside an FFT-based transform must therefore be created in one chunk along the transformed axis; otherwise the
    product with the signal's data is split along time as soon as the signal is longer than Dask's automatic chunk size and the
    Dask-backed call fails where the NumPy-backed call works."""
    ctl = ast.parse(_CHUNK_CTL)
    rb, _ = _chunk_findings(ctl.body[0])
    rg, _ = _chunk_findings(ctl.body[1])
    ok_ctl = len(rb) == 1 and rb[0][1] is False and len(rg) == 1 and rg[0][1] is True
    ck.run.ob(rule, "(embedded example)", "control: da.arange(len(z)) / da.arange(len(z), chunks=(-1,)) feeding pb.fft.fft(axis=0)",
              "the chunk rule fires on the first and accepts the second", True if ok_ctl else None)
    n_sites = n_fft_funcs = 0
    for f in prog.all_functions:
        if f.module not in SCOPE or f.kind in ("nested", "lambda"):
            continue
        found, nfft = _chunk_findings(f.node)
        n_fft_funcs += 1 if nfft else 0
        for c, verdict, why in found:
            n_sites += 1
            ck.run.touched(f)
            if verdict is None:
                ck.unk(rule, f.where, norm(c)[:100], "the array is created in one chunk along the axis the FFT runs over", why)
            else:
                ck.same(rule, f.where, norm(c)[:100], "a Dask array created inside an FFT-based transform is one chunk along the transformed axis "
                        "(Dask refuses an FFT over a chunked axis; automatic chunking splits long signals)", verdict, found=why, nontrivial=True)
    ck.run.floor(rule, "functions running a pulsarbat.fft transform examined for Dask creation calls", n_fft_funcs, 4)
    ck.run.floor(rule, "Dask creation calls inside FFT-based transforms", n_sites, 1)


def r1(ck, prog, run):
    funcs = [f for f in prog.all_functions if f.module in SCOPE and f.kind not in ("nested", "lambda")]
    # the array handed to a signal constructor may be lazy: the first parameter of every __init__ of the Signal hierarchy
    lazy_params = {}
    for f in funcs:
        if f.name == "__init__" and f.cls is not None and any(c.name == "Signal" for c in f.cls.mro()):
            a = f.node.args.posonlyargs + f.node.args.args
            if len(a) > 1:
                lazy_params[f.qualname] = [a[1].arg]
    # the operands and options of a ufunc call (inputs, out=, where=) may be Dask arrays as well
    for f in funcs:
        if f.name == "__array_ufunc__" and f.cls is not None and any(c.name == "Signal" for c in f.cls.mro()):
            names = [(a_.arg, "C") for a_ in [f.node.args.vararg, f.node.args.kwarg] if a_ is not None]
            if names:
                lazy_params[f.qualname] = names
    an = LazyAnalysis(prog, funcs, sanction=sanction, lazy_params=lazy_params)
    forces = an.run()
    run.floor("R1", "signal constructors (and __array_ufunc__) whose array parameters are treated as possibly lazy", len(lazy_params), 5)
    for f in funcs:
        run.touched(f)
    by = {}
    for x in forces:
        by.setdefault(id(x.func), []).append(x)
    # forces found inside nested functions (the wrapper built by signal_transform, local helpers) belong to their
    # enclosing function's obligations
    known_ids = {id(f) for f in funcs}
    for x in forces:
        if id(x.func) not in known_ids:
            outer = next((f for f in funcs if f.module == x.func.module and x.func.qualname.startswith(f.qualname + ".<locals>")), None)
            if outer is not None:
                by.setdefault(id(outer), []).append(x)
            else:
                run.ob("R1", x.func.where, norm(x.node)[:160], f"forcing sink: {x.how} [{x.expr}]", x.sanctioned is not None, nontrivial=True,
                       found=None if x.sanctioned else "forces computation of a possibly Dask-backed value", note=x.sanctioned)
    for f in funcs:
        xs = by.get(id(f), [])
        if not xs:
            run.ob("R1", f.where, f.qualname, "no forcing sink is reached by a possibly-lazy value", True)
        for x in xs:
            run.ob("R1", f.where, norm(x.node)[:160], f"forcing sink: {x.how} [{x.expr}]", x.sanctioned is not None, nontrivial=True,
                   found=None if x.sanctioned else "forces computation of a possibly Dask-backed value", note=x.sanctioned)
    run.extra["lazy_expressions_tracked"] = an.n_tainted
    run.extra["numpy_functions_applied_to_lazy_data"] = sorted(an.np_used)
    run.floor("R1", "functions in the laziness scope", len(funcs), 95)
    run.floor("R1", "sanctioned explicit forcing points seen by the sink detector", sum(1 for x in forces if x.sanctioned), 3)
    # validate the dispatch table entries that were used against the installed dask
    try:
        import dask.array as da
        missing = []
        for d in sorted(an.np_used):
            parts = d.split(".")[1:]
            obj = da
            ok = True
            for p_ in parts:
                if not hasattr(obj, p_):
                    ok = False
                    break
                obj = getattr(obj, p_)
            if not ok:
                missing.append(d)
        run.ob("R1", "(installed dask.array)", str(sorted(an.np_used)), "every NumPy function applied to lazy data has a dask.array counterpart to dispatch to",
               not missing, found=f"no dask counterpart: {missing}", nontrivial=True)
        run.analysed["api_entries"] |= set(an.np_used)
    except ImportError as e:
        run.ob("R1", "(installed dask.array)", "import", "dask.array importable for table validation", None, note=str(e))
    # positive control
    mi = ModuleInfo("pulsarbat._pbverif_lazy_control", "pulsarbat/_pbverif_lazy_control.py", CONTROL, ast.parse(CONTROL))
    prog.modules[mi.name] = mi
    n0 = len(prog.all_functions)
    try:
        prog._index_module(mi)
        cf = [f for f in prog.all_functions[n0:] if f.kind == "function"]
        can = LazyAnalysis(prog, cf)
        cforces = can.run()
    finally:
        del prog.modules[mi.name]
        del prog.all_functions[n0:]
    hows = [(x.func.qualname, x.how.split("(")[0][:30]) for x in cforces]
    bad_ctl = [x for x in cforces if x.func.qualname == "_ctl_guarded"]
    n_force = len([x for x in cforces if x.func.qualname == "_ctl_force"])
    run.ob("R1", "(embedded control)", "np.allclose(x,0) as condition; np.asarray(x); for row in x; float(x[0])",
           "the sink detector fires on the four embedded forcing constructs and stays silent on the guarded / container twin",
           True if (n_force >= 4 and not bad_ctl) else None, found=str(hows), nontrivial=True,
           note=None if (n_force >= 4 and not bad_ctl) else "laziness analysis lost its teeth or over-reports")


def _userfunc(prog):
    """An abstract array function for signal_transform: returns an array of another dtype (like np.abs on complex data)."""
    def handler(ev, args, kwargs, node, fr, fn):
        x = args[0]
        return Num(sp.Function("UserFunc")(x.expr, *[v.expr for v in list(args[1:]) + list(kwargs.values()) if isinstance(v, Num)]), kind="array", shape=x.shape,
                   backend=x.backend, tag="data", dtype=ExtV("numpy.float64"))
    return handler


def r2(ck, prog, run):
    s = sp.Symbol("s", real=True)
    df = sp.Symbol("df", real=True)
    P = sp.Symbol("P", integer=True, positive=True)
    dm = dm_value(prog)
    a = sp.Symbol("a", integer=True)

    def sig(cls, backend, **kw):
        if cls == "DualPolarizationSignal":
            return make_signal(prog, cls, data=pol_data(backend=backend), backend=backend, **kw)
        return make_signal(prog, cls, backend=backend, **kw)
    plans = [
        ("time_shift(z, s)", "BasebandSignal", {"nchan": 2}, lambda ev, z: ev.call(prog.func("time_shift"), [z, Num(s)], {})),
        ("time_shift(z, s, crop=True)", "Signal", {}, lambda ev, z: ev.call(prog.func("time_shift"), [z, Num(s)], {"crop": BoolV(True)})),
        ("freq_shift(z, df)", "BasebandSignal", {"nchan": 2}, lambda ev, z: ev.call(prog.func("freq_shift"), [z, Num(df * Hz, kind="quantity")], {})),
        ("coherent_dedispersion(z, DM)", "BasebandSignal", {"nchan": 2}, lambda ev, z: ev.call(prog.func("coherent_dedispersion"), [z, dm], {})),
        ("incoherent_dedispersion(z, DM)", "RadioSignal", {"nchan": 2}, lambda ev, z: ev.call(prog.func("incoherent_dedispersion"), [z, dm], {})),
        ("z[a:, 0:1]", "RadioSignal", {"nchan": 2}, lambda ev, z: ev.getitem(z, TupleV([__import__("pbverif.values", fromlist=["SliceV"]).SliceV(Num(a), NONE, NONE),
                                                                                      __import__("pbverif.values", fromlist=["SliceV"]).SliceV(Num(0), Num(1), NONE)]), FR())),
        ("fast_len(z)", "Signal", {}, lambda ev, z: ev.call(prog.func("fast_len"), [z], {})),
        ("snippet(z, 3, 4)", "BasebandSignal", {"nchan": 2, "n": 16}, lambda ev, z: ev.call(prog.func("snippet"), [z, Num(sp.Rational(7, 2)), Num(4)], {})),
        ("concatenate([z, z[..]])", "Signal", {}, lambda ev, z: ev.call(prog.func("concatenate"), [__import__("pbverif.values", fromlist=["ListV"]).ListV([z, z])], {})),
        ("z.to_intensity()", "BasebandSignal", {"nchan": 2}, lambda ev, z: ev.call(prog.func("BasebandSignal.to_intensity"), [], {}, self_val=z)),
        ("z.to_circular()", "DualPolarizationSignal", {}, lambda ev, z: ev.call(prog.func("DualPolarizationSignal.to_circular"), [], {}, self_val=z)),
        ("z.to_stokes()", "DualPolarizationSignal", {}, lambda ev, z: ev.call(prog.func("DualPolarizationSignal.to_stokes"), [], {}, self_val=z)),
        ("stft(z, 2P)", "BasebandSignal", {"nchan": 2, "n": sp.Symbol("M", integer=True, positive=True) * 2 * P},
         lambda ev, z: ev.call(prog.func("stft"), [z], {"nperseg": Num(2 * P)})),
        ("np.multiply(z, 2)  [__array_ufunc__]", "BasebandSignal", {"nchan": 2},
         lambda ev, z: ev.call(prog.func("Signal.__array_ufunc__"), [ExtV("ufunc:multiply:2:1"), StrV("__call__"), z, Num(2)], {}, self_val=z)),
    ]
    allowed = ["ValueError", "TypeError"]
    for label, cls, kw, thunk in plans:
        res = {}
        for backend in ("numpy", "dask"):
            z = sig(cls, backend, **kw)
            ev = ck.evaluator(oracle=nonzero_shift_oracle())
            res[backend] = (ck.attempt("R2", "(public API)", f"{label} [{backend}]", "evaluates", lambda: thunk(ev, z), ev=ev, allowed_guards=allowed), z, ev)
        (on, zn, evn), (od, zd, evd) = res["numpy"], res["dask"]
        if on is None or od is None:
            continue
        same_meta = on.cls is od.cls and not meta_same(on, od)
        dn, dd = on.attrs["_data"], od.attrs["_data"]
        same_data = _data_term(dn) == _data_term(dd)
        ck.same("R2", "(public API)", label, "NumPy- and Dask-backed inputs give the same class, metadata and data term (branch agreement)",
                bool(same_meta and same_data), found=f"numpy: {str(_data_term(dn))[:110]} | dask: {str(_data_term(dd))[:110]}", nontrivial=True)
        ck.same("R2", "(public API)", label + ": container", "the result of an operation on a Dask-backed signal stays Dask-backed (lazy); NumPy stays NumPy",
                _backend(dd) == "dask" and _backend(dn) in ("numpy", None), found=f"dask input -> {_backend(dd)}; numpy input -> {_backend(dn)}", nontrivial=True)
    # signal_transform with an abstract dtype-changing array function
    f_st = prog.func("signal_transform")
    run.touched(f_st)
    uf = FuncV(prog.func("fast_len"))       # placeholder FuncV object to carry the override
    handler = _userfunc(prog)
    for kwargs_label, extra in (("", {}), (" with dask_kwargs", {"dask_kwargs": DictV({"chunks": NONE})}), (" with an extra positional argument", {"__pos__": [Num(7)]})):
        out = {}
        extra = dict(extra)
        pos = extra.pop("__pos__", [])
        for backend in ("numpy", "dask"):
            z = make_signal(prog, "BasebandSignal", nchan=2, backend=backend)
            ev = ck.evaluator(overrides={"pulsarbat.transforms.transforms.fast_len": handler})
            wrapper = ck.attempt("R2", f_st.where, f"signal_transform(func){kwargs_label} [{backend}]", "evaluates",
                                 lambda: ev.call(f_st, [uf], {}), ev=ev)
            if wrapper is None:
                continue
            kw = dict(extra, signal_type=ClassV(prog.cls("RadioSignal")), width=Num(3))
            out[backend] = (ck.attempt("R2", f_st.where, f"signal_transform(func)(z, width=3){kwargs_label} [{backend}]", "evaluates",
                                       lambda: ev.apply(wrapper, [z] + list(pos), kw, FR()), ev=ev, allowed_guards=["TypeError"]), ev)
        if len(out) == 2 and out["numpy"][0] is not None and out["dask"][0] is not None:
            on, od = out["numpy"][0], out["dask"][0]
            dn, dd = on.attrs["_data"], od.attrs["_data"]
            ck.same("R2", f_st.where, "signal_transform: branch agreement" + kwargs_label, "the Dask branch maps the same function with the same keyword arguments over the blocks",
                    on.cls is od.cls and dn.expr == dd.expr and not meta_same(on, od), found=f"{dn.expr} | {dd.expr}", nontrivial=True)
            ck.same("R2", f_st.where, "signal_transform: declared dtype" + kwargs_label,
                    "the lazy result advertises the dtype the function really returns (as the NumPy-backed call does)",
                    repr(dn.dtype) == repr(dd.dtype), found=f"numpy: {dn.dtype!r}; dask: {dd.dtype!r}", nontrivial=True)
            ck.same("R2", f_st.where, "signal_transform: container" + kwargs_label, "lazy in, lazy out", dd.backend == "dask", found=str(dd.backend))
    # custom graph keys must depend on everything the lazy value depends on
    n_named = 0
    for label, cls, kw, thunk in plans[3:4]:
        z = sig(cls, "dask", **kw)
        ev = ck.evaluator()
        try:
            thunk(ev, z)
        except Exception:
            continue
        for t in ev.trace:
            if t[0] == "dask-name":
                n_named += 1
                _, nm, res, node = t
                dep = {x for x in res.expr.free_symbols if not x.name.startswith(("kbin", "n", "j"))} if isinstance(res, Num) else set()
                have = nm.expr.free_symbols if isinstance(nm, Num) else set()
                missing = sorted(str(x) for x in dep - have if str(x) not in ("Hz", "pc", "cm"))
                ck.same("R2", "pulsarbat/transforms/dedispersion.py DispersionMeasure.chirp_function", f"name={norm(node)[:80]}",
                        "an explicit Dask graph key is a function of everything the lazy value depends on (else two different values share a key)",
                        not missing, found=f"value depends on {missing} but the key does not", nontrivial=True)
    run.extra["explicitly_named_lazy_values"] = n_named
    # R3 container helpers
    for hname, want in (("compute", "numpy"), ("persist", "dask"), ("to_dask_array", "dask"), ("rechunk", "dask")):
        fi = prog.func("Signal." + hname)
        run.touched(fi)
        for backend in ("numpy", "dask"):
            z = make_signal(prog, "RadioSignal", nchan=2, backend=backend)
            ev = ck.evaluator()
            o = ck.attempt("R3", fi.where, f"z.{hname}() [{backend}]", "evaluates", lambda: ev.call(fi, [], {}, self_val=z), ev=ev, allowed_guards=[])
            if o is None:
                continue
            d = o.attrs["_data"]
            ok = o.cls is z.cls and not meta_same(z, o) and isinstance(d, Num) and d.expr == z.attrs["_data"].expr
            ck.same("R3", fi.where, f"z.{hname}() [{backend}]", "changes only the container: same class, same data, every attribute unchanged", ok,
                    found=obj_summary(o), nontrivial=True)
            exp_b = want if not (hname in ("compute", "persist") and backend == "numpy") else "numpy"
            ck.same("R3", fi.where, f"z.{hname}() [{backend}]: container", f"result is {exp_b}-backed", (d.backend or "numpy") == exp_b, found=str(d.backend))
    # ... and a signal of zero samples (what a crop of everything leaves) is a signal like any other: the helpers hand it back, still empty
    for hname in ("compute", "persist", "to_dask_array", "rechunk"):
        fi = prog.func("Signal." + hname)
        for backend in ("numpy", "dask"):
            z0 = make_signal(prog, "RadioSignal", n=0, nchan=2, backend=backend)
            ev = ck.evaluator()
            try:
                o = ev.call(fi, [], {}, self_val=z0)
                d0 = o.attrs.get("_data") if isinstance(o, ObjV) else None
                ck.same("R3", fi.where, f"z.{hname}() on a signal of zero samples [{backend}]", "hands back an empty signal of the same class and metadata",
                        isinstance(o, ObjV) and o.cls is z0.cls and not meta_same(z0, o) and isinstance(d0, Num) and d0.shape is not None and d0.shape[0] == 0,
                        found=obj_summary(o), nontrivial=True)
            except Raised as e:
                ck.same("R3", fi.where, f"z.{hname}() on a signal of zero samples [{backend}]", "hands back an empty signal of the same class and metadata", False,
                        found=f"raises {str(e)[:140]}", nontrivial=True)
            except Unsupported as e:
                ck.unk("R3", fi.where, f"z.{hname}() on a signal of zero samples [{backend}]", "evaluates", str(e)[:200])


def _data_term(d):
    from ..extapi import StackV
    from ..symeval import PhiV
    if isinstance(d, PhiV):
        return ("phi", str(d.cond), _data_term(d.a), _data_term(d.b))       # a shortcut under an undecided test: both arms, with the test
    if isinstance(d, StackV):
        return tuple(x.expr for x in d.items)
    return getattr(d, "expr", d)


def _backend(d):
    from ..extapi import StackV
    from ..symeval import PhiV
    if isinstance(d, PhiV):
        a_, b_ = _backend(d.a), _backend(d.b)
        return a_ if a_ == b_ else (a_ or b_ if None in (a_, b_) else "mixed")
    if isinstance(d, StackV):
        bs = {getattr(x, "backend", None) for x in d.items}
        return "dask" if "dask" in bs else (d.backend or "numpy")
    return getattr(d, "backend", None)
