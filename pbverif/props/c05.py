"""C05 - Coherent dedispersion applies the cold-plasma chirp and crops to valid times."""
from __future__ import annotations

import random
import sympy as sp

from ..spec import Checker, FR, obj_summary
from ..sigmodel import make_signal, N, NCHAN, CF, BW, SR, T0
from ..values import Num, StrV, ObjV, NONE, Hz, pc, cm, F, NONE_S, ExtV, BoolV
from ..extapi import StackV
from .. import terms
from ..sign import is_nonneg
from .c13 import meta_same
from .c06 import K, DMv, dm_value, expected_delay, destructure_item, _freq_constraints

EXPLANATION = (
    "DispersionMeasure.chirp_function / _transfer_function are evaluated on symbolic Quantities with units as algebra; the "
    "extracted transfer function must equal exp(-2*pi*i*K*DM*f*(1/f_ref - 1/f)^2) with f = f_c + fftfreq(N, dt) and the "
    "exponent must be dimensionless and purely imaginary (|H| = 1, H(DM)H(-DM) = 1 derived). chirp_from_signal is evaluated "
    "on NumPy- and Dask-tagged signals: one chirp per channel label with N = len(z), dt = z.dt, default reference "
    "z.center_freq; the delayed (Dask) branch must produce the same term and declare the dtype/shape of the eager result. "
    "coherent_dedispersion is evaluated with the internal chirp, with that chirp supplied by the caller and with an arbitrary "
    "supplied chirp: data term IFFT(FFT(x)*chirp), crop bounds from the band-edge sample delays, bounds proven non-negative "
    "by the sign domain, start time advanced through the slicing choke point. Accuracy of the complex64 chirp is not decided."
)


def expected_H(fc, fref, kb, n):
    f = fc + kb * SR * Hz / n
    return sp.exp(-sp.I * 2 * sp.pi * K * DMv * pc / cm**3 * f * (1 / fref - 1 / f) ** 2)


def check(run, prog):
    run.explanation = EXPLANATION
    run.assumptions += ["real-number semantics; units as positive algebraic symbols", "scipy/pb.fft transforms as opaque injective operators"]
    ck = Checker(run, prog)
    f_chirp = prog.func("DispersionMeasure.chirp_function")
    f_tf = prog.func("_transfer_function")
    f_cfs = prog.func("DispersionMeasure.chirp_from_signal")
    f_coh = prog.func("coherent_dedispersion")
    for f in (f_chirp, f_tf, f_cfs, f_coh):
        run.touched(f)
    dm = dm_value(prog)
    fc, fr_ = sp.Symbol("fc", positive=True), sp.Symbol("fref", positive=True)
    q = lambda s: Num(s * Hz, kind="quantity")  # noqa: E731
    kb = sp.Symbol("kbin", integer=True)

    # ------------------------------------------------------------------ R1 transfer function
    # dedispersing to infinite frequency (the usual reference when arrival times are quoted "at infinite frequency"): 1/f_ref is 0
    # and the statement's form stays finite; an algebraically equal rewrite that divides by f_ref**2 gives inf/inf there
    ev = ck.evaluator()
    hinf = ck.attempt("R1", f_chirp.where, "chirp_function(N, dt, f_c, f_ref = inf)", "evaluates for an infinite reference frequency",
                      lambda: ev.call(f_chirp, [Num(N), Num(1 / (SR * Hz), kind="quantity"), q(fc), Num(sp.oo * Hz, kind="quantity")], {"use_dask": BoolV(False)}, self_val=dm),
                      ev=ev, allowed_guards=[])
    if hinf is not None and isinstance(hinf, Num):
        finite = not hinf.expr.has(sp.nan) and not hinf.expr.has(sp.zoo)
        ck.same("R1", f_tf.where, "transfer function for f_ref = inf", "finite (no inf/inf, 0*inf): the reference enters only through 1/f_ref",
                finite, found=str(hinf.expr)[:120], nontrivial=True)
        if finite:
            want = expected_H(fc * Hz, sp.Symbol("FREF_INF", positive=True) * Hz, kb, N)
            want = want.expr if isinstance(want, Num) else want
            want = sp.limit(want, sp.Symbol("FREF_INF", positive=True), sp.oo) if not isinstance(want, tuple) else want
            ck.eq("R1", f_tf.where, "transfer function for f_ref = inf: value", "H == exp(-2*pi*i*K*DM/f), the limit of the statement's formula", hinf, want)
    terms_by_mode = {}
    for use_dask in (False, True):
        ev = ck.evaluator()
        h = ck.attempt("R1", f_chirp.where, f"chirp_function(N, dt, f_c, f_ref, use_dask={use_dask})",
                       "evaluates with consistent units (the exponent converts to radians)",
                       lambda: ev.call(f_chirp, [Num(N), Num(1 / (SR * Hz), kind="quantity"), q(fc), q(fr_)],
                                       {"use_dask": BoolV(use_dask)},
                                       self_val=dm), ev=ev, allowed_guards=[])
        if h is None:
            continue
        terms_by_mode[use_dask] = h
        prec = [t for t in ev.trace if t[0] in ("exp-dtype", "precision-cast")]
        ck.same("R1", f_tf.where, f"phase evaluation precision (use_dask={use_dask})",
                "the chirp phase is exponentiated at full precision (no dtype=/reduced-precision scalar in the exponent path)",
                not prec, found=str(prec)[:200] if prec else None, nontrivial=True)
        ck.eq("R1", f_tf.where, f"transfer function (use_dask={use_dask})",
              "H == exp(-2*pi*i*K*DM*f*(1/f_ref - 1/f)^2), f = f_c + fftfreq(N, dt), K = 1/2.41e-4 s MHz^2 cm^3/pc",
              h, expected_H(fc * Hz, fr_ * Hz, kb, N))
        if h.expr.func is sp.exp:
            expo = h.expr.args[0]
            ck.same("R1", f_tf.where, f"exponent (use_dask={use_dask})", "the exponent is dimensionless",
                    not terms.has_unit_symbols(sp.simplify(expo)), found=str(sp.simplify(expo))[:200], nontrivial=True)
            ck.eq("R1", f_tf.where, f"|H| (use_dask={use_dask})", "exponent is purely imaginary, so |H| = 1 (derived)", sp.re(expo), 0)
            ck.eq("R1", f_tf.where, f"H(DM)*H(-DM) (use_dask={use_dask})", "== 1: DM followed by -DM cancels (derived)",
                  expo + expo.subs(DMv, -DMv), 0)
        else:
            ck.unk("R1", f_tf.where, "transfer function", "is an exponential", f"term {str(h.expr)[:120]}")
        if use_dask:
            fd = [t for t in ev.trace if t[0] == "from_delayed"]
            ok = bool(fd)
            found = "no from_delayed call"
            if fd:
                _, res, dt_decl, shp_decl, node = fd[0]
                sh_ok = hasattr(shp_decl, "items") and len(shp_decl.items) == 1 and sp.simplify(shp_decl.items[0].expr - N) == 0
                dt_ok = isinstance(dt_decl, ExtV) and isinstance(res.dtype, ExtV) and dt_decl.dotted == res.dtype.dotted \
                    and res.dtype.dotted == "numpy.complex64"
                res_shape_ok = res.shape is not None and len(res.shape) == 1 and sp.simplify(res.shape[0] - N) == 0
                ok = sh_ok and dt_ok and res_shape_ok
                found = f"declared dtype={dt_decl!r} shape={shp_decl!r}; eager result dtype={res.dtype!r} shape={res.shape}"
            ck.same("R2", f_chirp.where, "da.from_delayed(..., dtype=, shape=)", "the lazy chirp declares exactly the dtype and shape the eager function returns (complex64, (N,))",
                    ok, found=found, nontrivial=True)
    if len(terms_by_mode) == 2:
        ck.eq("R2", f_chirp.where, "eager vs delayed chirp", "both back ends build the same transfer function from the same arguments",
              terms_by_mode[False], terms_by_mode[True])

    # ------------------------------------------------------------------ R2 / R3 on signals
    # (the third scenario dedisperses to infinite frequency: every rule below holds with 1/f_ref = 0)
    scen = [("numpy", 2, "bottom", None, True), ("dask", 3, "center", fr_, True), ("numpy", 4, "top", sp.oo, True)]
    if run.tier == "thorough":
        scen += [("numpy", 3, "center", fr_, False), ("dask", 2, "top", None, True), ("numpy", 1, "center", None, True)]
    # RF: the reference frequency in its accepted forms ("at infinite frequency" is written np.inf as often as np.inf * u.MHz)
    for nchan_f in (1, 3):
        zf = make_signal(prog, "BasebandSignal", nchan=nchan_f, freq_align="center")
        ck.forms("RF", f_coh.where, f"coherent_dedispersion(BasebandSignal[nchan={nchan_f}], DM, ref_freq=inf)",
                 lambda ev, v, zf=zf: ev.call(f_coh, [zf, dm], {"ref_freq": v}),
                 [("inf * u.Hz", Num(sp.oo * Hz, kind="quantity")), ("bare inf", Num(sp.oo))],
                 "an infinite reference frequency means the same whether or not it carries a unit")
    for backend, nchan, al, ref, has_t in scen:
        tag = f"[{backend}, nchan={nchan}, {al}, ref={'center_freq' if ref is None else ('infinite' if ref == sp.oo else 'free')}{'' if has_t else ', no start_time'}]"
        extra = (sp.Integer(2),) if nchan == 2 else ()
        clsname = "DualPolarizationSignal" if extra else "BasebandSignal"
        z = make_signal(prog, clsname, nchan=nchan, freq_align=al, start_time=has_t, backend=backend)
        ev = ck.evaluator()
        kw = {} if ref is None else {"ref_freq": q(ref)}
        labels = ck.attempt("R2", f_cfs.where, "z.channel_freqs " + tag, "evaluates", lambda: ev.getattr(z, "channel_freqs", FR()), ev=ev)
        if labels is None:
            continue
        refq = CF * Hz if ref is None else ref * Hz
        chirp = ck.attempt("R2", f_cfs.where, "chirp_from_signal(z) " + tag, "evaluates",
                           lambda: ev.call(f_cfs, [z], kw, self_val=dm), ev=ev, allowed_guards=[])
        if chirp is None:
            continue
        if not isinstance(chirp, StackV) or chirp.axis != 1 or len(chirp.items) != nchan:
            ck.same("R2", f_cfs.where, "chirp_from_signal result " + tag, "one chirp per channel stacked on the frequency axis", False,
                    found=repr(chirp)[:200])
            continue
        for i, c in enumerate(chirp.items):
            fi = labels.expr.subs(labels.axes[0], i)
            ck.eq("R2", f_cfs.where, f"chirp of channel {i} " + tag,
                  "== H built for that channel's label with N = len(z), dt = 1/sample_rate and the reference frequency",
                  c, expected_H(fi, refq, kb, N), constraints=_freq_constraints(nchan))
        # coherent dedispersion with internal chirp
        ev1 = ck.evaluator()
        out = ck.attempt("R3", f_coh.where, "coherent_dedispersion(z, DM) " + tag, "evaluates",
                         lambda: ev1.call(f_coh, [z, dm], kw), ev=ev1, allowed_guards=[])
        ev2 = ck.evaluator()
        out2 = ck.attempt("R3", f_coh.where, "coherent_dedispersion(z, DM, chirp=DM.chirp_from_signal(z)) " + tag, "evaluates",
                          lambda: ev2.call(f_coh, [z, dm], dict(kw, chirp=chirp)), ev=ev2, allowed_guards=[])
        csym = Num(sp.Symbol("C_user"), kind="array", shape=(N, sp.Integer(nchan)), tag="data", backend=backend)
        ev3 = ck.evaluator()
        out3 = ck.attempt("R3", f_coh.where, "coherent_dedispersion(z, DM, chirp=<arbitrary array>) " + tag, "evaluates",
                          lambda: ev3.call(f_coh, [z, dm], dict(kw, chirp=csym)), ev=ev3, allowed_guards=[])
        # a chirp prepared on the other back end (a lazily precomputed chirp applied to data in memory, or the reverse) is as good
        other = "dask" if backend == "numpy" else "numpy"
        cother = Num(sp.Symbol("C_user"), kind="array", shape=(N, sp.Integer(nchan)), tag="data", backend=other)
        ev4 = ck.evaluator()
        out4 = ck.attempt("R3", f_coh.where, f"coherent_dedispersion(z, DM, chirp=<{other} array>) " + tag, "evaluates with a chirp held on the other back end",
                          lambda: ev4.call(f_coh, [z, dm], dict(kw, chirp=cother)), ev=ev4, allowed_guards=[])
        if out4 is not None and out3 is not None and isinstance(out4.attrs.get("_data"), Num) and isinstance(out3.attrs.get("_data"), Num):
            ck.eq("R3", f_coh.where, f"supplied chirp on the other back end ({other}) " + tag, "same data term as with a chirp on the signal's own back end",
                  out4.attrs["_data"], out3.attrs["_data"])
        if out is None:
            continue
        d = out.attrs["_data"]
        mx = ev.getattr(z, "max_freq", FR()).expr
        mn = ev.getattr(z, "min_freq", FR()).expr
        d_top = expected_delay(mx, refq) * SR * Hz
        d_bot = expected_delay(mn, refq) * SR * Hz
        exp_start = sp.ceiling(-sp.Min(0, d_top, d_bot, evaluate=False), evaluate=False)
        exp_back = sp.ceiling(sp.Max(0, d_top, d_bot, evaluate=False), evaluate=False)
        cons = _freq_constraints(nchan, delay=d_bot)
        items = d.items if isinstance(d, StackV) else [d]
        if not isinstance(d, StackV) or len(items) != nchan:
            ck.same("R3", f_coh.where, "result data " + tag, "one dedispersed channel per input channel", False, found=repr(d)[:200])
            continue
        lo = hi = None
        for i, it in enumerate(items):
            ds = destructure_item(it.expr)
            if ds is None:
                ck.unk("R3", f_coh.where, f"channel {i} " + tag, "result is a time slice of the filtered data", str(it.expr)[:160])
                continue
            base, lo, hi, st, rest = ds
            fi = labels.expr.subs(labels.axes[0], i)
            spec_i = F["Take"](F["FFT"](z.attrs["_data"].expr, 0), i, 1) if nchan > 1 else F["FFT"](z.attrs["_data"].expr, 0)
            exp_base = F["IFFT"](spec_i * expected_H(fi, refq, kb, N), 0)
            ck.eq("R3", f_coh.where, f"channel {i}: filtered data " + tag, "== ifft(fft(x, axis 0) * H_i, axis 0)", base, exp_base, constraints=cons)
            ck.same("R3", f_coh.where, f"channel {i}: crop is a plain time slice " + tag, "only the time axis is cropped (step 1, no other index)",
                    st == NONE_S and len(rest) == 0, found=f"step {st}, extra indices {rest}")
        if lo is not None:
            ck.eq("R3", f_coh.where, "crop start " + tag, "== ceil(-min(0, delay_top, delay_bottom)) with delays at max_freq/min_freq",
                  lo, exp_start, constraints=cons)
            # back crop: hi == N - ceil(max(0, d_top, d_bot)) wherever that is >= start; otherwise nothing is returned
            ck.eq("R3", f_coh.where, "crop stop (delays shorter than the signal) " + tag,
                  "== N - ceil(max(0, delay_top, delay_bottom))",
                  hi, sp.Max(exp_start, N - exp_back, evaluate=False), constraints=cons)
            ck.eq("R3", f_coh.where, "crop stop (delays comparable to or longer than the signal) " + tag,
                  "== N - ceil(max(0, delay_top, delay_bottom)), clamped so that a delay longer than the signal returns no samples",
                  hi, sp.Max(exp_start, N - exp_back, evaluate=False), constraints=_big_delay(cons))
            ck.same("R3", f_coh.where, "crop bounds are non-negative by construction " + tag,
                    "C01-R5: neither bound can be read as an index from the end", is_nonneg(lo) and is_nonneg(hi),
                    found=f"start nonneg: {is_nonneg(lo)}, stop nonneg: {is_nonneg(hi)}; stop = {str(hi)[:120]}", nontrivial=True)
            if has_t:
                adv = (out.attrs["_start_time"].expr - z.attrs["_start_time"].expr) * SR * Hz
                ck.eq("R3", f_coh.where, "start_time advance " + tag, "start_time advances by the front crop (in samples, at most the length)",
                      adv, sp.Min(exp_start, N, evaluate=False), constraints=_big_delay(cons))
            else:
                ck.same("R3", f_coh.where, "start_time " + tag, "a signal without start time does not acquire one",
                        out.attrs["_start_time"] is NONE, found=repr(out.attrs["_start_time"]))
        bad_meta = meta_same(z, out, skip=("_data", "_start_time"))
        ck.same("R3", f_coh.where, "ledger " + tag, "type, sample rate and frequency labels unchanged", out.cls is z.cls and not bad_meta,
                found="; ".join(bad_meta) or obj_summary(out), nontrivial=True)
        # supplied chirp == internal chirp
        if out2 is not None:
            d2 = out2.attrs["_data"]
            same = isinstance(d2, StackV) and len(d2.items) == len(items)
            if same:
                for i, (a, b) in enumerate(zip(items, d2.items)):
                    ck.eq("R3", f_coh.where, f"supplied chirp, channel {i} " + tag, "a supplied chirp gives the same result as the internal one",
                          a, b, constraints=cons)
            else:
                ck.same("R3", f_coh.where, "supplied chirp " + tag, "same structure as with the internal chirp", False, found=repr(d2)[:160])
            if has_t:
                ck.eq("R3", f_coh.where, "supplied chirp: start_time " + tag, "same crop/start time as with the internal chirp",
                      out2.attrs["_start_time"], out.attrs["_start_time"], constraints=_big_delay(cons))
        if out3 is not None:
            d3 = out3.attrs["_data"]
            ds = destructure_item(d3.expr) if isinstance(d3, Num) else None
            if ds is None:
                ck.unk("R3", f_coh.where, "arbitrary supplied chirp " + tag, "result is a time slice of ifft(fft(x)*chirp)", repr(d3)[:160])
            else:
                base, lo3, hi3, st3, rest3 = ds
                ck.eq("R3", f_coh.where, "arbitrary supplied chirp: data " + tag, "== ifft(fft(x, 0) * chirp, 0): the supplied array is used as given",
                      base, F["IFFT"](F["FFT"](z.attrs["_data"].expr, 0) * csym.expr, 0))
                if lo is not None:
                    ck.eq("R3", f_coh.where, "arbitrary supplied chirp: crop " + tag, "the crop does not depend on how the chirp was obtained",
                          lo3 + 1000 * hi3, lo + 1000 * hi, constraints=_big_delay(cons))
    from .. import structural
    structural.report(ck, prog, "R2", [f_chirp, f_tf, f_cfs, f_coh], "pulsarbat/transforms/dedispersion.py")
    # the FFT routines work on (views of) the caller's data: they must never be given permission to overwrite their operand
    from ..structural import overwrite_report
    overwrite_report(ck, prog, "R2")
    run.extra["decided_by"] = ck.how


def _big_delay(cons):
    """Sampler that makes delays comparable to / larger than the (small) length, to reach the clamped region."""
    def c(pt):
        pt = cons(pt)
        if N in pt:
            pt[N] = sp.Integer(int(pt[N]) % 37 + 1)
        if DMv in pt:
            pt[DMv] = pt[DMv] * 8
        return pt
    return c
