"""C12 - snippet returns exactly n samples starting exactly at the requested time."""
from __future__ import annotations

import random
import sympy as sp

from ..spec import Checker, FR, obj_summary, nonzero_shift_oracle
from ..sigmodel import make_signal, N, NCHAN, CF, BW, SR, T0
from ..values import Num, StrV, ObjV, NONE, Hz, F, NONE_S, TupleV, SliceV, BoolV
from ..symeval import Raised
from ..values import Unsupported
from .. import terms
from .c13 import meta_same
from .c06 import destructure_item

EXPLANATION = (
    "snippet() is evaluated by the term evaluator for t given as a sample count, a duration and an absolute Time, for "
    "whole-sample t (integer symbol) and fractional t (real symbol with the test int(t) < t decided true): the three forms must "
    "produce the same terms under t = tau*sample_rate = (T - start_time)*sample_rate; the output start time must equal "
    "start_time + t/sample_rate (composition of the shift, the re-stamped start and the final slice through the package's own "
    "slicing), the length must equal n (exact evaluation of the extracted length term on the admissible region), whole-sample "
    "requests must be the plain slice z[t:t+n] without entering the FFT path, the fractional path must use the shift i - t, and "
    "each out-of-range request must raise ValueError. Interpolation accuracy is not decided."
)


def check(run, prog):
    run.explanation = EXPLANATION
    run.assumptions += ["real-number semantics", "int() truncation modelled exactly (floor for non-negative arguments)"]
    ck = Checker(run, prog)
    f_snip = prog.func("snippet")
    f_tsh = prog.func("time_shift")
    run.touched(f_snip)
    run.touched(f_tsh)
    t = sp.Symbol("t", real=True)
    ti = sp.Symbol("ti", integer=True)
    n = sp.Symbol("n", integer=True)
    tau = sp.Symbol("tau", real=True)
    Tabs = sp.Symbol("Tabs", real=True)

    def oracle(frac):
        def o(c, node, fr):
            if frac and node is not None and fr is not None and fr.fi is not None and fr.fi.qualname == "snippet":
                txt = __import__("ast").unparse(getattr(node, "test", node)).replace(" ", "")
                if txt == "(i:=int(t))<t":
                    return True             # t is not a whole number in this scenario
                # any other spelling of the same question: a test in t alone that has one answer at every fractional t
                try:
                    if isinstance(c, (sp.Basic,)) and c.free_symbols == {t} and c.has(sp.floor, sp.ceiling, sp.Mod, sp.frac):
                        vals = {bool(c.subs(t, v)) for v in (sp.Rational(1, 3), sp.Rational(5, 2), sp.Rational(31, 4), sp.Rational(1001, 8))}
                        if len(vals) == 1:
                            return vals.pop()
                except Exception:
                    pass
            return None
        return nonzero_shift_oracle(o)

    def region(pt):
        """0 <= t, t + n <= N, n >= 0, fractional t."""
        pt = dict(pt)
        nn = abs(int(pt.get(n, 3))) % 9
        NN = nn + abs(int(pt.get(N, 5))) % 23 + 2
        pt[N] = sp.Integer(NN)
        if n in pt:
            pt[n] = sp.Integer(nn)
        frac = sp.Rational(abs(int(pt.get(t, sp.Rational(1, 3)).p)) % 6 + 1, 7)
        whole = abs(int(pt.get(t, sp.Integer(1)).q)) % (NN - nn) if NN - nn > 0 else 0
        if t in pt:
            pt[t] = sp.Integer(min(whole, NN - nn - 1)) + frac if NN - nn >= 1 else frac
            if pt[t] + nn > NN:
                pt[t] = frac if nn + 1 <= NN else sp.Integer(0)
        if ti in pt:
            pt[ti] = sp.Integer(whole)
        if tau in pt and t in pt:
            pass
        return pt

    for has_t, clsname, dtype in ((True, "BasebandSignal", "complex128"), (False, "BasebandSignal", "complex128"), (True, "Signal", "float64"),
                                  (True, "Signal", "int16")):
        z = make_signal(prog, clsname, nchan=2, start_time=has_t, dtype=dtype)
        tag = ("" if has_t else " (no start_time)") + ("" if dtype.startswith("complex") else " [real data]")
        # ----------------------------------------------------------- whole-sample t
        ev = ck.evaluator(oracle=oracle(False))
        out = ck.attempt("R2", f_snip.where, "snippet(z, ti, n), ti integer" + tag, "evaluates", lambda: ev.call(f_snip, [z, Num(ti), Num(n)], {}),
                         ev=ev, allowed_guards=["ValueError"])
        if out is not None:
            d = out.attrs["_data"]
            ck.same("R2", f_snip.where, "whole-sample t: data" + tag, "equals the plain slice z[t:t+n] exactly (the FFT path is not entered)",
                    isinstance(d, Num) and d.expr == F["Idx"](z.attrs["_data"].expr, F["Tup"](F["Slc"](ti, n + ti, NONE_S))),
                    found=str(getattr(d, "expr", d))[:200], nontrivial=True)
            if has_t:
                ck.eq("R2", f_snip.where, "whole-sample t: start_time", "== start_time + t/sample_rate",
                      out.attrs["_start_time"].expr, (T0 + ti / SR) / Hz, constraints=region)
            else:
                ck.same("R2", f_snip.where, "whole-sample t: start_time" + tag, "no start time is invented", out.attrs["_start_time"] is NONE)
            if isinstance(d, Num) and d.shape:
                ck.eq("R2", f_snip.where, "whole-sample t: length" + tag, "exactly n samples", d.shape[0], n, constraints=region)
        # ----------------------------------------------------------- fractional t
        evf = ck.evaluator(oracle=oracle(True))
        outf = ck.attempt("R2", f_snip.where, "snippet(z, t, n), t fractional" + tag, "evaluates", lambda: evf.call(f_snip, [z, Num(t), Num(n)], {}),
                          ev=evf, allowed_guards=["ValueError"])
        if outf is not None:
            d = outf.attrs["_data"]
            if has_t:
                ck.eq("R2", f_snip.where, "fractional t: start_time", "== start_time + t/sample_rate (shift, re-stamp and final slice compose)",
                      outf.attrs["_start_time"].expr, (T0 + t / SR) / Hz, constraints=region)
            else:
                ck.same("R2", f_snip.where, "fractional t: start_time" + tag, "no start time is invented", outf.attrs["_start_time"] is NONE)
            if isinstance(d, Num) and d.shape:
                ck.eq("R2", f_snip.where, "fractional t: length" + tag, "exactly n samples", d.shape[0], n, constraints=region)
            ds = destructure_item(d.expr) if isinstance(d, Num) else None
            inner = destructure_item(ds[0]) if ds else None
            if not inner:
                ck.unk("R2", f_snip.where, "fractional t: data" + tag, "a slice of the cropped, time-shifted data", str(getattr(d, "expr", d))[:200])
            else:
                kb = sp.Symbol("kbin", integer=True)
                i = sp.floor(t)
                exp_shifted = F["IFFT"](F["FFT"](z.attrs["_data"].expr, 0) * sp.exp(-2 * sp.pi * sp.I * (i - t) * kb / N), 0)
                if not dtype.startswith("complex"):
                    exp_shifted = sp.re(exp_shifted)
                ck.eq("R2", f_snip.where, "fractional t: interpolated data" + tag,
                      "== ifft(fft(x) * exp(-2*pi*i*(i - t)*k/N)): the DFT delay by i - t, i = floor(t)", inner[0], exp_shifted, constraints=region)
                ck.eq("R2", f_snip.where, "fractional t: final slice" + tag, "z'[i : i+n] on the shifted signal", ds[1] + 1000 * ds[2], i + 1000 * (i + n),
                      constraints=region)
        # ----------------------------------------------------------- the three forms denote the same instant
        if has_t and outf is not None and dtype.startswith("complex"):
            evq = ck.evaluator(oracle=oracle(True))
            outq = ck.attempt("R1", f_snip.where, "snippet(z, tau [s], n)", "evaluates", lambda: evq.call(f_snip, [z, Num(tau / Hz, kind="quantity"), Num(n)], {}),
                              ev=evq, allowed_guards=["ValueError"])
            evT = ck.evaluator(oracle=oracle(True))
            outT = ck.attempt("R1", f_snip.where, "snippet(z, T [Time], n)", "evaluates", lambda: evT.call(f_snip, [z, Num(Tabs / Hz, kind="time"), Num(n)], {}),
                              ev=evT, allowed_guards=["ValueError"])
            for o, sub, what in ((outq, {t: tau * SR}, "duration"), (outT, {t: (Tabs - T0) * SR}, "absolute Time")):
                if o is None:
                    continue

                def reg2(pt, sub=sub):
                    pt = dict(pt)
                    pt[t] = pt.get(t, sp.Rational(5, 3))
                    pt.setdefault(N, sp.Integer(11))
                    pt.setdefault(n, sp.Integer(3))
                    pt = region(pt)
                    # choose tau / Tabs so that the substituted t equals the sampled admissible t
                    if tau in pt or what == "duration":
                        pt[tau] = pt[t] / pt.get(SR, 1)
                    pt[Tabs] = pt.get(T0, 0) + pt[t] / pt.get(SR, 1)
                    return pt
                ck.eq("R1", f_snip.where, f"t as {what}: start_time", "same instant as the sample-count form under t = (time offset)*sample_rate",
                      o.attrs["_start_time"].expr, outf.attrs["_start_time"].expr.subs(sub), constraints=reg2)
                do, df = o.attrs["_data"], outf.attrs["_data"]
                if isinstance(do, Num) and isinstance(df, Num):
                    ck.eq("R1", f_snip.where, f"t as {what}: data", "same data term as the sample-count form", do.expr, df.expr.subs(sub), constraints=reg2)
    # ----------------------------------------------------------------- rejections
    z = make_signal(prog, "BasebandSignal", nchan=2, n=16)
    zn = make_signal(prog, "BasebandSignal", nchan=2, n=16, start_time=False)
    rej = [("n = -1", [z, Num(2), Num(-1)]), ("t = -1", [z, Num(-1), Num(2)]), ("t + n = len + 1", [z, Num(10), Num(7)]),
           ("t = -0.5 samples", [z, Num(sp.Rational(-1, 2)), Num(1)]), ("t = 15.5, n = 1", [z, Num(sp.Rational(31, 2)), Num(1)]),
           ("t = -1 s (duration)", [z, Num(-1 / Hz, kind="quantity"), Num(1)]),
           ("Time for a signal without start_time", [zn, Num(Tabs / Hz, kind="time"), Num(1)])]
    for label, args in rej:
        ev = ck.evaluator(oracle=oracle(True))
        try:
            ev.call(f_snip, args, {})
            ck.same("R1", f_snip.where, f"snippet: {label}", "the out-of-range request raises ValueError", False, found="returned a signal")
        except Raised as e:
            ck.same("R1", f_snip.where, f"snippet: {label}", "the out-of-range request raises ValueError",
                    e.exc_name in ("ValueError", "InvalidSignalError"), found=str(e)[:160], nontrivial=True)
        except Unsupported as e:
            ck.unk("R1", f_snip.where, f"snippet: {label}", "the out-of-range request raises ValueError", str(e))
    # in-range boundary requests are accepted
    for label, args in (("t = 0, n = len", [z, Num(0), Num(16)]), ("t = len, n = 0", [z, Num(16), Num(0)]), ("t = 15.5, n = 0", [z, Num(sp.Rational(31, 2)), Num(0)])):
        ev = ck.evaluator(oracle=oracle(True))
        try:
            o = ev.call(f_snip, args, {})
            ck.same("R1", f_snip.where, f"snippet: {label}", "a boundary request inside [0, len] is accepted", isinstance(o, ObjV))
        except Raised as e:
            ck.same("R1", f_snip.where, f"snippet: {label}", "a boundary request inside [0, len] is accepted", False, found=str(e)[:160])
        except Unsupported as e:
            ck.unk("R1", f_snip.where, f"snippet: {label}", "a boundary request inside [0, len] is accepted", str(e))
    # NT: the sample position may be a NumPy scalar (float32 out of an array, an integer from NumPy arithmetic)
    for label, tv, kinds in (("t = 10.5", sp.Rational(21, 2), ("float32", "float16", "longdouble", "float64")), ("t = 3", 3, ("int64", "int32", "float32"))):
        ck.number_types("NT", f_snip.where, f"snippet(z, {label}, 4)", lambda ev, mk, tv=tv: ev.call(f_snip, [z, mk(tv), Num(4)], {}),
                        kinds=kinds, oracle=oracle(True))
    # the FFT routines work on (views of) the caller's data: they must never be given permission to overwrite their operand
    from ..structural import overwrite_report
    overwrite_report(ck, prog, "R1")
    run.extra["decided_by"] = ck.how
