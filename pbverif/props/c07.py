"""C07 - Phase arithmetic keeps two-double precision for every operand kind."""
from __future__ import annotations

import ast
import sympy as sp

from ..spec import Checker, FR
from ..values import Num, StrV, NONE, ExtV, ObjV, TupleV, DictV, BoolV, ClassV, NoneV, Unsupported, DimensionError
from ..symeval import Raised
from ..model import norm
from ..phasemodel import make_phase, phase_evaluator, PhaseLog, Captured, part, CYCLE, PH

EXPLANATION = (
    "Phase.__array_ufunc__, Phase.__new__, check_imaginary and from_angles are evaluated by the term evaluator on a model of Phase "
    "objects (two real symbols for the integer and fractional parts plus the imaginary flag; field access, ndarray views and the "
    "final day_frac step are supplied by the model, the dispatch logic is the package's own). For every ufunc family of the "
    "statement and every operand arrangement (Phase/Phase, Phase/number, number/Phase, dimensionless and scaled-dimensionless "
    "Quantities, out=/in-place forms) the recorded construction call must be from_angles applied to the *separate* integer and "
    "fractional parts (add/subtract: the ufunc applied part-wise; multiply/divide: parts plus factor/divisor carrying the physical "
    "dimensionless value; negative/absolute/positive), trigonometric functions and exp(i*phase) must see the fractional part only, "
    "and no arrangement may fall back to the single-double Quantity path. The real/imaginary bookkeeping of from_angles is evaluated "
    "for all flag combinations and compared with i^a * i^b resp. i^a / i^b. Structural rule: a never-copy constructor argument "
    "(copy=False under NumPy 2) is only applied to values of ndarray provenance. The error-free transformations inside day_frac "
    "(two_sum, two_product) are not decided."
)


def uf(name, nin, nout=1):
    return ExtV(f"ufunc:{name}:{nin}:{nout}")


def check(run, prog):
    run.explanation = EXPLANATION
    run.assumptions += ["astropy Angle/Quantity construction and unit conversion as modelled in pbverif/extapi.py",
                        "NumPy >= 2 semantics of copy=False (raise if a copy is needed)"]
    ck = Checker(run, prog)
    r1_copy_false(ck, prog, run)
    r2_dispatch(ck, prog, run)
    r3_r4_from_angles(ck, prog, run)
    r5_day_frac(ck, prog, run)
    day_frac_shapes(ck, prog, run)
    run.extra["decided_by"] = ck.how


# ---------------------------------------------------------------------------------------- R1
NEVER_COPY_CTORS = {"astropy.coordinates.Angle", "astropy.coordinates.Longitude", "astropy.units.Quantity", "numpy.array", "numpy.asarray",
                    "numpy.asanyarray"}


def r1_copy_false(ck, prog, run):
    mi = prog.module("pulsarbat.pulsar.phase")
    n_sites = 0
    for f in prog.all_functions:
        if f.module != mi.name or isinstance(f.node, ast.Lambda):
            continue
        for c in ast.walk(f.node):
            if not isinstance(c, ast.Call):
                continue
            d = prog.resolve_expr_name(mi, c.func)
            if d not in NEVER_COPY_CTORS:
                continue
            cp = [k for k in c.keywords if k.arg == "copy"]
            if not cp or not (isinstance(cp[0].value, ast.Constant) and cp[0].value.value is False):
                continue
            n_sites += 1
            run.touched(f)
            arg = c.args[0] if c.args else None
            ok, why = _ndarray_provenance(f, arg)
            ck.same("R1", f.where, norm(c)[:120], "copy=False (never copy) is only given operands of ndarray provenance; a Python/NumPy scalar or "
                    "arbitrary input would make the constructor raise and the operation degrade or fail", ok, found=why, nontrivial=True)
    run.extra["never_copy_constructor_sites"] = n_sites


def _ndarray_provenance(f, arg):
    """arg is X[...] with X = <expr>.view(np.ndarray), or a direct np.asarray/np.empty/... result."""
    if arg is None:
        return False, "no operand"
    node = arg
    if isinstance(node, ast.Subscript):
        node = node.value
    if isinstance(node, ast.Name):
        defs = [s for s in ast.walk(f.node) if isinstance(s, ast.Assign) and any(isinstance(t, ast.Name) and t.id == node.id for t in s.targets)]
        if len(defs) == 1:
            node = defs[0].value
        else:
            return False, f"operand {norm(arg)} is a parameter or has several definitions"
    if isinstance(node, ast.Call) and isinstance(node.func, ast.Attribute) and node.func.attr == "view" and node.args \
            and norm(node.args[0]) in ("np.ndarray", "numpy.ndarray"):
        return True, "view(np.ndarray)"
    if isinstance(node, ast.Call) and norm(node.func) in ("np.asarray", "np.asanyarray", "np.empty", "np.zeros", "np.array"):
        return True, norm(node.func)
    return False, f"operand {norm(arg)} is not known to be an ndarray ({norm(node)[:60]})"


# ---------------------------------------------------------------------------------------- R2
def run_uf(prog, name, inputs, self_index, kwargs=None, oracle=None):
    log = PhaseLog()
    ev = phase_evaluator(prog, log, oracle=oracle)
    f = prog.func("Phase.__array_ufunc__")
    nout = 2 if name in ("divmod",) else 1
    res = ev.call(f, [uf(name, len(inputs), nout), StrV("__call__")] + list(inputs), dict(kwargs or {}), self_val=inputs[self_index])
    calls = [t for t in ev.trace if t[0] == "ufunc-call"]
    fallbacks = [t for t in ev.trace if t[0] == "fallback"]
    return res, log.events, calls, ev


def parts_of(v, which):
    """Expected term of the int/frac part of an operand (Phase model object or a Phase built by the package from a number)."""
    if isinstance(v, ObjV):
        return part(v, which).expr
    return None


def r2_dispatch(ck, prog, run):
    f = prog.func("Phase.__array_ufunc__")
    run.touched(f)
    run.touched(prog.func("Phase.__new__"))
    c = sp.Symbol("c", real=True)
    n_fam = 0

    def attempt(label, thunk):
        return ck.attempt("R2", f.where, label, "the dispatch logic evaluates on the Phase model", thunk)

    # ---- add / subtract
    for name in ("add", "subtract"):
        for label, mk, si in (("Phase, Phase", lambda p, q: [p, q], 0), ("Phase, number", lambda p, q: [p, Num(c)], 0),
                              ("number, Phase", lambda p, q: [Num(c), p], 1), ("Phase, Quantity in cycles", lambda p, q: [p, Num(c * CYCLE, kind="quantity", unit=CYCLE)], 0),
                              ("imaginary Phase, imaginary Phase", lambda p, q: [p, q], 0)):
            imag = label.startswith("imaginary")
            p, q = make_phase(prog, "p", imag), make_phase(prog, "q", imag)
            ins = mk(p, q)
            for outlabel, kw in (("", {}), (" with out=(phase,)", {"out": TupleV([make_phase(prog, "o", imag)])})):
                if outlabel and label != "Phase, Phase":
                    continue
                n_fam += 1
                tag = f"np.{name}({label}){outlabel}"
                r = attempt(tag, lambda: run_uf(prog, name, ins, si, kw))
                if r is None:
                    continue
                res, events, calls, ev = r
                fa = [e for e in events if e[0] == "from_angles"]
                final = fa[-1][1] if fa else None
                if final is None or not isinstance(res, ObjV):
                    ck.same("R2", f.where, tag, "the result is a Phase built by from_angles from separate parts (no single-double fallback)", False,
                            found=f"result {str(res)[:80]}; from_angles calls: {len(fa)}", nontrivial=True)
                    continue
                # operands as Phase objects: model objects, or results of the package's own Phase(number)
                ops = []
                built = [e for e in fa[:-1]]
                bi = 0
                for x in ins:
                    if isinstance(x, ObjV):
                        ops.append((part(x, "int").expr, part(x, "frac").expr))
                    else:
                        if bi >= len(built):
                            ops.append(None)
                            continue
                        src = built[bi][1]["phase1"]
                        ok_src = isinstance(src, Num) and sp.simplify(src.expr - c * CYCLE) == 0
                        k = bi + 1
                        ops.append((sp.Symbol(f"R{k}_int", real=True) * CYCLE, sp.Symbol(f"R{k}_frac", real=True) * CYCLE) if ok_src else None)
                        bi += 1
                if any(o is None for o in ops):
                    ck.same("R2", f.where, tag, "a plain number operand is first turned into a Phase (two parts) by the constructor", False,
                            found=str([{k: str(v)[:50] for k, v in e[1].items()} for e in fa]), nontrivial=True)
                    continue
                U = sp.Function(f"Ufunc_{name}_0")
                ok = isinstance(final["phase1"], Num) and isinstance(final["phase2"], Num) \
                    and final["phase1"].expr == U(ops[0][0], ops[1][0]) and final["phase2"].expr == U(ops[0][1], ops[1][1])
                ck.same("R2", f.where, tag, f"from_angles({name}(int0, int1), {name}(frac0, frac1)): the ufunc is applied to the integer parts and the fractional parts separately, in operand order",
                        ok, found=f"phase1={str(final['phase1'])[:90]} phase2={str(final['phase2'])[:90]}", nontrivial=True)
                if outlabel:
                    ck.same("R2", f.where, tag + ": target", "the given Phase output is handed to from_angles and returned (in-place forms keep full precision)",
                            final["out"] is kw["out"].items[0] and res is kw["out"].items[0], found=f"out passed: {final['out']!r}", nontrivial=True)
    # mixed real/imaginary addition is not a Phase (falls back) - not part of the statement

    # ---- multiply / divide
    scaled = Num(sp.Rational(1, 2), kind="quantity", unit=sp.Rational(1, 100))      # 50 percent
    for name, kwname in (("multiply", "factor"), ("divide", "divisor")):
        arr = [("Phase, python/numpy scalar", lambda p: [p, Num(c)], 0, c), ("Phase, dimensionless Quantity", lambda p: [p, Num(c, kind="quantity", unit=sp.Integer(1))], 0, c),
               ("Phase, scaled dimensionless Quantity (50 %)", lambda p: [p, scaled], 0, sp.Rational(1, 2)),
               ("Phase, imaginary scalar", lambda p: [p, Num(sp.I * c, dtype=ExtV("numpy.complex128"))], 0, sp.I * c)]
        if name == "multiply":
            arr.append(("scalar, Phase", lambda p: [Num(c), p], 1, c))
        for label, mk, si, expected in arr:
            for imag in (False, True):
                for outlabel in ("", " in place"):
                    if outlabel and label != "Phase, python/numpy scalar":
                        continue
                    n_fam += 1
                    p = make_phase(prog, "p", imag)
                    ins = mk(p)
                    exp_int, exp_frac = part(p, "int").expr, part(p, "frac").expr
                    kw = {"out": TupleV([p])} if outlabel else {}
                    tag = f"np.{name}({label}){' [imaginary phase]' if imag else ''}{outlabel}"
                    r = attempt(tag, lambda: run_uf(prog, name, ins, si, kw))
                    if r is None:
                        continue
                    res, events, calls, ev = r
                    fa = [e for e in events if e[0] == "from_angles"]
                    ok = len(fa) == 1 and isinstance(res, ObjV)
                    found = f"result {str(res)[:60]}; from_angles calls {len(fa)}"
                    if ok:
                        a = fa[0][1]
                        other = "divisor" if kwname == "factor" else "factor"
                        ok = isinstance(a["phase1"], Num) and isinstance(a["phase2"], Num) and a["phase1"].expr == exp_int \
                            and a["phase2"].expr == exp_frac and isinstance(a[kwname], Num) and sp.simplify(a[kwname].expr - expected) == 0 \
                            and isinstance(a[other], NoneV)
                        found = str({k: str(v)[:60] for k, v in a.items()})
                        if outlabel:
                            ok = ok and a["out"] is p and res is p
                    ck.same("R2", f.where, tag, f"from_angles(int, frac, {kwname}=<dimensionless value>): scaling happens on the two-part sum, with the physical value of the operand",
                            ok, found=found, nontrivial=True)
    # ---- unary
    for name, chk in (("negative", lambda a, p: a["phase1"].expr == -part(p, "int").expr and a["phase2"].expr == -part(p, "frac").expr and isinstance(a["factor"], NoneV)),
                      ("positive", lambda a, p: a["phase1"].expr == part(p, "int").expr and a["phase2"].expr == part(p, "frac").expr and isinstance(a["factor"], NoneV)),
                      ("absolute", None), ("fabs", None)):
        for imag in (False, True):
            n_fam += 1
            p = make_phase(prog, "p", imag)
            tag = f"np.{name}(Phase){' [imaginary]' if imag else ''}"
            r = attempt(tag, lambda: run_uf(prog, name, [p], 0))
            if r is None:
                continue
            res, events, calls, ev = r
            fa = [e for e in events if e[0] == "from_angles"]
            ok = len(fa) == 1 and isinstance(res, ObjV)
            found = f"result {str(res)[:60]}"
            if not fa and isinstance(res, ObjV) and name in ("negative", "positive") and not [t for t in ev.trace if t[0] == "fallback"]:
                # built some other way (say, by changing the sign of the two stored fields in place, which is exact and stays inside the
                # symmetric range of the fraction): neither the from_angles route nor a fallback -- not decided by this rule
                ck.unk("R2", f.where, tag, "built by from_angles from the separate parts", "the result is a Phase assembled without from_angles and without the "
                       "single-double fallback: the stored fields are written directly, which this rule cannot follow")
                continue
            if ok:
                a = fa[0][1]
                found = str({k: str(v)[:60] for k, v in a.items()})
                if chk is not None:
                    ok = bool(chk(a, p))
                else:
                    pi_, pf_ = p.attrs["_pint"].expr, p.attrs["_pfrac"].expr
                    ok = isinstance(a["phase1"], Num) and sp.simplify(a["phase1"].expr - pi_ * CYCLE) == 0 and sp.simplify(a["phase2"].expr - pf_ * CYCLE) == 0 \
                        and isinstance(a["factor"], Num) and a["factor"].expr == sp.sign(pi_ + pf_)
            ck.same("R2", f.where, tag, "built by from_angles from the separate parts (absolute value: real parts times sign(int + frac))", ok, found=found, nontrivial=True)
    # ---- floor_divide / remainder / divmod
    d = Num(c * CYCLE, kind="quantity", unit=CYCLE)
    for name in ("floor_divide", "remainder", "divmod"):
        n_fam += 1
        p = make_phase(prog, "p")
        tag = f"np.{name}(Phase, Quantity in cycles)"
        r = attempt(tag, lambda: run_uf(prog, name, [p, d], 0))
        if r is None:
            continue
        res, events, calls, ev = r
        fa = [e[1] for e in events if e[0] == "from_angles"]
        coarse = [t for t in calls if t[1] == "floor_divide"]
        ok = len(fa) >= 2 and len(coarse) >= 1
        found = f"{len(fa)} from_angles calls, {len(coarse)} coarse quotients"
        if ok:
            fd = sp.Function("Ufunc_floor_divide_0")(part(p, "int").expr + part(p, "frac").expr, c * CYCLE)
            a0, a1 = fa[0], fa[1]
            U = sp.Function("Ufunc_subtract_0")
            ok = isinstance(a0["phase1"], Num) and sp.simplify(a0["phase1"].expr - c * CYCLE) == 0 and isinstance(a0["factor"], Num) and a0["factor"].expr == fd \
                and isinstance(a1["phase1"], Num) and a1["phase1"].expr == U(part(p, "int").expr, sp.Symbol("R1_int", real=True) * CYCLE) \
                and a1["phase2"].expr == U(part(p, "frac").expr, sp.Symbol("R1_frac", real=True) * CYCLE)
            found = str([{k: str(v)[:50] for k, v in a.items() if not isinstance(v, NoneV)} for a in fa[:2]])
        ck.same("R2", f.where, tag, "the single-double quotient is only a coarse estimate: divisor*quotient is rebuilt as a two-part Phase and subtracted part-wise (exact correction)",
                ok, found=found, nontrivial=True)
        # -- the refinement step and what is handed back
        if not ok:
            continue
        R = lambda k, w: sp.Symbol(f"R{k}_{w}", real=True)
        FD = sp.Function("Ufunc_floor_divide_0")
        fd0 = FD(part(p, "int").expr + part(p, "frac").expr, c * CYCLE)
        fdx = FD(R(2, "frac") * CYCLE + R(2, "int") * CYCLE, c * CYCLE)
        second = coarse[1] if len(coarse) > 1 else None
        ok2 = second is not None and len(second[2]) == 2 and all(isinstance(x, Num) for x in second[2]) \
            and sp.simplify(second[2][0].expr - (R(2, "int") + R(2, "frac")) * CYCLE) == 0 and sp.simplify(second[2][1].expr - c * CYCLE) == 0
        if second is None or len(fa) != 4:
            ck.unk("R2", f.where, tag + ": refinement", "the refinement has the known skeleton (coarse quotient, exact remainder, residual quotient, exact remainder)",
                   f"{len(coarse)} coarse quotients, {len(fa)} from_angles calls: another algorithm, not decided here")
            continue
        ck.same("R2", f.where, tag + ": refinement", "the residual quotient is floor_divide(first remainder as one double, divisor), operands in that order",
                ok2, found=str([str(x)[:70] for x in (second[2] if second else [])]), nontrivial=True)
        def plain(e_):
            """np.add(a, b[, out=a]) of plain numbers is a + b (the Phase model keeps ufunc applications opaque)."""
            return e_.replace(lambda t: getattr(t.func, "__name__", "") == "Ufunc_add_0" and len(t.args) == 2, lambda t: t.args[0] + t.args[1])
        ok3 = len(fa) >= 4 and isinstance(fa[2]["factor"], Num) and sp.simplify(plain(fa[2]["factor"].expr) - (fd0 + fdx)) == 0 \
            and isinstance(fa[2]["phase1"], Num) and sp.simplify(fa[2]["phase1"].expr - c * CYCLE) == 0 \
            and isinstance(fa[3]["phase1"], Num) and fa[3]["phase1"].expr == U(part(p, "int").expr, R(3, "int") * CYCLE) \
            and isinstance(fa[3]["phase2"], Num) and fa[3]["phase2"].expr == U(part(p, "frac").expr, R(3, "frac") * CYCLE)
        ck.same("R2", f.where, tag + ": refinement", "a non-zero residual quotient is added to the quotient and the remainder is recomputed exactly from the corrected quotient",
                ok3, found=str([{k: str(v)[:50] for k, v in a.items() if not isinstance(v, NoneV)} for a in fa[2:4]]), nontrivial=True)

        def at(expr, nz):
            """The term with the undecided test `count_nonzero(residual quotient)` fixed to zero / non-zero."""
            e_ = plain(expr)
            for a_ in list(e_.atoms(sp.Function)):
                if a_.func.__name__ == "CountNonzero":
                    e_ = e_.subs(a_, sp.Integer(1 if nz else 0))
            return sp.simplify(e_)

        def quotient_ok(v):
            return isinstance(v, Num) and sp.simplify(at(v.expr, False) - fd0) == 0 and sp.simplify(at(v.expr, True) - (fd0 + fdx)) == 0

        def remainder_ok(v):
            if not (isinstance(v, ObjV) and "_pint" in v.attrs):
                return False
            return all(sp.simplify(at(v.attrs["_p" + w].expr, False) - R(2, w)) == 0 and sp.simplify(at(v.attrs["_p" + w].expr, True) - R(4, w)) == 0 for w in ("int", "frac"))
        if name == "floor_divide":
            ok4 = quotient_ok(res)
        elif name == "remainder":
            ok4 = remainder_ok(res)
        else:
            ok4 = isinstance(res, TupleV) and len(res.items) == 2 and quotient_ok(res.items[0]) and remainder_ok(res.items[1])
        ck.same("R2", f.where, tag + ": result", "floor_divide hands back the (corrected) quotient, remainder the exact two-part remainder belonging to it, divmod both in that order",
                ok4, found=str(res)[:160], nontrivial=True)
    # ---- the same family with out=: the caller's arrays receive the results
    for name, mk in (("divmod", lambda A, P: [A, P]), ("floor_divide", lambda A, P: [A]), ("remainder", lambda A, P: [P])):
        n_fam += 1
        p, P = make_phase(prog, "p"), make_phase(prog, "o")
        A = Num(sp.Symbol("A", real=True), kind="array")
        tag = f"np.{name}(Phase, Quantity in cycles, out=...)"
        out_tuple = TupleV(mk(A, P))
        r = attempt(tag, lambda: run_uf(prog, name, [p, d], 0, {"out": out_tuple}))
        if r is None:
            continue
        res, events, calls, ev = r
        fa = [e[1] for e in events if e[0] == "from_angles"]
        coarse = [t for t in calls if t[1] == "floor_divide"]
        want_q, want_p = name != "remainder", name != "floor_divide"
        if want_q:
            # what the caller's quotient array holds afterwards: the corrected quotient, also when the second pass was needed
            # (a correction added to a *new* array, `fd = fd + fdx`, is returned but never reaches the caller's array)
            held = out_tuple.items[0]
            FDo = sp.Function("Ufunc_floor_divide_0")
            fd0o = FDo(part(p, "int").expr + part(p, "frac").expr, c * CYCLE)
            Ro = lambda k, w: sp.Symbol(f"R{k}_{w}", real=True)  # noqa: E731
            fdxo = FDo(Ro(2, "frac") * CYCLE + Ro(2, "int") * CYCLE, c * CYCLE)

            def at_o(expr, nz):
                e_ = expr.replace(lambda t: getattr(t.func, "__name__", "") == "Ufunc_add_0" and len(t.args) == 2, lambda t: t.args[0] + t.args[1])
                for a_ in list(e_.atoms(sp.Function)):
                    if a_.func.__name__ == "CountNonzero":
                        e_ = e_.subs(a_, sp.Integer(1 if nz else 0))
                return sp.simplify(e_)
            if isinstance(held, Num) and len(coarse) > 1:
                # (when the residual quotient is all zero, adding it or not is the same array)
                okh = (sp.simplify(at_o(held.expr, False) - fd0o) == 0 or sp.simplify(at_o(held.expr, False) - (fd0o + fdxo)) == 0) \
                    and sp.simplify(at_o(held.expr, True) - (fd0o + fdxo)) == 0
                ck.same("R2", f.where, tag + ": contents of the caller's quotient array", "the caller's array holds the corrected quotient (coarse quotient plus residual quotient when that is non-zero)",
                        okh, found=str(held.expr)[:200], nontrivial=True)
        got_q = bool(coarse) and coarse[0][3].get("out") is A
        got_p = bool(fa) and fa[0].get("out") is P
        same_buf = lambda v: isinstance(v, ObjV) and isinstance(v.attrs.get("_buf"), StrV) and v.attrs["_buf"].s == P.attrs["_buf"].s
        back = (same_buf(res) if name == "remainder" else same_buf(res.items[1]) if name == "divmod" and isinstance(res, TupleV) and len(res.items) == 2 else True)
        ok = (got_q == want_q or not want_q) and (not want_q or got_q) and (not want_p or (got_p and back))
        ck.same("R2", f.where, tag, "the quotient is computed into the caller's array and the remainder into the caller's Phase (which is also what is handed back)",
                ok, found=f"quotient into caller's array: {got_q}; correction built in caller's Phase: {got_p}; handed back: {back}", nontrivial=True)
    # ---- the in-place forms: r %= d is np.remainder(r, d, out=(r,)); the output IS the dividend.  The correction is computed from
    #      the dividend (twice when the second pass is needed): every such read must still see the dividend's original parts
    for tagx, mkd in (("r %= d  [np.remainder(r, d, out=(r,))]", None),):
        n_fam += 1
        p = make_phase(prog, "p")
        pi0, pf0 = part(p, "int").expr, part(p, "frac").expr
        r = attempt(tagx, lambda: run_uf(prog, "remainder", [p, d], 0, {"out": TupleV([p])}))
        if r is None:
            continue
        res, events, calls, ev = r
        subs_ = [t for t in calls if t[1] == "subtract"]
        fa = [e[1] for e in events if e[0] == "from_angles"]
        # operands of every part-wise subtraction `dividend - correction` (they reach from_angles as phase1/phase2 terms)
        reads = [a_ for a_ in fa if isinstance(a_.get("phase1"), Num) and "Ufunc_subtract_0" in str(a_["phase1"].expr)]
        bad = None
        for a_ in reads:
            for w, orig in (("phase1", pi0), ("phase2", pf0)):
                t_ = a_[w].expr if isinstance(a_.get(w), Num) else None
                if t_ is None or t_.func.__name__ != "Ufunc_subtract_0" or sp.simplify(t_.args[0] - orig) != 0:
                    bad = f"{w} of the subtraction reads {str(t_)[:90]}, not the dividend's original part {orig}"
        same_obj = isinstance(res, ObjV) and res.attrs.get("_buf") is not None and p.attrs.get("_buf") is not None and res.attrs["_buf"].s == p.attrs["_buf"].s
        ck.same("R2", f.where, tagx, "the remainder is computed from the dividend as it was before the call, and lands in the dividend (the in-place target)",
                bool(reads) and bad is None and same_obj, found=bad or f"{len(reads)} part-wise subtractions; result in the target: {same_obj}", nontrivial=True)
    # ---- add / subtract of n-d phases without out=: the result must not be written into an operand's buffer
    K3 = sp.Integer(3)
    for name in ("add", "subtract"):
        for label, shapes in (("1-d Phase, 1-d Phase", ((K3,), (K3,))), ("scalar Phase, 1-d Phase", ((), (K3,))), ("1-d Phase, scalar Phase", ((K3,), ()))):
            n_fam += 1
            p, q = make_phase(prog, "p", shape=shapes[0]), make_phase(prog, "q", shape=shapes[1])
            tag = f"np.{name}({label}) without out="
            r = attempt(tag, lambda: run_uf(prog, name, [p, q], 0))
            if r is None:
                continue
            res, events, calls, ev = r
            fa = [e_[1] for e_ in events if e_[0] == "from_angles"]
            bufs = {o_.attrs["_buf"].s: nm for o_, nm in ((p, "the first operand"), (q, "the second operand"))}
            bad = None
            for a_ in fa:
                o_ = a_.get("out")
                if isinstance(o_, ObjV) and isinstance(o_.attrs.get("_buf"), StrV) and o_.attrs["_buf"].s in bufs:
                    bad = f"from_angles(..., out=<a view of {bufs[o_.attrs['_buf'].s]}>)"
            ck.same("R2", f.where, tag, "the result is built in fresh storage: no operand's buffer (or a view of it) is used as the output", bad is None and len(fa) >= 1,
                    found=bad or f"{len(fa)} from_angles calls", nontrivial=True)
    # ---- the same family with a Phase as divisor, and with a Phase dividing a plain Quantity
    for name in ("floor_divide", "remainder", "divmod"):
        for label, mk, si in (("Phase, Phase", lambda p, q: [p, q], 0), ("Quantity in cycles, Phase", lambda p, q: [d, q], 1)):
            n_fam += 1
            p, q = make_phase(prog, "p"), make_phase(prog, "q")
            tag = f"np.{name}({label})"
            try:
                res, events, calls, ev = run_uf(prog, name, mk(p, q), si)
            except Raised as e:
                ck.same("R2", f.where, tag, "terminates: the operation is carried out (or refused) without re-entering itself", e.exc_name != "RecursionError",
                        found=str(e)[:160], nontrivial=True)
                if e.exc_name != "RecursionError":
                    ck.unk("R2", f.where, tag, "evaluates on the Phase model", str(e)[:160])
                continue
            except (Unsupported, DimensionError) as e:
                ck.unk("R2", f.where, tag, "evaluates on the Phase model", str(e)[:200])
                continue
            ck.same("R2", f.where, tag, "terminates: the operation is carried out (or refused) without re-entering itself", True)
            if si == 0:
                fa = [e_[1] for e_ in events if e_[0] == "from_angles"]
                # the correction must be built from both parts of the divisor (a Phase passed whole, or its 'int' and 'frac')
                def two_part(a_):
                    p1, p2 = a_["phase1"], a_["phase2"]
                    whole = p1 is q
                    parts = isinstance(p1, Num) and isinstance(p2, Num) and p1.expr == part(q, "int").expr and p2.expr == part(q, "frac").expr
                    return whole or parts
                ok = len(fa) >= 1 and two_part(fa[0]) and isinstance(fa[0]["factor"], Num)
                ck.same("R2", f.where, tag + ": correction", "divisor*quotient is rebuilt from both parts of the Phase divisor (no single-double divisor in the exact step)",
                        ok, found=str([{k: str(v)[:40] for k, v in a_.items() if not isinstance(v, NoneV)} for a_ in fa[:2]]), nontrivial=True)
    # ---- functions of the fractional part only
    for name in ("sin", "cos", "tan"):
        n_fam += 1
        p = make_phase(prog, "p")
        r = attempt(f"np.{name}(Phase)", lambda: run_uf(prog, name, [p], 0))
        if r is None:
            continue
        res, events, calls, ev = r
        ok = len(calls) == 1 and len(calls[0][2]) == 1 and isinstance(calls[0][2][0], Num) and calls[0][2][0].expr == part(p, "frac").expr
        ck.same("R2", f.where, f"np.{name}(Phase)", "evaluated on the fractional part only (the cycle count does not enter)", ok,
                found=str([[str(x)[:60] for x in t[2]] for t in calls]), nontrivial=True)
    n_fam += 1
    p = make_phase(prog, "p", True)
    r = attempt("np.exp(imaginary Phase)", lambda: run_uf(prog, "exp", [p], 0))
    if r is not None:
        res, events, calls, ev = r
        ok = len(calls) == 1 and isinstance(calls[0][2][0], Num) and sp.simplify(calls[0][2][0].expr - sp.I * p.attrs["_pfrac"].expr * CYCLE) == 0
        ck.same("R2", f.where, "np.exp(1j * phase)", "evaluated on i * 2*pi * frac only (the cycle count does not enter)", ok,
                found=str([[str(x)[:60] for x in t[2]] for t in calls]), nontrivial=True)
    run.floor("R2", "ufunc family / operand arrangements evaluated", n_fam, 57)


# ---------------------------------------------------------------------------------------- R5
def r5_day_frac(ck, prog, run):
    """day_frac folded on concrete doubles (IEEE round-to-nearest-even at every operation of the source, astropy's two_sum /
    two_product as exact error-free transformations) at operand vectors chosen to break order-dependent or lossy accumulation:
    both magnitude orders, inexact sums, fractions far below the count's resolution, ties at +-1/2.  The result must be the exact
    value to within 2^-52 cycle, an integer count and |fraction| <= 1/2.  This REFUTES a broken accumulation with a concrete
    operand pair; passing it is not a proof of the error-free transformations (declared not decided)."""
    from fractions import Fraction
    from ..symeval import Evaluator
    f = prog.func("day_frac")
    run.touched(f)

    def D(x):
        fr_ = Fraction(x)
        return Num(sp.Rational(fr_.numerator, fr_.denominator), isfloat=True)
    pairs = [(2.0**40, 0.3), (0.3, 2.0**40), (3.0, 1e-17), (1e-17, 3.0), (-(2.0**45), 0.7), (0.7, -(2.0**45)), (0.5, 0.5), (0.1, 0.2), (2.0**52, 0.5),
             (0.5, 2.0**52), (1e10, -1e-7), (-1e-7, 1e10), (123456789.0, 0.987654321), (0.987654321, 123456789.0), (-0.5, -2.0), (2.5, 0.0), (0.0, -3.5),
             (2.0**51 + 1.0, 0.25), (0.25, 2.0**51 + 1.0)]
    scal = [None, ("factor", 3.0), ("factor", 0.1), ("factor", -7.25), ("divisor", 3.0), ("divisor", 0.7)]
    if run.tier == "quick":
        scal = scal[:3] + scal[4:5]
    bad, unk, n = [], [], 0
    tol = Fraction(1, 2**52)
    for a, b in pairs:
        for sc in scal:
            if sc is not None and abs(a) + abs(b) > 2.0**50:
                continue
            n += 1
            ev = Evaluator(prog)
            ev.float_fold = True
            kw = {} if sc is None else {sc[0]: D(sc[1])}
            label = f"day_frac({a!r}, {b!r}" + ("" if sc is None else f", {sc[0]}={sc[1]!r}") + ")"
            try:
                r = ev.call(f, [D(a), D(b)], kw)
            except Raised as e:
                bad.append((label, f"raises {e}"[:80]))
                continue
            except (Unsupported, DimensionError) as e:
                unk.append((label, str(e)[:120]))
                continue
            if not (isinstance(r, TupleV) and len(r.items) == 2 and all(isinstance(x, Num) and x.expr.is_Rational for x in r.items)):
                unk.append((label, repr(r)[:80]))
                continue
            day, frac = (Fraction(int(x.expr.p), int(x.expr.q)) for x in r.items)
            exact = Fraction(a) + Fraction(b)
            if sc is not None:
                exact = exact * Fraction(sc[1]) if sc[0] == "factor" else exact / Fraction(sc[1])
            if day.denominator != 1:
                bad.append((label, f"count {float(day)} is not an integer"))
            elif abs(frac) > Fraction(1, 2):
                bad.append((label, f"fraction {float(frac)} outside [-1/2, 1/2]"))
            elif abs(day + frac - exact) > tol * max(1, abs(exact) / 2**52):
                bad.append((label, f"count + fraction = {float(day)} + {float(frac)!r}, off by {float(day + frac - exact):.3e} cycle"))
    run.ob("R5", f.where, f"day_frac on {n} adversarial operand vectors (both magnitude orders, with and without factor/divisor)",
           "count + fraction equals the exact value to within 2^-52 cycle, the count is an integer and |fraction| <= 1/2 "
           "(source folded on concrete doubles with IEEE rounding; a refutation, not a proof)",
           (not bad) if not unk else (False if bad else None), found=str(bad[:3]) if bad else None, nontrivial=True,
           note=f"{len(bad)} wrong of {n}" + (f"; not evaluable: {unk[:2]}" if unk else ""))
    run.floor("R5", "operand vectors", n, 30)


def day_frac_shapes(ck, prog, run):
    """day_frac on operands of different shapes: the factor / divisor may broadcast the two values to a LARGER shape (a (3,) phase
    times a (2, 1) factor is a (2, 3) phase), so none of its intermediate updates may be an in-place operation on a smaller array
    (NumPy refuses those with ValueError, which the multiply branch of __array_ufunc__ would swallow and answer with a single-double
    Angle)."""
    f = prog.func("day_frac")
    K3, K2, K1 = sp.Integer(3), sp.Integer(2), sp.Integer(1)
    n = 0
    for s1, s2, sk, kind in (((K3,), (K3,), (K2, K1), "factor"), ((K3,), (K3,), (K2, K1), "divisor"), ((K1,), (K1,), (K3,), "factor"), ((), (), (K3,), "factor"),
                             ((K3,), (), (K3,), "divisor")):
        v1 = Num(sp.Symbol("V1", real=True), kind="array" if s1 else "number", shape=s1 or None, isfloat=True, dtype=ExtV("numpy.float64"))
        v2 = Num(sp.Symbol("V2", real=True), kind="array" if s2 else "number", shape=s2 or None, isfloat=True, dtype=ExtV("numpy.float64"))
        fk = Num(sp.Symbol("FK", real=True), kind="array", shape=sk, isfloat=True, dtype=ExtV("numpy.float64"))
        ev = phase_evaluator(prog, PhaseLog())
        tag = f"day_frac(values of shape {tuple(s1)}/{tuple(s2)}, {kind} of shape {tuple(sk)})"
        try:
            r = ev.call(f, [v1, v2], {kind: fk})
        except Raised as e:
            ck.same("R3", f.where, tag, "evaluates for operands that broadcast to a larger shape (no in-place update of a smaller intermediate)", False,
                    found=str(e)[:160], nontrivial=True)
            n += 1
            continue
        except (Unsupported, DimensionError) as e:
            ck.unk("R3", f.where, tag, "evaluates", str(e)[:200])
            continue
        n += 1
        ck.same("R3", f.where, tag, "evaluates for operands that broadcast to a larger shape (no in-place update of a smaller intermediate)",
                isinstance(r, TupleV) and len(r.items) == 2, found=str(r)[:100], nontrivial=True)
    run.floor("R3", "day_frac shape combinations evaluated", n, 4)


# ---------------------------------------------------------------------------------------- R3 / R4
def r3_r4_from_angles(ck, prog, run):
    fa = prog.func("Phase.from_angles")
    new = prog.func("Phase.__new__")
    run.touched(fa)
    run.touched(prog.func("check_imaginary"))
    P1, P2, Fv, Dv = (sp.Symbol(n, positive=True) for n in ("P1", "P2", "Fv", "Dv"))
    cls = ClassV(prog.cls("Phase"))

    def val(sym, imag, complex_typed=False):
        e = sp.I * sym if imag else sym
        dt = "numpy.complex128" if (imag or complex_typed) else "numpy.float64"
        return e, dt

    def capture(args, kwargs):
        got = {}

        def ov_day_frac(ev, a, kw, node, fr, fn):
            names = ["val1", "val2", "factor", "divisor"]
            b = dict(zip(names, a))
            b.update(kw)
            got["args"] = {k: b.get(k, NONE) for k in names}
            got["imaginary"] = fr.env.get("imaginary")
            raise Captured(got["args"], None)
        log = PhaseLog()
        ev = phase_evaluator(prog, log, capture_day_frac=True)
        ev.overrides[PH + "day_frac"] = ov_day_frac
        try:
            ev.call(fa, args, kwargs, cls_val=cls)
        except Captured:
            return got
        return got
    n = 0
    combos = [(a, b, kind, ctyped, None) for a in (False, True) for b in (False, True) for kind in ("factor", "divisor")
              for ctyped in ((False, True) if not b else (False,))]
    # an imaginary phase whose count (or fraction) is exactly zero: that part is an all-zero complex number, which is both
    # "purely real" and "purely imaginary"; it must be read in the way that agrees with the other part
    combos += [(True, b, kind, False, zero) for zero in ("count", "fraction") for b in (False, True) for kind in ("factor", "divisor")]
    for a, b, kind, ctyped, zero in combos:
        if True:
            if True:
                if True:
                    n += 1
                    pe, pdt = val(P1 if zero != "count" else sp.Integer(0), a)
                    p2e, _ = val(P2 if zero != "fraction" else sp.Integer(0), a)
                    fe, fdt = val(Fv if kind == "factor" else Dv, b, ctyped)
                    # the same angles, held in cycles or (every other combination) in degrees: from_angles must read them as cycles
                    rep = CYCLE if (n % 2) else sp.pi / 180
                    ph1 = Num(pe * CYCLE, kind="quantity", unit=rep, dtype=ExtV(pdt))
                    ph2 = Num(p2e * CYCLE, kind="quantity", unit=rep, dtype=ExtV(pdt))
                    fv = Num(fe, dtype=ExtV(fdt))
                    tag = f"from_angles({'imaginary' if a else 'real'} phase{' with zero ' + zero if zero else ''} in {'cycles' if rep == CYCLE else 'degrees'}, {kind}={'imaginary' if b else ('real, complex-typed' if ctyped else 'real')})"
                    try:
                        got = capture([ph1, ph2], {kind: fv})
                    except (Raised, Unsupported, DimensionError) as e:
                        ck.unk("R4", fa.where, tag, "evaluates up to day_frac", str(e)[:200]) if isinstance(e, Unsupported) else \
                            ck.same("R4", fa.where, tag, "a purely real/imaginary combination is accepted", False, found=str(e)[:160])
                        continue
                    if "args" not in got or not isinstance(got.get("imaginary"), BoolV):
                        ck.unk("R4", fa.where, tag, "reaches day_frac with a decided imaginary flag", f"{got}")
                        continue
                    ar = got["args"]
                    v1, v2 = ar["val1"], ar["val2"]
                    k = ar[kind]
                    other = ar["divisor" if kind == "factor" else "factor"]
                    ok_fw = isinstance(v1, Num) and isinstance(v2, Num) and isinstance(k, Num) and isinstance(other, NoneV)
                    ck.same("R3", fa.where, tag + ": forwarding", f"both parts and the {kind} reach day_frac (scaling is applied to the exact two-part sum, nothing is dropped)",
                            ok_fw, found=str({kk: str(vv)[:40] for kk, vv in ar.items()}), nontrivial=True)
                    if not ok_fw:
                        continue
                    flag = sp.I if got["imaginary"].b else 1
                    if kind == "factor":
                        represented = flag * (v1.expr + v2.expr) * k.expr
                        true = (pe + p2e) * fe
                    else:
                        represented = flag * (v1.expr + v2.expr) / k.expr
                        true = (pe + p2e) / fe
                    ck.eq("R4", fa.where, tag + ": sign and flag", "the stored flag and the real numbers handed to day_frac represent i^a*i^b (resp. i^a/i^b) times the magnitudes: i*i = -1",
                          represented, true)
    run.floor("R4", "real/imaginary combinations of from_angles", n, 20)
    # R3 storage: whatever the shapes of the parts, the factor and the divisor, both parts of the result are stored in a
    # record array of their (broadcast) shape - nothing raises, nothing is truncated
    K3 = sp.Integer(3)
    shapes = [((), (), (K3,), "factor"), ((), (), (K3,), "divisor"), ((K3,), (K3,), (sp.Integer(2), sp.Integer(1)), "divisor"),
              ((K3,), (), (), "factor"), ((), (K3,), (K3,), "divisor")]
    n_st = 0
    for s1, s2, sk, kind in shapes:
        tag = f"from_angles(phase1 shape {tuple(s1)}, phase2 shape {tuple(s2)}, {kind} shape {tuple(sk)})"
        ph1 = Num(P1 * CYCLE, kind="quantity", unit=CYCLE, dtype=ExtV("numpy.float64"), shape=s1 or None)
        ph2 = Num(P2 * CYCLE, kind="quantity", unit=CYCLE, dtype=ExtV("numpy.float64"), shape=s2 or None)
        fv = Num(Fv, dtype=ExtV("numpy.float64"), shape=sk or None, kind="array" if sk else "number")
        from ..extapi import h_broadcast_shapes
        from ..values import TupleV as _T
        got = {}

        def ov_df(ev, a, kw, node, fr, fn, got=got):
            names = ["val1", "val2", "factor", "divisor"]
            b = dict(zip(names, a))
            b.update(kw)
            shp = h_broadcast_shapes(ev, [_T([Num(x) for x in (v.shape or ())]) for v in b.values() if isinstance(v, Num)], {}, fr, node)
            dims = tuple(i.expr for i in shp.items)
            got["shape"] = dims
            return _T([Num(sp.Symbol("COUNT", real=True), kind="array", shape=dims), Num(sp.Symbol("FRACTION", real=True), kind="array", shape=dims)])
        ev = phase_evaluator(prog, PhaseLog(), capture_day_frac=True)
        ev.overrides[PH + "day_frac"] = ov_df
        try:
            res = ev.call(fa, [ph1, ph2], {kind: fv}, cls_val=cls)
        except Raised as e:
            ck.same("R3", fa.where, tag, "the two parts are stored whatever shape the operands broadcast to", False, found=f"raises {e}"[:160], nontrivial=True)
            n_st += 1
            continue
        except (Unsupported, DimensionError) as e:
            ck.unk("R3", fa.where, tag, "storage of the result evaluates", str(e)[:200])
            continue
        buf = res.attrs.get("_recbuf") if isinstance(res, ObjV) else None
        ok = buf is not None and tuple(buf.payload["shape"]) == tuple(got.get("shape", ("?",))) \
            and str(getattr(buf.payload["fields"].get("int"), "expr", "")) == "COUNT" and str(getattr(buf.payload["fields"].get("frac"), "expr", "")) == "FRACTION"
        ck.same("R3", fa.where, tag, "the result is a record array of the broadcast shape holding the count in 'int' and the fraction in 'frac'", ok,
                found=(f"shape {buf.payload['shape']}, fields {buf.payload['fields']}" if buf is not None else repr(res))[:200], nontrivial=True)
        n_st += 1
    run.floor("R3", "result-storage cases decided", n_st, 4)
    # R4 flag of the result: real/imaginary is a property of the RESULT (i^a * i^b), also when the result is written into a Phase the
    # caller supplies (in-place operators, out=) whose own flag was the other one
    n_fl = 0
    result_flags = {}
    for a in (False, True):
        for b in (False, True):
            for given in (None, False, True):
                pe, pdt = val(P1, a)
                p2e, _ = val(P2, a)
                fe, fdt = val(Fv, b)
                ph1 = Num(pe * CYCLE, kind="quantity", unit=CYCLE, dtype=ExtV(pdt))
                ph2 = Num(p2e * CYCLE, kind="quantity", unit=CYCLE, dtype=ExtV(pdt))
                fv = Num(fe, dtype=ExtV(fdt))
                tag = f"from_angles({'imaginary' if a else 'real'} phase, factor={'imaginary' if b else 'real'}, out={'None' if given is None else ('an imaginary Phase' if given else 'a real Phase')})"

                def ov_df2(ev, a_, kw, node, fr, fn):
                    return TupleV([Num(sp.Symbol("COUNT", real=True)), Num(sp.Symbol("FRACTION", real=True))])
                ev = phase_evaluator(prog, PhaseLog(), capture_day_frac=True)
                ev.overrides[PH + "day_frac"] = ov_df2
                kw = {"factor": fv}
                target = None
                if given is not None:
                    target = make_phase(prog, "o", given)
                    kw["out"] = target
                try:
                    res = ev.call(fa, [ph1, ph2], kw, cls_val=cls)
                except Raised as e:
                    ck.same("R4", fa.where, tag, "a purely real/imaginary combination is accepted", False, found=str(e)[:160], nontrivial=True)
                    continue
                except (Unsupported, DimensionError) as e:
                    ck.unk("R4", fa.where, tag, "evaluates to the stored result", str(e)[:200])
                    continue
                n_fl += 1
                flag = res.attrs.get("imaginary") if isinstance(res, ObjV) else None
                if given is None and isinstance(flag, BoolV):
                    result_flags[(a, b)] = flag
                ok = isinstance(flag, BoolV) and flag.b == (a != b) and (target is None or res is target)
                ck.same("R4", fa.where, tag, "the result carries the flag of i^a * i^b, and a supplied output object is the one that is returned and re-flagged",
                        ok, found=f"flag {flag!r}" + ("" if target is None or res is target else "; another object returned"), nontrivial=True)
    run.floor("R4", "result-flag cases decided", n_fl, 12)
    # ... and that flag is what the NEXT operation tests (by ==, by `is`, by truth value): a real Phase that came out of imaginary * imaginary
    # must combine with any other real Phase part-wise.  The flag object from_angles really stores (a Python bool or a numpy.bool_) is put
    # on a model Phase and sent through the add/subtract dispatch.
    for (a_, b_), flag_ in sorted(result_flags.items()):
        if a_ != b_ or not a_:
            continue
        for name in ("add", "subtract"):
            prod = make_phase(prog, "prod", False)
            prod.attrs["imaginary"] = flag_
            q_ = make_phase(prog, "q")
            tag = f"np.{name}(imaginary Phase * imaginary factor, real Phase)"
            try:
                res2, events2, calls2, ev2 = run_uf(prog, name, [prod, q_], 0)
            except Raised as e:
                ck.same("R4", prog.func("Phase.__array_ufunc__").where, tag, "two real Phases are added part-wise", False, found=str(e)[:160], nontrivial=True)
                continue
            except (Unsupported, DimensionError) as e:
                ck.unk("R4", prog.func("Phase.__array_ufunc__").where, tag, "evaluates", str(e)[:200])
                continue
            fa2 = [e_[1] for e_ in events2 if e_[0] == "from_angles"]
            fell = [t for t in ev2.trace if t[0] == "fallback"]
            ck.same("R4", prog.func("Phase.__array_ufunc__").where, tag,
                    "a real Phase that is the product of imaginary operands combines with a real Phase part-wise (from_angles), never through the single-double fallback",
                    bool(fa2) and not fell and isinstance(res2, ObjV),
                    found=f"{len(fa2)} from_angles calls, {len(fell)} fallbacks; the product's flag is {flag_!r}{' (a numpy.bool_, not the singleton False)' if getattr(flag_, 'np', False) else ''}",
                    nontrivial=True)
    # mixed parts are refused
    try:
        capture([Num(P1 * CYCLE, kind="quantity", unit=CYCLE, dtype=ExtV("numpy.float64")),
                 Num(sp.I * P2 * CYCLE, kind="quantity", unit=CYCLE, dtype=ExtV("numpy.complex128"))], {})
        ck.same("R4", fa.where, "from_angles(real, imaginary)", "parts of different kind are refused with ValueError", False, found="accepted")
    except Raised as e:
        ck.same("R4", fa.where, "from_angles(real, imaginary)", "parts of different kind are refused with ValueError", e.exc_name == "ValueError", found=str(e)[:100])
    except (Unsupported, DimensionError) as e:
        ck.unk("R4", fa.where, "from_angles(real, imaginary)", "refused", str(e)[:160])
    # ... also when every ELEMENT is pure but the elements are of different kinds ([1j, 2.0]): the array as a whole is mixed
    from ..extapi import NdArr
    fci = prog.func("check_imaginary")
    for label, items in (("[i*a, b]", [sp.I * P1, P2]), ("[a, i*b, i*c]", [P1, sp.I * P2, sp.I * Fv])):
        arr = NdArr((len(items),), [Num(e_, dtype=ExtV("numpy.complex128")) for e_ in items])
        arr.dtype = ExtV("numpy.complex128")
        ev = phase_evaluator(prog, PhaseLog())
        tag = f"check_imaginary({label}) with a, b, c > 0"
        try:
            r = ev.call(fci, [arr], {})
            ck.same("R4", fci.where, tag, "an array mixing purely real and purely imaginary elements is refused with ValueError", False, found=f"accepted: {str(r)[:80]}", nontrivial=True)
        except Raised as e:
            ck.same("R4", fci.where, tag, "an array mixing purely real and purely imaginary elements is refused with ValueError", e.exc_name == "ValueError", found=str(e)[:100], nontrivial=True)
        except (Unsupported, DimensionError) as e:
            ck.unk("R4", fci.where, tag, "refused", str(e)[:160])
    # R3: the constructor with two numbers adds (does not drop) the second; scalars of every kind are accepted
    for label, a1, a2 in (("Phase(x)", Num(P1), None), ("Phase(x, y)", Num(P1), Num(P2)), ("Phase(x cycle, y cycle)", Num(P1 * CYCLE, kind="quantity", unit=CYCLE), Num(P2 * CYCLE, kind="quantity", unit=CYCLE))):
        log = PhaseLog()
        ev = phase_evaluator(prog, log)
        args = [a1] + ([a2] if a2 is not None else [])
        r = ck.attempt("R3", new.where, label, "the constructor evaluates for scalar input", lambda: ev.call(new, args, {}, self_val=cls), ev=None)
        if r is None:
            continue
        fa_calls = [e[1] for e in log.events if e[0] == "from_angles"]
        ok = len(fa_calls) == 1 and isinstance(fa_calls[0]["phase1"], Num) and sp.simplify(fa_calls[0]["phase1"].expr - P1 * CYCLE) == 0 \
            and ((a2 is None and isinstance(fa_calls[0]["phase2"], NoneV)) or (a2 is not None and isinstance(fa_calls[0]["phase2"], Num)
                                                                                 and sp.simplify(fa_calls[0]["phase2"].expr - P2 * CYCLE) == 0))
        ck.same("R3", new.where, label, "numbers are read as cycles and both arguments reach from_angles as separate parts", ok,
                found=str([{k: str(v)[:40] for k, v in c_.items()} for c_ in fa_calls]), nontrivial=True)
        ctor = [t for t in ev.trace if t[0] == "quantity-ctor"]
        bad = [t for t in ctor if isinstance(t[3], BoolV) and t[3].b is False and not (isinstance(t[2], Num) and t[2].tag == "ndarray")]
        ck.same("R1", new.where, label + ": constructor arguments", "no never-copy (copy=False) Angle/Quantity construction of a scalar argument", not bad,
                found=str([norm(t[4])[:60] for t in bad]), nontrivial=True)
