"""C06 - Dispersion delays obey the f^-2 law; incoherent dedispersion realigns by them."""
from __future__ import annotations

import random
import sympy as sp

from ..spec import Checker, FR, obj_summary
from ..sigmodel import make_signal, N, NCHAN, CF, BW, SR, T0
from ..values import Num, StrV, ObjV, NONE, Hz, pc, cm, F, NONE_S, ExtV
from ..extapi import StackV
from .. import terms
from .c13 import meta_same

EXPLANATION = (
    "DispersionMeasure.time_delay / sample_delay are evaluated on symbolic Quantities with units as algebraic symbols "
    "(Hz, pc, cm positive symbols; MHz = 10^6 Hz, s = 1/Hz): the extracted term must equal K*DM*(f^-2 - fref^-2) with "
    "K = 1/(2.41e-4) s MHz^2 cm^3/pc, every .to()/.to_value() must be dimensionally consistent, and antisymmetry / "
    "additivity are derived from the extracted term. incoherent_dedispersion is evaluated on symbolic signals with a small "
    "concrete channel count; for every channel the extracted source slice [lo_i : hi_i] and the extracted start time are "
    "tied together by the statement's identity lo_i - (start_time' - start_time)*sample_rate == round(delay_i); equal "
    "output lengths, in-range sources (sampled inequality on the extracted terms), pairing of channel i with its own delay, "
    "and the rebuild ledger are checked. round() is modelled as floor(x+1/2); ties-to-even and float rounding are not decided."
)

K = (1 / Hz) * (10**6 * Hz) ** 2 * cm**3 / pc / sp.Rational(241, 10**6)
DMv = sp.Symbol("DMv", real=True)


def dm_value(prog):
    return Num(DMv * pc / cm**3, kind="quantity", cls=prog.cls("DispersionMeasure"))


def expected_delay(f, fr):
    return K * DMv * pc / cm**3 * (1 / f**2 - 1 / fr**2)


def destructure_item(expr):
    """Idx(D, Tup(Slc(lo, hi, step), chan, ...)) -> (D, lo, hi, step, rest)"""
    if expr.func != F["Idx"]:
        return None
    base, idx = expr.args
    if idx.func == F["Slc"]:
        idx = F["Tup"](idx)          # x[a:b] on the array itself
    if idx.func != F["Tup"] or not idx.args or idx.args[0].func != F["Slc"]:
        return None
    lo, hi, st = idx.args[0].args
    return base, lo, hi, st, idx.args[1:]


def check(run, prog):
    run.explanation = EXPLANATION
    run.assumptions += ["real-number semantics; units as positive algebraic symbols", "np.round modelled as floor(x+1/2)"]
    ck = Checker(run, prog)
    f_td = prog.func("DispersionMeasure.time_delay")
    f_sd = prog.func("DispersionMeasure.sample_delay")
    f_inc = prog.func("incoherent_dedispersion")
    for f in (f_td, f_sd, f_inc):
        run.touched(f)
    dm = dm_value(prog)
    fs = [sp.Symbol(n, positive=True) for n in ("f1", "f2", "f3")]
    q = lambda s: Num(s * Hz, kind="quantity")  # noqa: E731

    # ------------------------------------------------------------------ R1
    ev = ck.evaluator()
    td = {}
    for a, b in ((0, 1), (1, 0), (1, 2), (0, 2)):
        td[(a, b)] = ck.attempt("R1", f_td.where, "time_delay(f, ref)", "time_delay evaluates with consistent units",
                                lambda: ev.call(f_td, [q(fs[a]), q(fs[b])], {}, self_val=dm), ev=ev, allowed_guards=[])
    if all(v is not None for v in td.values()):
        ck.eq("R1", f_td.where, "time_delay(f, f_ref)", "== K*DM*(f^-2 - f_ref^-2), K = 1/2.41e-4 s MHz^2 cm^3/pc",
              td[(0, 1)], expected_delay(fs[0] * Hz, fs[1] * Hz))
        unitless = sp.simplify(td[(0, 1)].expr * Hz)
        ck.same("R1", f_td.where, "time_delay(...) / second", "the delay is a pure time (no unit symbol is left after dividing by s)",
                not terms.has_unit_symbols(unitless), found=str(unitless), nontrivial=True)
        ck.eq("R1", f_td.where, "time_delay(f1,f2) + time_delay(f2,f1)", "antisymmetry (derived from the extracted term)",
              td[(0, 1)].expr + td[(1, 0)].expr, 0)
        ck.eq("R1", f_td.where, "time_delay(f1,f2) + time_delay(f2,f3) - time_delay(f1,f3)", "additivity along chains (derived)",
              td[(0, 1)].expr + td[(1, 2)].expr - td[(0, 2)].expr, 0)
    sd = ck.attempt("R1", f_sd.where, "sample_delay(f, ref, sample_rate)", "sample_delay evaluates with consistent units",
                    lambda: ev.call(f_sd, [q(fs[0]), q(fs[1]), q(SR)], {}, self_val=dm), ev=ev, allowed_guards=[])
    if sd is not None:
        ck.eq("R1", f_sd.where, "sample_delay(f, f_ref, sample_rate)", "== time_delay * sample_rate (dimensionless)",
              sd, expected_delay(fs[0] * Hz, fs[1] * Hz) * SR * Hz)
        ck.same("R1", f_sd.where, "sample_delay units", "result is a plain number", not terms.has_unit_symbols(sp.simplify(sd.expr)),
                found=str(sd.expr), nontrivial=True)
    # a DM held in another (equivalent) unit is the same physical quantity: the term must not depend on the representation unit
    dm2 = Num(DMv * pc / cm**3, kind="quantity", cls=prog.cls("DispersionMeasure"), unit=None)
    ev2 = ck.evaluator()
    t2 = ck.attempt("R1", f_td.where, "time_delay for a DM of unknown representation unit", "evaluates",
                    lambda: ev2.call(f_td, [q(fs[0]), q(fs[1])], {}, self_val=dm2), ev=ev2, allowed_guards=[])
    if t2 is not None:
        bad = [s for s in t2.expr.free_symbols if s.name.startswith("unitof_")]
        ck.same("R1", f_td.where, "time_delay: unit independence", "the delay does not use raw .value of a Quantity whose unit is the caller's choice",
                not bad, found=f"term depends on {bad}" if bad else None, nontrivial=True)

    # ------------------------------------------------------------------ RF: the reference frequency in its accepted forms
    # "at infinite frequency" is written np.inf as often as np.inf * u.MHz; both mean 1/f_ref = 0
    for clsname, nchan in (("RadioSignal", 2), ("BasebandSignal", 3)):
        zf = make_signal(prog, clsname, nchan=nchan, freq_align="center")
        ck.forms("RF", f_inc.where, f"incoherent_dedispersion({clsname}[nchan={nchan}], DM, ref_freq=inf)",
                 lambda ev, v, zf=zf: ev.call(f_inc, [zf, dm], {"ref_freq": v}),
                 [("inf * u.Hz", Num(sp.oo * Hz, kind="quantity")), ("bare inf", Num(sp.oo))],
                 "an infinite reference frequency means the same whether or not it carries a unit")
    # ------------------------------------------------------------------ R2
    fref = sp.Symbol("fref", positive=True)
    scen = [("RadioSignal", 3, "center", None, True), ("RadioSignal", 4, "bottom", fref, True),
            ("BasebandSignal", 2, "top", fref, False), ("RadioSignal", 1, "center", fref, True)]
    if run.tier == "thorough":
        scen += [("IntensitySignal", 5, "center", fref, True), ("RadioSignal", 4, "top", None, False),
                 ("DualPolarizationSignal", 3, "center", None, True)]
    for clsname, nchan, al, ref, has_t in scen:
        tag = f"[{clsname}, nchan={nchan}, {al}, ref={'center' if ref is None else 'free'}, {'start_time' if has_t else 'no start_time'}]"
        extra = (sp.Symbol("K", integer=True, positive=True),) if clsname == "RadioSignal" and nchan == 4 else ()
        z = make_signal(prog, clsname, nchan=nchan, freq_align=al, start_time=has_t, extra=extra)
        ev = ck.evaluator()
        kw = {} if ref is None else {"ref_freq": q(ref)}
        out = ck.attempt("R2", f_inc.where, "incoherent_dedispersion(z, DM) " + tag, "evaluates on a symbolic signal",
                         lambda: ev.call(f_inc, [z, dm], kw), ev=ev, allowed_guards=[])
        if out is None:
            continue
        d = out.attrs.get("_data")
        from ..symeval import PhiV as _PhiV
        if isinstance(d, _PhiV):
            # a shortcut for some delay patterns (say, "nothing moves"): the general law is checked on the arm that realigns; what the
            # shortcut returns is decided on the concrete patterns of R3 (no delay at all / all channels equally early / late)
            arms, todo = [], [d]
            while todo:
                v_ = todo.pop()
                if isinstance(v_, _PhiV):
                    todo += [v_.a, v_.b]
                else:
                    arms.append(v_)
            st_arms = [v_ for v_ in arms if isinstance(v_, StackV)]
            if len(st_arms) == 1:
                d = st_arms[0]
        if not isinstance(d, StackV) or d.axis != 1 or len(d.items) != nchan:
            ck.same("R2", f_inc.where, "result data " + tag, "one realigned channel per input channel, stacked on the frequency axis",
                    False, found=repr(d)[:200])
            continue
        labels = ev.getattr(z, "channel_freqs", FR())
        refq = (CF * Hz) if ref is None else ref * Hz
        srate = SR * Hz if clsname not in ("BasebandSignal", "DualPolarizationSignal") else SR * Hz
        if has_t:
            crop = sp.simplify((out.attrs["_start_time"].expr - z.attrs["_start_time"].expr) * SR * Hz) \
                if not out.attrs["_start_time"].expr.has(sp.Piecewise) else (out.attrs["_start_time"].expr - z.attrs["_start_time"].expr) * SR * Hz
        else:
            ck.same("R2", f_inc.where, "start_time " + tag, "a signal without start time does not acquire one",
                    out.attrs["_start_time"] is NONE, found=repr(out.attrs["_start_time"]))
            crop = None
        los, his = [], []
        ok_struct = True
        for i, it in enumerate(d.items):
            ds = destructure_item(it.expr)
            if ds is None or ds[0] != z.attrs["_data"].expr:
                ok_struct = False
                ck.unk("R2", f_inc.where, f"channel {i} " + tag, "each output channel is a time slice of the input data",
                       f"item term {str(it.expr)[:160]}")
                break
            base, lo, hi, st, rest = ds
            ck.same("R2", f_inc.where, f"channel {i}: source channel " + tag, "output channel i is taken from input channel i (own delay, own data)",
                    len(rest) >= 1 and rest[0] == i and st == NONE_S, found=f"index tail {rest}, step {st}", nontrivial=True)
            los.append(lo)
            his.append(hi)
        if not ok_struct:
            continue
        fcons = _freq_constraints(nchan, delay=expected_delay(labels.expr.subs(labels.axes[0], 0), refq) * SR * Hz)
        for i in range(nchan):
            fi = labels.expr.subs(labels.axes[0], i)
            di = sp.floor(expected_delay(fi, refq) * SR * Hz + sp.Rational(1, 2))
            if crop is not None:
                ck.eq("R2", f_inc.where, f"channel {i}: lo_i - (start_time' - start_time)*sample_rate " + tag,
                      "== round(sample_delay(label_i)): output at time T is the input at T + round(delay_i)/sample_rate",
                      los[i] - crop, di, constraints=fcons)
            else:
                ck.eq("R2", f_inc.where, f"channel {i}: lo_i - lo_0 " + tag, "== round(delay_i) - round(delay_0) (relative alignment without start time)",
                      los[i] - los[0], di - sp.floor(expected_delay(labels.expr.subs(labels.axes[0], 0), refq) * SR * Hz + sp.Rational(1, 2)),
                      constraints=fcons)
            ck.eq("R2", f_inc.where, f"channel {i}: length " + tag, "all channels have the same number of samples", his[i] - los[i], his[0] - los[0],
                  constraints=fcons)
        # in-range sources: min lo >= 0 and max hi <= len  (sampled inequalities on the extracted terms)
        rng = random.Random(run.seed + 5)
        syms = set()
        for e in los + his:
            syms |= e.free_symbols
        bad = None
        npts = 25 if run.tier == "quick" else 120
        for k in range(npts):
            pt = terms.sample_point(syms, rng, fcons)
            lo_v = [terms.evaluate(e, env=pt) for e in los]
            hi_v = [terms.evaluate(e, env=pt) for e in his]
            nv = pt.get(N, None)
            if min(lo_v) < 0 or (hi_v[0] > lo_v[0] and max(hi_v) > nv):
                bad = ({str(s): str(v) for s, v in pt.items()}, [str(x) for x in lo_v], [str(x) for x in hi_v])
                break
        run.ob("R2", f_inc.where, "source ranges " + tag, "every returned sample has an in-range source in every channel (lo_i >= 0, hi_i <= len)",
               bad is None, found=None if bad is None else f"lo={bad[1]} hi={bad[2]}", witness=None if bad is None else bad[0],
               nontrivial=True, note=f"inequality evaluated exactly at {npts} random rational points of the extracted terms")
        # ledger
        bad_meta = meta_same(z, out, skip=("_data", "_start_time"))
        ck.same("R2", f_inc.where, "ledger " + tag, "type, frequency labels and the other metadata are kept; only start_time may change",
                out.cls is z.cls and not bad_meta, found="; ".join(bad_meta) or obj_summary(out), nontrivial=True)
    # ------------------------------------------------------------------ R3: realignment for concrete delay patterns
    realign_concrete(ck, prog, f_inc, f_sd, dm)
    run.extra["decided_by"] = ck.how


def per_channel(val, D, nchan):
    """The returned data as [(lo, hi, source channel)] per output channel, for the shapes a realignment can take: channels
    stacked one by one, blocks of channels concatenated along the frequency axis, or one slice of the whole array."""
    def one(expr):
        ds = destructure_item(expr)
        if ds is None or ds[0] != D or ds[3] != NONE_S:
            return None
        return ds
    if isinstance(val, Num) and val.expr == D:
        return [(sp.Integer(0), N, i) for i in range(nchan)]          # the whole input (a copy of it): every channel over [0, N)
    if isinstance(val, StackV):
        if val.axis != 1:
            return None
        out = []
        for it in val.items:
            ds = one(it.expr)
            if ds is None or len(ds[4]) < 1 or not sp.sympify(ds[4][0]).is_Integer:
                return None
            out.append((ds[1], ds[2], int(ds[4][0])))
        return out
    if not isinstance(val, Num):
        return None
    e = val.expr
    parts = [e]
    if e.func == F["Concat"]:
        if e.args[1] != 1:
            return None
        parts = list(e.args[0].args)
    out = []
    for p_ in parts:
        ds = one(p_)
        if ds is None:
            return None
        rest = ds[4]
        if not rest:
            a, b = 0, nchan
        elif rest[0].func == F["Slc"]:
            a, b, st = rest[0].args
            if st != NONE_S:
                return None
            a = 0 if a == NONE_S else a
            b = nchan if b == NONE_S else b
            if not (sp.sympify(a).is_Integer and sp.sympify(b).is_Integer):
                return None
            a, b, _ = slice(int(a), int(b)).indices(nchan)
        elif getattr(rest[0].func, "__name__", "") == "IdxArr":
            chans = [int(c_) for c_ in rest[0].args]
            if any(not 0 <= c_ < nchan for c_ in chans):
                return None
            for c in chans:
                out.append((ds[1], ds[2], c))
            continue
        else:
            return None
        for c in range(a, b):
            out.append((ds[1], ds[2], c))
    return out


def realign_concrete(ck, prog, f_inc, f_sd, dm):
    """incoherent_dedispersion with sample_delay replaced by fixed per-channel delays (the delay law is R1/R2's business):
    whichever way the source slices the data - per channel, in blocks of equal delay, in one go - output channel i must be
    input channel i over [crop + round(d_i), crop + round(d_i) + N') with crop = -min(0, r_first, r_last), N' = N - max."""
    from ..extapi import NdArr
    import math
    pats = [("positive DM", ["4.6", "3.2", "2.9", "0.4", "-1.7"]), ("negative DM", ["-3.4", "-1.2", "-0.6", "0.2", "2.7"]),
            ("sub-sample delays", ["0.3", "0.2", "0.1", "-0.1"]), ("reference above the band", ["7.2", "5.1", "5.4", "3.3"][:1] + ["6.1", "5.2", "3.3"]),
            ("reference below the band, negative DM", ["1.2", "2.2", "2.4", "6.7"]), ("equal neighbours", ["3.1", "2.8", "2.2", "1.9", "0.2", "-0.4"])]
    if ck.run.tier == "quick":
        pats = pats[:3] + pats[5:]
    # one channel: a delay relative to a reference outside the channel is still a delay
    pats += [("single channel, late", ["2.7"]), ("single channel, early", ["-3.2"])]
    # every channel with the same whole-sample delay: nothing moves relative to anything else, but the time stamp still does
    pats += [("no channel delayed", ["0.2", "0.1", "-0.3"]), ("all channels equally early", ["-3.2", "-2.9", "-3.4"]), ("all channels equally late", ["2.2", "1.9", "2.4"])]
    n_ok = 0
    dotted = f"{f_sd.module}.{f_sd.qualname}"
    for label, ds_ in pats:
        nchan = len(ds_)
        vals = [sp.Rational(x) for x in ds_]

        def ov(ev, args, kwargs, node, fr, fn, vals=vals):
            arr = NdArr((len(vals),), [Num(v, isfloat=True) for v in vals])
            arr.dtype = ExtV("numpy.float64")
            return arr
        for has_t in (True, False):
            z = make_signal(prog, "RadioSignal", nchan=nchan, freq_align="center", start_time=has_t)
            tag = f"[{label}: delays {ds_}{'' if has_t else ', no start_time'}]"
            ev = ck.evaluator()
            ev.overrides[dotted] = ov
            out = ck.attempt("R3", f_inc.where, "incoherent_dedispersion with fixed delays " + tag, "evaluates", lambda: ev.call(f_inc, [z, dm], {}), ev=ev,
                             allowed_guards=[])
            if out is None:
                continue
            D = z.attrs["_data"].expr
            pc = per_channel(out.attrs.get("_data"), D, nchan)
            if pc is None:
                ck.unk("R3", f_inc.where, "result data " + tag, "the result is made of time slices of the input's channels", repr(out.attrs.get("_data"))[:200])
                continue
            r = [math.floor(v + sp.Rational(1, 2)) for v in vals]
            crop = -min(0, r[0], r[-1])
            lo = [x + crop for x in r]
            keep = N - max(lo)
            bad = None
            if len(pc) != nchan:
                bad = f"{len(pc)} output channels for {nchan} input channels"
            else:
                for i, (l_, h_, src) in enumerate(pc):
                    if src != i:
                        bad = f"output channel {i} is taken from input channel {src}"
                        break
                    if sp.simplify(l_ - lo[i]) != 0 or sp.simplify(h_ - (lo[i] + keep)) != 0:
                        bad = f"output channel {i} covers [{l_}, {h_}) of the input, expected [{lo[i]}, {lo[i]} + N - {max(lo)})"
                        break
            ck.same("R3", f_inc.where, "realignment " + tag,
                    "output channel i is input channel i over [crop + round(d_i), crop + round(d_i) + N - max) with crop = -min(0, r_first, r_last)",
                    bad is None, found=bad, nontrivial=True)
            if has_t:
                ck.eq("R3", f_inc.where, "start_time " + tag, "advances by crop/sample_rate", out.attrs["_start_time"].expr, (T0 + crop / SR) / Hz)
            else:
                ck.same("R3", f_inc.where, "start_time " + tag, "a signal without start time does not acquire one", out.attrs["_start_time"] is NONE,
                        found=repr(out.attrs["_start_time"]))
            n_ok += 1
    ck.run.floor("R3", "fixed-delay realignment cases decided", n_ok, 6)


def _freq_constraints(nchan, delay=None):
    """All channel frequencies and the reference positive: CF > BW*nchan; N large enough to keep things in range.
    delay: a term linear in the DM symbol (a dispersion delay in samples); when given, the DM value of each sample point is
    chosen so that this delay is a non-integer of moderate size (|d| between 1/3 and 40 samples, either sign) whatever the
    other symbols came out as - otherwise floor/ceil and clamping terms are only ever compared in their saturated regime."""
    def c(pt):
        pt = dict(pt)
        bw = pt.get(BW)
        if SR in pt and BW not in pt:
            bw = pt[SR]
        if CF in pt and bw is not None:
            pt[CF] = abs(pt[CF]) + bw * (nchan + 1)
        elif CF in pt and SR in pt:
            pt[CF] = abs(pt[CF]) + pt[SR] * (nchan + 1)
        if DMv in pt:
            done = False
            if delay is not None:
                try:
                    env = dict(pt)
                    env[DMv] = sp.Integer(1)
                    coef = terms.evaluate(delay, env=env)
                    coef = sp.Rational(coef.re.numerator, coef.re.denominator) if hasattr(coef, "re") else sp.nsimplify(coef)
                    if coef != 0:
                        raw = sp.Rational(pt[DMv])
                        mag = sp.Rational(int(abs(raw.p)) % 119 + 1, 3) + sp.Rational(1, 7)          # 10/21 .. 40.1, never an integer
                        pt[DMv] = (mag if raw >= 0 else -mag) / coef
                        done = True
                except Exception:
                    done = False
            if not done:
                # keep delays moderate: scale DM so that delays are O(1..50) samples
                pt[DMv] = pt[DMv] * sp.Rational(1, 10**11) * pt.get(CF, 1) ** 2
        if N in pt:
            pt[N] = abs(pt[N]) + 400
        return pt
    return c
