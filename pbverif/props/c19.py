"""C19 - real_to_complex is the exact analytic-baseband conversion along any axis."""
from __future__ import annotations

import ast
import sympy as sp

from ..spec import Checker, FR
from ..sigmodel import N
from ..values import Num, StrV, NONE, F, NONE_S, TupleV, SliceV, ExtV
from ..extapi import NdArr
from ..symeval import Raised
from ..values import Unsupported
from ..model import norm

EXPLANATION = (
    "real_to_complex is evaluated by the term evaluator (a) on explicit arrays of real symbols x[0..N-1] for every length 1..9 "
    "(1..16 thorough) and on rank-2/3 arrays along every axis position, with exact DFT sums over roots of unity whatever transform "
    "pair the source uses (fft/ifft, rfft/irfft, zero padding): every output element must equal (-1)^m * a[2m] where a is the "
    "analytic signal with one-sided weights [1, 2, .., 2, (1 if N even), 0, .., 0], (-1)^m Re(out[m]) must equal x[2m], the length "
    "must be ceil(N/2) along the converted axis and every other axis must stay in place, including arrays that are empty along "
    "another axis (coefficients are closed-form algebraic constants compared at 40 digits); (b) for symbolic N on arrays of rank "
    "1-3 and every axis: the result must be ifft(h * fft(x, axis), axis) * exp(-i*pi*m) on the decimated index m (the quarter-rate "
    "mixer exp(-i*pi*n/2) at n = 2m), with output length ceil(N/2) on that axis and every other extent unchanged; the output dtype "
    "rule, the empty-input shortcut and the refusal of complex input are evaluated; the factor 2 used by the readers for "
    "real-sampled data (seek, read, rate and length divisors) must agree with the decimation step. FFT round-off is not decided."
)


def check(run, prog):
    run.explanation = EXPLANATION
    run.assumptions += ["complex-number semantics; scipy.fft transforms as opaque injective operators"]
    ck = Checker(run, prog)
    fi = prog.func("real_to_complex")
    run.touched(fi)
    # ------------------------------------------------------------------ R1 the definition itself on explicit arrays
    explicit_definition(ck, prog, fi, "R1")
    # ------------------------------------------------------------------ R2 / R3 symbolic N, every axis
    A, B, C = (sp.Symbol(s, integer=True, positive=True) for s in "ABC")
    plans = [((N,), [0, -1]), ((N, B), [0]), ((A, N), [1, -1]), ((N, B, C), [0]), ((A, N, C), [1]), ((A, B, N), [2, -1])]
    if run.tier == "quick":
        plans = [((N,), [0]), ((A, N), [1]), ((N, B, C), [0]), ((A, B, N), [-1])]
    for shape, axes in plans:
        for axis in axes:
            for dt in (("float64", "complex128"),) + ((("float32", "complex64"),) if len(shape) == 1 or run.tier == "thorough" else ()):
                ev = ck.evaluator()
                x = Num(sp.Symbol("x"), kind="array", shape=shape, tag="data", dtype=ExtV("numpy." + dt[0]))
                tag = f"[shape {shape}, axis={axis}, {dt[0]}]"
                kw = {} if (axis == 0 and len(shape) == 1) else {"axis": Num(axis)}
                out = ck.attempt("R2", fi.where, "real_to_complex(x, axis) " + tag, "evaluates", lambda: ev.call(fi, [x], kw), ev=ev, allowed_guards=[])
                if out is None or not isinstance(out, Num):
                    continue
                pos = axis % len(shape)
                exp_shape = [sp.ceiling(N / 2) if i == pos else s for i, s in enumerate(shape)]
                ok = out.shape is not None and len(out.shape) == len(shape)
                if ok:
                    for got, want in zip(out.shape, exp_shape):
                        ck.eq("R3", fi.where, "output extents " + tag, "ceil(N/2) along the converted axis, every other extent unchanged (same axis order)",
                              got, want)
                else:
                    ck.same("R3", fi.where, "output rank " + tag, "same rank as the input", False, found=str(out.shape))
                fills = getattr(ev, "fresh_arrays", [])
                if len(fills) != 1:
                    ck.unk("R2", fi.where, "weight array " + tag, "one zero-initialised weight array", f"{len(fills)} arrays")
                    continue
                W = fills[0][0]
                midx = [s for s in out.expr.free_symbols if s.name.startswith("j") and s.name[1:].isdigit()]
                if len(midx) != 1:
                    ck.unk("R2", fi.where, "mixer index " + tag, "the mixer runs over one (decimated) index", str(out.expr)[:160])
                    continue
                m = midx[0]
                expected = F["IFFT"](W * F["FFT"](x.expr, axis), axis) * sp.exp(-sp.I * sp.pi * m)
                ck.eq("R2", fi.where, "result term " + tag,
                      "== ifft(h * fft(x, axis), axis) * exp(-i*pi*n/2) at n = 2m (decimation by two), same axis for both transforms", out, expected)
                # the weight and the mixer are broadcast along `axis`, and the decimation acts on `axis`
                bm = [t for t in ev.trace if t[0] == "broadcast-mismatch"]
                ck.same("R3", fi.where, "broadcast axes " + tag, "weights and mixer are aligned with the converted axis", not bm, found=str(bm)[:160],
                        nontrivial=True)
                prec = [t for t in ev.trace if t[0] in ("exp-dtype", "precision-cast")]
                ck.same("R2", fi.where, "mixer precision " + tag, "the mixer phase n*pi/2 is formed and exponentiated in double precision whatever the data's precision "
                        "(a single-precision ramp is off by ~1e-7*n radians: 7e-3 at n = 65536)", not prec, found=str(prec)[:160], nontrivial=True)
                od = ev.last_frame.env.get("out_dtype")
                rd = out.dtype
                ck.same("R3", fi.where, "dtype rule " + tag, "complex64 for float32 input, complex128 otherwise",
                        isinstance(rd, ExtV) and rd.dotted == "numpy." + dt[1], found=repr(rd), expected="numpy." + dt[1])
    # N == 0 shortcut and complex input
    for dt, want in (("float32", "complex64"), ("float64", "complex128"), ("int64", "complex128"), ("int32", "complex128"), ("int16", "complex128"),
                     ("int8", "complex128"), ("uint8", "complex128"), ("float16", "complex128"), ("bool_", "complex128")):
        ev = ck.evaluator()
        x = Num(sp.Symbol("x"), kind="array", shape=(sp.Integer(0), sp.Integer(3)), tag="data", dtype=ExtV("numpy." + dt))
        out = ck.attempt("R3", fi.where, f"real_to_complex(empty {dt})", "evaluates", lambda: ev.call(fi, [x], {}), ev=ev, allowed_guards=[])
        if out is not None:
            ck.same("R3", fi.where, f"empty input ({dt})", "returns an empty array of the rule's dtype", isinstance(out, Num) and isinstance(out.dtype, ExtV)
                    and out.dtype.dotted == "numpy." + want and out.shape is not None and out.shape[0] == 0, found=f"{out!r} dtype={getattr(out, 'dtype', None)!r}")
    # ... and the same rule on the main path (N > 0) for the narrow and integer dtypes: only float32 gives complex64
    for dt, want in (("int64", "complex128"), ("int16", "complex128"), ("int8", "complex128"), ("uint8", "complex128"), ("uint16", "complex128"),
                     ("float16", "complex128"), ("bool_", "complex128")):
        ev = ck.evaluator()
        x = Num(sp.Symbol("x"), kind="array", shape=(N,), tag="data", dtype=ExtV("numpy." + dt))
        out = ck.attempt("R3", fi.where, f"real_to_complex({dt} data of length N)", "evaluates", lambda: ev.call(fi, [x], {}), ev=ev, allowed_guards=[])
        if out is not None:
            ck.same("R3", fi.where, f"dtype rule [{dt}, N > 0]", "complex64 for float32 input, complex128 otherwise",
                    isinstance(out, Num) and isinstance(out.dtype, ExtV) and out.dtype.dotted == "numpy." + want, found=repr(getattr(out, "dtype", None)),
                    expected="numpy." + want, nontrivial=True)
    for dt in ("complex64", "complex128"):
        x = Num(sp.Symbol("x"), kind="array", shape=(N,), tag="data", dtype=ExtV("numpy." + dt))
        try:
            ck.evaluator().call(fi, [x], {})
            ck.same("R3", fi.where, f"complex input ({dt})", "is refused with ValueError before any work", False, found="accepted")
        except Raised as e:
            ck.same("R3", fi.where, f"complex input ({dt})", "is refused with ValueError before any work", e.exc_name == "ValueError", found=str(e)[:120])
        except Unsupported as e:
            ck.unk("R3", fi.where, f"complex input ({dt})", "is refused with ValueError", str(e))
    # ------------------------------------------------------------------ R4 factor agreement with the readers
    reader_factor_agreement(ck, prog, "R4")
    # the FFT routines work on (views of) the caller's data: they must never be given permission to overwrite their operand
    from ..structural import overwrite_report
    overwrite_report(ck, prog, "R1")
    from ..structural import hooks_report
    hooks_report(ck, prog, "R1")
    run.extra["decided_by"] = ck.how


def const_is_zero(c):
    """c is a closed-form constant (algebraic numbers from roots of unity): decided by 40-digit evaluation."""
    if c == 0:
        return True
    try:
        return abs(complex(sp.N(c, 40))) < 1e-28
    except Exception:
        return None


def linear_zero(expr, syms):
    """expr is linear in syms with constant coefficients: None if every coefficient is zero, else the first
    (symbol, coefficient) that is not; 'unknown' when the expression is not of that form."""
    expr = sp.expand(expr)
    try:
        poly = sp.Poly(expr, *syms)
    except Exception:
        return "unknown"
    for mon, c in poly.terms():
        z = const_is_zero(c)
        if z is None:
            return "unknown"
        if not z:
            name = "*".join(str(sy) for sy, p_ in zip(syms, mon) if p_) or "1"
            return (name, sp.N(c, 6))
    return None


def explicit_definition(ck, prog, fi, rule, plans=None, floor=12):
    """real_to_complex evaluated on explicit arrays of real symbols x[0..N-1] (exact DFT sums over roots of unity, any
    algorithm the source uses: fft/ifft, rfft/irfft, zero padding), compared with the statement: length ceil(N/2);
    (-1)^m Re(out[m]) == x[2m]; out[m] == (-1)^m * a[2m] where a is the analytic signal (spectrum h*X with the one-sided
    weights); every other axis untouched and in place."""
    import itertools
    quick = ck.run.tier == "quick"
    if plans is None:
        plans = [((n,), 0) for n in range(1, 10 if quick else 17)]
        plans += [((2, 5), 1), ((4, 3), 0), ((3, 2, 2), 0), ((2, 2, 4), -1), ((2, 3, 2), 1), ((5, 0), 0), ((0, 5), 1)]
        if not quick:
            plans += [((6, 2), 0), ((2, 7), -1), ((4, 2, 3), -3), ((3, 4, 2), 1)]
    n_done = 0
    for shape, axis in plans:
        tag = f"[explicit array, shape {shape}, axis={axis}]"
        size = 1
        for s_ in shape:
            size *= s_
        pos = axis % len(shape)
        n = shape[pos]
        ev = ck.evaluator()
        if size == 0:
            x = Num(sp.Symbol("x"), kind="array", shape=tuple(sp.Integer(s_) for s_ in shape), tag="data", dtype=ExtV("numpy.float64"))
        else:
            syms = [sp.Symbol("x" + "_".join(map(str, c)), real=True) for c in itertools.product(*[range(s_) for s_ in shape])]
            x = NdArr(shape, [Num(sy) for sy in syms])
            x.dtype = ExtV("numpy.float64")
        kw = {} if (axis == 0) else {"axis": Num(axis)}
        out = ck.attempt(rule, fi.where, "real_to_complex(x, axis) " + tag, "evaluates", lambda: ev.call(fi, [x], kw), ev=ev, allowed_guards=[])
        if out is None:
            continue
        want_shape = tuple((n + 1) // 2 if i == pos else s_ for i, s_ in enumerate(shape))
        got_shape = out.shape if isinstance(out, NdArr) else tuple(int(s_) if sp.sympify(s_).is_number else s_ for s_ in (out.shape or ())) \
            if isinstance(out, Num) else None
        ck.same(rule, fi.where, "output shape " + tag, "ceil(N/2) along the converted axis, every other extent unchanged and in place",
                got_shape == want_shape, found=str(got_shape), expected=str(want_shape), nontrivial=True)
        if size == 0 or got_shape != want_shape or not isinstance(out, NdArr):
            n_done += 1
            continue
        # reference: per line along `pos`
        w = [sp.exp(2 * sp.pi * sp.I * sp.Rational(k, n)) for k in range(n)]
        h = [sp.Integer(0)] * n
        h[0] = sp.Integer(1)
        for k in range(1, n // 2):
            h[k] = sp.Integer(2)
        if n > 1:
            h[n // 2] = sp.Integer(2 if n % 2 else 1)
        bad = None
        unknown = None
        xin = {c: sy for c, sy in zip(itertools.product(*[range(s_) for s_ in shape]), syms)}
        oidx = list(itertools.product(*[range(s_) for s_ in want_shape]))
        for c, e in zip(oidx, out.items):
            m = c[pos]
            line = [xin[c[:pos] + (j,) + c[pos + 1:]] for j in range(n)]
            X = [sum(line[j] * w[(-j * k) % n] for j in range(n)) for k in range(n)]
            a2m = sum(h[k] * X[k] * w[(k * 2 * m) % n] for k in range(n)) / n
            ref = (-1) ** m * a2m
            r = linear_zero(e.expr - ref, syms)
            if r == "unknown":
                unknown = f"element {c}: {str(e.expr)[:120]}"
                break
            if r is not None:
                bad = f"element {c}: coefficient of {r[0]} differs from the definition by {r[1]}"
                break
            r2 = linear_zero(sp.re(sp.expand((-1) ** m * e.expr, complex=True)) - line[2 * m], syms)
            if r2 not in (None, "unknown"):
                bad = f"element {c}: (-1)^m Re(out[m]) - x[2m] has coefficient {r2[1]} on {r2[0]}"
                break
        if unknown:
            ck.unk(rule, fi.where, "values " + tag, "elements are linear forms in the input samples", unknown)
            continue
        ck.same(rule, fi.where, "values " + tag,
                "out[m] == (-1)^m * analytic(x)[2m] with one-sided weights [1, 2.., (1 if N even), 0..]; (-1)^m Re(out[m]) == x[2m]; other axes untouched",
                bad is None, found=bad, nontrivial=True)
        n_done += 1
    ck.run.floor(rule, "explicit-array cases decided", n_done, floor)
    return n_done


def reader_factor_agreement(ck, prog, rule):
    """The factor relating real samples to complex samples must be one and the same (2) wherever it is used: the reader's seek
    position and read count, its sample-rate and length divisors, and the decimation of real_to_complex.  Decided by evaluating
    the reader against the stream-reader model (not by matching source text)."""
    from .c11 import file_model, L, FS, o, n
    from ..values import ClassV, DictV, Hz as HZ
    from ..spec import FR
    init = prog.func("BasebandReader.__init__")
    rb = prog.func("BasebandReader._read_baseband")
    r2c = prog.func("real_to_complex")
    for f in (init, rb, r2c):
        ck.run.touched(f)
    fm, log = file_model(False, (2,), "float32")
    ev = ck.evaluator()
    ev.file_model = fm
    cf = sp.Symbol("cf", real=True)
    kw = {"signal_type": ClassV(prog.cls("BasebandSignal")), "signal_kwargs": DictV({"center_freq": Num(cf * HZ, kind="quantity")})}
    r = ck.attempt(rule, init.where, "BasebandReader(real-sampled file)", "constructs against the stream-reader model",
                   lambda: ev.construct(prog.cls("BasebandReader"), [StrV("file")], kw, FR()), ev=ev, allowed_guards=["ValueError"])
    if r is None:
        return
    del log[:]
    s = ck.attempt(rule, rb.where, "read(o, n) of real-sampled data", "evaluates",
                   lambda: ev.call(prog.func("BaseReader.read"), [Num(o), Num(n)], {}, self_val=r), ev=ev, allowed_guards=["ValueError", "OutOfBoundsError"])
    if s is None:
        return
    seeks = [e for e in log if e[0] == "seek"]
    reads = [e for e in log if e[0] == "read"]
    found = {}
    try:
        if seeks:
            found["seek position / offset"] = sp.simplify(seeks[0][1].expr / o)
        if reads:
            found["read count / n"] = sp.simplify(reads[0][2].expr / n)
        found["file rate / reader rate"] = sp.simplify(FS * HZ / r.attrs["_sample_rate"].expr)
        ln = r.attrs["_shape"].items[0].expr
        found["file length / reader length"] = sp.Integer(2) if ln == sp.floor(L / 2) else sp.simplify(L / ln)
        d = s.attrs["_data"]
        if isinstance(d, Num) and d.shape and reads:
            # decimation of real_to_complex: input count (2n) over output count
            out_len = d.shape[0]
            k = sp.Symbol("k_pos", integer=True, positive=True)
            found["samples in / samples out (real_to_complex)"] = sp.simplify(reads[0][2].expr.subs(n, k) / out_len.subs(n, k))
    except Exception as e:  # noqa
        ck.unk(rule, rb.where, "factor sites", "the five uses of the real-to-complex factor are evaluable", str(e)[:160])
        return
    want = {"seek position / offset", "read count / n", "file rate / reader rate", "file length / reader length", "samples in / samples out (real_to_complex)"}
    if set(found) != want:
        ck.unk(rule, rb.where, "factor sites", "all five uses of the real-to-complex factor are found", f"found {sorted(found)}")
        return
    from .. import terms as _T
    verdicts = {k_: (True if v == 2 else _T.equal(sp.sympify(v), sp.Integer(2), seed=ck.run.seed,
                                                   constraints=lambda pt: {s_: (abs(x_) + 1 if s_.is_integer else x_) for s_, x_ in pt.items()}).equal)
                for k_, v in found.items()}
    what = "seek(k*offset), read(k*n), sample_rate/k, length//k and the decimation of real_to_complex use one and the same k == 2"
    if any(v is False for v in verdicts.values()) or all(v is True for v in verdicts.values()):
        ck.same(rule, rb.where, "real-sample factor: " + ", ".join(f"{k_} = {v}" for k_, v in sorted(found.items())), what,
                all(v is True for v in verdicts.values()), found=str({k_: str(v) for k_, v in found.items()}), nontrivial=True)
    else:
        ck.unk(rule, rb.where, "real-sample factor", what, f"not decided: {[k_ for k_, v in verdicts.items() if v is None]}")
