"""C08 - Polyco prediction equals the tempo formula on every entry's span."""
from __future__ import annotations

import ast
import sympy as sp

from ..spec import Checker, FR
from ..values import Num, StrV, NONE, ExtV, ObjV, TupleV, DictV, BoolV, ClassV, NoneV, Unsupported, DimensionError, ListV, OpaqueV, Hz
from ..extapi import NdArr, PolyV
from ..symeval import Raised, Evaluator, Frame
from ..model import norm
from ..cfg import CFG, raised_exception_name, enclosing_stmt_map
from ..alias import AliasAnalysis

EXPLANATION = (
    "from_polyco is evaluated by the term evaluator on polyco text whose numeric tokens are symbols (TMID, RPHASE = RI + RF, F0, "
    "COEFF(i)), for coefficient counts 1..7 (line counts that are not multiples of three) and on a concrete entry with D exponents "
    "and signs: for every entry, rphase + poly(dt) must equal RPHASE + 60*DT*F0 + sum COEFF(i)*DT^(i-1) with DT = dt/60 as a "
    "polynomial identity in dt, the integer part must carry all digits before the point, span/frequency/TMID must be read with their "
    "units. Structural rules: the range check dominates every polynomial evaluation in __call__/f0/phasepol and raises ValueError "
    "unless every time lies in a closed validity interval; phasepol refuses non-scalar times; time_at raises ValueError before root "
    "finding; scalar and array branches of __call__ and f0 evaluate the same expression up to masking, and the array loop ranges "
    "over every entry index that occurs (checked on small concrete index arrays); the derivative order of f0 and its unit exponent "
    "agree; func/fprime of time_at are evaluated at the same argument; spans are tmid -/+ span/2 and merged when they touch or "
    "overlap with the literal 1 ms tolerance; no prediction method writes to the predictor table (alias analysis; the interval cache "
    "is the one sanctioned store). The 1e-8-cycle accuracy, the root finder and the merge loop as an algorithm are not decided."
)


def textfile(lines):
    return OpaqueV("textfile", {"lines": lines, "pos": 0})


def run_from_polyco(prog, lines):
    got = {}

    def ov(ev, args, kwargs, node, fr, ci):
        got["table"] = args[0] if args else kwargs.get("data")
        return OpaqueV("predictor", got["table"])
    ev = Evaluator(prog, overrides={"pulsarbat.pulsar.predictor.PhasePredictor": ov})
    ev.call(prog.func("PhasePredictor.from_polyco"), [textfile(lines)], {}, cls_val=ClassV(prog.cls("PhasePredictor")))
    return got.get("table"), ev


def entry_lines(k, ncoeff, sym=True):
    head = f"PSR{k}   6-May-18  223000.00   @TMID{k}            71.020168 -0.713 -6.294\n"
    l2 = f" @RI{k}.@RF{k}  @F0_{k}   ao   90   {ncoeff}   327.000\n"
    toks = [f"@C{k}_{i + 1}" for i in range(ncoeff)]
    rows = [" " + " ".join(toks[i:i + 3]) + "\n" for i in range(0, ncoeff, 3)]
    return [head, l2] + rows


def table_order_rule(ck, prog, run):
    """_get_index_and_dt finds the entry of a time by binary search (np.searchsorted) over the span ends, which is only right when
    the table rows are in ascending TMID order.  The constructor is the one place that establishes this: whatever order the
    entries arrive in, what it hands to the table base class must be ascending in TMID."""
    from ..symeval import Frame
    init = prog.func("PhasePredictor.__init__")
    gid = prog.func("PhasePredictor._get_index_and_dt")
    run.touched(init)
    uses_search = any(isinstance(n, ast.Call) and norm(n.func).endswith("searchsorted") for n in ast.walk(gid.node))
    ck.same("R2", gid.where, "np.searchsorted(span_ends, times)", "(premise) entries are located by binary search over the span ends", uses_search,
            found=None if uses_search else "no searchsorted call: the order rule below may not be needed any more", nontrivial=False)
    if not uses_search:
        return
    ec, ci = prog.cls("PolycoEntry"), prog.cls("PhasePredictor")
    orders = [(10, 20, 30, 40), (10, 30, 20, 40), (20, 10, 40, 30), (40, 30, 20, 10), (30, 40, 10, 20), (20, 10), (10,)]
    n = 0
    for order in orders:
        ents = [ObjV(ec, {"psr": StrV("J0000"), "obs": StrV("ao"), "freq": Num(327 * 10**6 * Hz, kind="quantity"), "tmid": Num(sp.Integer(t) * 5400 / Hz, kind="time"),
                          "span": Num(5400 / Hz, kind="quantity"), "rphase": Num(sp.Symbol(f"r{t}", integer=True)), "poly": StrV(f"polynomial of entry {t}")})
                for t in order]
        got = {"sorts": []}

        def ov(ev_, args, kwargs, node, fr, fn=None, got=got):
            got["data"] = args[0] if args else kwargs.get("data")
            return NONE

        def sort_method(ev_, args, kwargs, fr, node, got=got):
            got["sorts"].append((list(args), dict(kwargs)))
            return NONE
        from ..values import PyFuncV
        ev = ck.evaluator()
        ev.overrides["builtins.object.__init__"] = ov
        me = ObjV(ci, {"sort": PyFuncV(sort_method, "QTable.sort")})
        tag = f"PhasePredictor(entries with TMID order {list(order)})"
        try:
            ev.call(init, [ListV(ents)], {}, self_val=me)
        except Raised as e:
            if "data" not in got:
                ck.unk("R2", init.where, tag, "the constructor evaluates up to the table base class", str(e)[:200])
                continue
        except Unsupported as e:
            # everything after the rows are stored (column checks through the table API) is outside this rule
            if "data" not in got:
                ck.unk("R2", init.where, tag, "the constructor evaluates up to the table base class", str(e)[:200])
                continue
        data = got.get("data")
        if not isinstance(data, ListV) or not all(isinstance(d_, DictV) and "tmid" in d_.d for d_ in data.items):
            ck.unk("R2", init.where, tag, "the constructor hands a list of per-entry dicts to the table base class", repr(data)[:160])
            continue
        tm = [sp.simplify(d_.d["tmid"].expr * Hz / 5400) for d_ in data.items]
        sorted_later = any(a_ and isinstance(a_[0], StrV) and a_[0].s == "tmid" and not any(isinstance(v_, BoolV) and v_.b for k_, v_ in kw_.items() if k_ == "reverse")
                           for a_, kw_ in got["sorts"])
        if tm != sorted(order) and sorted(tm) == sorted(order) and sorted_later:
            ck.same("R2", init.where, tag, "the table is put into ascending TMID order by self.sort('tmid') on this path, after the rows are stored", True, nontrivial=True)
            n += 1
            continue
        ck.same("R2", init.where, tag, "the rows handed to the table are all the entries, in ascending TMID order (what the binary search over span ends relies on)",
                tm == sorted(order), found=f"row order {tm}" + ("" if not got["sorts"] else f"; later sort calls: {len(got['sorts'])}"), expected=str(sorted(order)), nontrivial=True)
        n += 1
    run.floor("R2", "entry orders pushed through the constructor", n, 6)


def check(run, prog):
    run.explanation = EXPLANATION
    run.assumptions += ["numpy.polynomial.Polynomial(domain=[a,b]) maps [a,b] linearly onto [-1,1] (API table)", "tempo polyco layout as in the docstring of from_polyco"]
    ck = Checker(run, prog)
    r1(ck, prog, run)
    r2(ck, prog, run)
    table_order_rule(ck, prog, run)
    r3(ck, prog, run)
    r4(ck, prog, run)
    r5(ck, prog, run)
    run.extra["decided_by"] = ck.how


# ---------------------------------------------------------------------------------------- R1
def r1(ck, prog, run):
    fp = prog.func("PhasePredictor.from_polyco")
    run.touched(fp)
    dt = sp.Symbol("dt", real=True)
    counts = [2, 3, 4, 5, 7] if run.tier == "quick" else [2, 3, 4, 5, 6, 7, 8, 12, 13]
    # several entries in one file, different coefficient counts
    lines = []
    for k, nc in enumerate(counts):
        lines += entry_lines(k, nc)
    holder = {}

    def _go():
        t_, ev_ = run_from_polyco(prog, lines)
        holder["ev"] = ev_
        return t_
    table = ck.attempt("R1", fp.where, f"from_polyco(text with {len(counts)} entries, NCOEFF = {counts})", "evaluates on symbolic polyco text", _go)
    if table is not None:
        lossy = [t for t in holder["ev"].trace if t[0] == "time-from-double"]
        ck.same("R1", fp.where, "TMID -> astropy Time", "the decimal text of TMID reaches Time() as text (or as two doubles): one double resolves a modern MJD to about a "
                "microsecond, i.e. ~1e-4 cycles at F0 = 100 Hz, far above the 1e-8 cycle bound", not lossy, found=str([t[1] for t in lossy])[:160], nontrivial=True)
        entries = table.items if isinstance(table, ListV) else []
        ck.same("R1", fp.where, "number of entries", "every entry of the file is read (line count per entry is ceil(NCOEFF/3))", len(entries) == len(counts),
                found=f"{len(entries)} entries", nontrivial=True)
        for k, (e, nc) in enumerate(zip(entries, counts)):
            RI = sp.Symbol(f"RI{k}", integer=True, nonnegative=True)
            RF = sp.Symbol(f"RF{k}_frac", real=True, nonnegative=True)
            F0 = sp.Symbol(f"F0_{k}", real=True)
            C = [sp.Symbol(f"C{k}_{i + 1}", real=True) for i in range(nc)]
            DT = dt / 60
            tempo = RI + RF + 60 * DT * F0 + sum(C[i] * DT ** i for i in range(nc))
            poly, rph = e.attrs.get("poly"), e.attrs.get("rphase")
            if not isinstance(poly, PolyV) or not isinstance(rph, Num):
                ck.unk("R1", fp.where, f"entry {k}", "has an integer reference phase and a polynomial", f"{poly!r} {rph!r}")
                continue
            ck.eq("R1", fp.where, f"entry {k} (NCOEFF={nc}): rphase + poly(dt)", "== RPHASE + 60*DT*F0 + sum COEFF(i)*DT^(i-1), DT = dt/60 [dt in seconds]",
                  rph.expr + poly.expr(dt), tempo)
            ck.same("R1", fp.where, f"entry {k}: integer reference phase", "carries exactly the digits before the decimal point (the fraction goes into coefficient 0)",
                    rph.expr == RI, found=str(rph.expr))
            if k == 0:
                # the polynomial in the form from_polyco stores it (mapped or converted, whatever domain/window it is given) is the one
                # phasepol re-centres: the two must agree on that form.  phasepol is evaluated on a one-entry table holding this very object.
                pp_ = prog.func("PhasePredictor.phasepol")
                d_ = sp.Symbol("d", real=True)
                x_ = PolyV.X
                pred1 = predictor_model(prog, [sp.Symbol("tm0", real=True)], sp.Integer(5400), [rph.expr], [poly])
                tsc = Num(sp.Symbol("t", real=True) / Hz, kind="time", shape=())
                rr = ck.attempt("R1", pp_.where, "phasepol(t0) on the entry as from_polyco stored it", "evaluates", lambda: eval_with_index(prog, pp_, pred1, tsc, Num(0), Num(d_)))
                if rr is not None:
                    res_, log_, ev_ = rr
                    fa_ = [q_[1] for q_ in log_.events if q_[0] == "from_angles"]
                    if isinstance(res_, TupleV) and len(res_.items) == 2 and isinstance(res_.items[0], PolyV) and len(fa_) == 1 and isinstance(fa_[0]["phase1"], Num):
                        ref_ = sp.simplify(fa_[0]["phase1"].expr / (2 * sp.pi))
                        if fa_[0]["phase2"] is not NONE and isinstance(fa_[0]["phase2"], Num):
                            ref_ = ref_ + sp.simplify(fa_[0]["phase2"].expr / (2 * sp.pi))
                        ck.eq("R1", pp_.where, "from_polyco entry -> phasepol(t0): polynomial(x) + reference phase",
                              "== rphase + poly(x + dt) for the polynomial exactly as from_polyco stored it (its domain and window included)",
                              res_.items[0].expr(x_) + ref_, rph.expr + poly.expr(x_ + d_))
                    else:
                        ck.unk("R1", pp_.where, "from_polyco entry -> phasepol(t0)", "returns (polynomial, Phase built from one number)", repr(res_)[:160])
            tm = e.attrs.get("tmid")
            ck.eq("R1", fp.where, f"entry {k}: tmid", "TMID read as MJD", tm.expr if isinstance(tm, Num) else sp.Symbol("none"),
                  sp.Symbol(f"TMID{k}", real=True) * 86400 / Hz)
            sp_ = e.attrs.get("span")
            ck.eq("R1", fp.where, f"entry {k}: span", "the span is in minutes", sp_.expr if isinstance(sp_, Num) else sp.Symbol("none"), 90 * 60 / Hz)
            fq = e.attrs.get("freq")
            ck.eq("R1", fp.where, f"entry {k}: freq", "observing frequency in MHz", fq.expr if isinstance(fq, Num) else sp.Symbol("none"), 327 * 10**6 * Hz)
    # concrete entry: D exponents, signs, reference phase without a fractional part / with leading zeros
    for rphase, ri, rf in (("146750669817.214345", 146750669817, sp.Rational("0.214345")), ("12", 12, 0), ("0.5", 0, sp.Rational(1, 2)),
                           ("7.", 7, 0), ("1000000000000.000001", 10**12, sp.Rational(1, 10**6))):
        conc = ["B1937+21 6-May-18 223000.00 58244.9375 71.020168 -0.713 -6.294\n",
                f" {rphase}  641.928232294317 ao 90 5 327.000\n",
                " -1.5D-07  2.75d+00  +1.0E-04\n", " -5.85e-08 3\n"]
        t2 = ck.attempt("R1", fp.where, f"from_polyco(concrete entry, RPHASE={rphase})", "evaluates", lambda: run_from_polyco(prog, conc)[0])
        if t2 is None or not t2.items:
            continue
        e = t2.items[0]
        cs = [sp.Rational("-1.5e-7"), sp.Rational("2.75"), sp.Rational("1e-4"), sp.Rational("-5.85e-8"), sp.Integer(3)]
        F0 = sp.Rational("641.928232294317")
        tempo = ri + rf + F0 * dt + sum(c * (dt / 60) ** i for i, c in enumerate(cs))
        ck.eq("R1", fp.where, f"concrete entry with D/d/E exponents and signs, RPHASE={rphase}", "same identity with the coefficient values read exactly (D -> E)",
              e.attrs["rphase"].expr + e.attrs["poly"].expr(dt), tempo)
        ck.same("R1", fp.where, f"concrete entry, RPHASE={rphase}: integer part", "all digits before the point (a reference phase without a point is all integer)",
                e.attrs["rphase"].expr == ri, found=str(e.attrs["rphase"].expr))


# ---------------------------------------------------------------------------------------- R2 siblings
class _Subst(ast.NodeTransformer):
    def __init__(self, loopvar, mask):
        self.loopvar, self.mask = loopvar, mask

    def visit_Subscript(self, node):
        self.generic_visit(node)
        if isinstance(node.slice, ast.Name) and node.slice.id == self.mask:
            return node.value          # X[s] -> X
        return node

    def visit_Name(self, node):
        if node.id == self.loopvar:
            return ast.copy_location(ast.Name(id="index", ctx=node.ctx), node)
        return node


def sibling_branches(ck, prog, fi, targets, rule="R2"):
    """if times.isscalar: T = E  else: for i in DOMAIN: s = index == i; T[s] = E[i/index, dt[s]/dt]"""
    ifs = [s for s in fi.node.body if isinstance(s, ast.If) and "isscalar" in norm(s.test)]
    if len(ifs) != 1:
        ck.unk(rule, fi.where, "if times.isscalar", "scalar and array inputs are handled by two sibling branches", f"{len(ifs)} candidate branches")
        return None
    br = ifs[0]
    scalar = {norm(t): s.value for s in br.body if isinstance(s, ast.Assign) for t in s.targets}
    loops = [s for s in br.orelse if isinstance(s, ast.For)]
    if len(loops) != 1 or not isinstance(loops[0].target, ast.Name):
        ck.unk(rule, fi.where, "array branch", "fills the result entry by entry in one loop", f"{len(loops)} loops")
        return None
    loop = loops[0]
    lv = loop.target.id
    masks = [s for s in loop.body if isinstance(s, ast.Assign) and isinstance(s.value, ast.Compare) and len(s.targets) == 1 and isinstance(s.targets[0], ast.Name)]
    mk = None
    for m in masks:
        c = m.value
        if len(c.ops) == 1 and isinstance(c.ops[0], ast.Eq) and {norm(c.left), norm(c.comparators[0])} == {"index", lv}:
            mk = m.targets[0].id
    if mk is None:
        ck.same(rule, fi.where, "array branch mask", "each pass selects exactly the times whose entry index equals the loop value (s = index == i)", False,
                found=str([norm(m) for m in masks]), nontrivial=True)
        return loop
    for tname in targets:
        stores = [s for s in loop.body if isinstance(s, ast.Assign) and isinstance(s.targets[0], ast.Subscript) and norm(s.targets[0].value) == tname]
        if tname not in scalar or len(stores) != 1:
            ck.unk(rule, fi.where, f"{tname}", "assigned in both branches", f"scalar: {tname in scalar}, array stores: {len(stores)}")
            continue
        st = stores[0]
        okmask = isinstance(st.targets[0].slice, ast.Name) and st.targets[0].slice.id == mk
        import copy
        arr_expr = _Subst(lv, mk).visit(copy.deepcopy(st.value))
        same = norm(arr_expr) == norm(scalar[tname])
        ck.same(rule, fi.where, f"{tname}: scalar `{norm(scalar[tname])}` vs array `{norm(st.value)}`",
                "both branches evaluate the same expression (array branch: per entry, on the masked times)", okmask and same,
                found=f"array branch after un-masking: {norm(arr_expr)}", nontrivial=True)
    return loop


def loop_domain_covers(ck, prog, fi, loop, rule="R2"):
    """The array loop must visit every entry index that occurs in `index` - decided on small concrete index arrays."""
    mi = prog.module(fi.module)
    arrays = [[0, 0, 1], [2, 0, 1], [1, 1], [3, 0], [0], [2, 2, 0, 2], [1, 0, 0]]
    bad, unk = [], None
    for arr in arrays:
        ev = Evaluator(prog)
        idx = NdArr((len(arr),), [Num(v) for v in arr])
        fr = Frame(ev, fi, mi, {"index": idx, "self": OpaqueV("predictor-len", 4), "times": OpaqueV("times")}, 0)
        try:
            dom = ev.iterate(ev.eval(loop.iter, fr), fr, loop.iter)
            vals = {ev.concrete_int(v) for v in dom}
        except (Unsupported, Raised) as e:
            unk = str(e)[:160]
            break
        if not set(arr) <= vals:
            bad.append((arr, sorted(v for v in vals if v is not None)))
    if unk is not None:
        ck.unk(rule, fi.where, f"for {norm(loop.target)} in {norm(loop.iter)}", "the loop ranges over every entry index that occurs", unk)
    else:
        ck.same(rule, fi.where, f"for {norm(loop.target)} in {norm(loop.iter)}", "the loop ranges over every entry index that occurs among the times (any order, any array)",
                not bad, found=f"index array / visited: {bad[:2]}", nontrivial=True)


def predictor_model(prog, tmids, span, rphases, polys):
    """A PhasePredictor stand-in: column access by name, everything else the package's own code."""
    from ..values import PyFuncV
    cols = {"tmid": NdArr((len(tmids),), [Num(t / Hz, kind="time") for t in tmids]), "span": Num(span / Hz, kind="quantity"),
            "rphase": NdArr((len(rphases),), [Num(r) for r in rphases]), "poly": ListV(list(polys))}
    pred = ObjV(prog.cls("PhasePredictor"), {"_intervals": NONE})
    def item(ev_, a, k, fr_, nd):
        if isinstance(a[0], StrV):
            return cols[a[0].s]                 # a column
        row = DictV()                           # a row: the same cells, addressed the other way round
        for name, col in cols.items():
            row.d[name] = col if (isinstance(col, Num) and not col.shape) else ev_.getitem(col, a[0], fr_, nd)
        return row
    pred.attrs["__getitem__"] = PyFuncV(item, "column or row")
    pred.attrs["__len__"] = len(tmids)
    return pred


def eval_with_index(prog, fi, pred, times, index, dt, args=(), kwargs=None):
    """Evaluate a prediction method with _get_index_and_dt replaced by a given (index, dt): the rule under test is what the
    method does with them.  Returns (result, from_angles log, evaluator)."""
    from ..phasemodel import phase_evaluator, PhaseLog
    log = PhaseLog()
    ev = phase_evaluator(prog, log)
    ev.overrides["pulsarbat.pulsar.predictor.PhasePredictor._get_index_and_dt"] = lambda e_, a, k, nd, fr_, fn: TupleV([index, dt])
    res = ev.call(fi, [times] + list(args), dict(kwargs or {}), self_val=pred)
    return res, log, ev


def r2(ck, prog, run):
    call = prog.func("PhasePredictor.__call__")
    f0 = prog.func("PhasePredictor.f0")
    ta = prog.func("PhasePredictor.time_at")
    for f in (call, f0, ta):
        run.touched(f)
    x = PolyV.X
    nent = 4
    polys = [PolyV([sp.Symbol(f"c{e}_{k}", real=True) for k in range(4)]) for e in range(nent)]
    rph = [sp.Symbol(f"r{e}", integer=True) for e in range(nent)]
    pred = predictor_model(prog, [sp.Symbol(f"tm{e}", real=True) for e in range(nent)], sp.Integer(5400), rph, polys)
    d = sp.Symbol("d", real=True)
    # ---- scalar times
    for e in (0, 2):
        tsc = Num(sp.Symbol("t", real=True) / Hz, kind="time", shape=())
        r = ck.attempt("R2", call.where, f"predictor(t) for a scalar time in entry {e}", "evaluates",
                       lambda: eval_with_index(prog, call, pred, tsc, Num(e), Num(d)))
        if r is not None:
            res, log, ev = r
            fa = [ev_[1] for ev_ in log.events if ev_[0] == "from_angles"]
            ok = len(fa) == 1 and isinstance(fa[0]["phase1"], Num) and isinstance(fa[0]["phase2"], Num) \
                and sp.simplify(fa[0]["phase1"].expr - rph[e] * 2 * sp.pi) == 0 and sp.simplify(fa[0]["phase2"].expr - polys[e].expr(d) * 2 * sp.pi) == 0
            ck.same("R2", call.where, f"predictor(t), scalar, entry {e}", "the Phase is built from the entry's integer reference phase and its polynomial at dt, as two separate parts",
                    ok, found=str([{k: str(v)[:60] for k, v in a.items() if k in ("phase1", "phase2")} for a in fa]), nontrivial=True)
        for n_ in (0, 1, 2):
            r = ck.attempt("R2", f0.where, f"f0(t, n={n_}) scalar, entry {e}", "evaluates", lambda: eval_with_index(prog, f0, pred, tsc, Num(e), Num(d), kwargs={"n": Num(n_)}))
            if r is not None:
                res = r[0]
                exp = sp.diff(polys[e].expr(x), x, n_ + 1).subs(x, d) * 2 * sp.pi * Hz ** (n_ + 1)
                ck.eq("R2", f0.where, f"f0(t, n={n_}) scalar, entry {e}", "the (n+1)-th derivative of the phase polynomial at dt, in cycle/s^(n+1)",
                      res.expr if isinstance(res, Num) else sp.Symbol("none"), exp)
    # ---- array times: every element must be evaluated with the polynomial of ITS entry, for any order of the index array
    for idxs in ([0, 1, 0], [2, 0, 1], [1, 1], [3, 0, 0, 3], [2]):
        nt = len(idxs)
        times = NdArr((nt,), [Num(sp.Symbol(f"t{k}", real=True) / Hz, kind="time") for k in range(nt)])
        index = NdArr((nt,), [Num(v) for v in idxs])
        dts = NdArr((nt,), [Num(sp.Symbol(f"d{k}", real=True)) for k in range(nt)])
        r = ck.attempt("R2", call.where, f"predictor(times) with entry indices {idxs}", "evaluates", lambda: eval_with_index(prog, call, pred, times, index, dts))
        if r is not None:
            res, log, ev = r
            fa = [ev_[1] for ev_ in log.events if ev_[0] == "from_angles"]
            ok = len(fa) == 1 and isinstance(fa[0]["phase1"], NdArr) and isinstance(fa[0]["phase2"], NdArr) and len(fa[0]["phase1"].items) == nt
            bad = []
            if ok:
                for k, e in enumerate(idxs):
                    p1, p2 = fa[0]["phase1"].items[k].expr, fa[0]["phase2"].items[k].expr
                    if sp.simplify(p1 - rph[e] * 2 * sp.pi) != 0 or sp.simplify(p2 - polys[e].expr(sp.Symbol(f"d{k}", real=True)) * 2 * sp.pi) != 0:
                        bad.append((k, e, str(p1)[:30], str(p2)[:50]))
            ck.same("R2", call.where, f"predictor(times), entry indices {idxs}", "element k gets the reference phase and the polynomial of its own entry at its own dt "
                    "(same expression as the scalar branch; every entry index that occurs is visited, in any order)", ok and not bad,
                    found=str(bad[:2]) if ok else str([{k: str(v)[:40] for k, v in a.items()} for a in fa])[:200], nontrivial=True)
        r = ck.attempt("R2", f0.where, f"f0(times) with entry indices {idxs}", "evaluates", lambda: eval_with_index(prog, f0, pred, times, index, dts))
        if r is not None:
            res = r[0]
            bad = []
            if isinstance(res, NdArr) and len(res.items) == nt:
                for k, e in enumerate(idxs):
                    exp = sp.diff(polys[e].expr(x), x, 1).subs(x, sp.Symbol(f"d{k}", real=True)) * 2 * sp.pi * Hz
                    if sp.simplify(res.items[k].expr - exp) != 0:
                        bad.append((k, e, str(res.items[k].expr)[:60]))
            else:
                bad.append(("shape", repr(res)[:80]))
            ck.same("R2", f0.where, f"f0(times), entry indices {idxs}", "element k is the derivative of its own entry's polynomial at its own dt", not bad,
                    found=str(bad[:2]), nontrivial=True)
    # ---- N-d times: rows may mix entries; every element still gets its own entry at its own dt
    for shape2, idxs in (((2, 2), [0, 1, 1, 1]), ((2, 3), [2, 0, 0, 0, 2, 1])):
        nt = len(idxs)
        times = NdArr(shape2, [Num(sp.Symbol(f"t{k}", real=True) / Hz, kind="time") for k in range(nt)])
        index = NdArr(shape2, [Num(v) for v in idxs])
        dts = NdArr(shape2, [Num(sp.Symbol(f"d{k}", real=True)) for k in range(nt)])
        for fn_, label in ((call, "predictor"), (f0, "f0")):
            r = ck.attempt("R2", fn_.where, f"{label}(times of shape {shape2}) with entry indices {idxs}", "evaluates", lambda: eval_with_index(prog, fn_, pred, times, index, dts))
            if r is None:
                continue
            res, log, ev = r
            bad = []
            if fn_ is call:
                fa = [ev_[1] for ev_ in log.events if ev_[0] == "from_angles"]
                ok = len(fa) == 1 and isinstance(fa[0]["phase1"], NdArr) and isinstance(fa[0]["phase2"], NdArr) \
                    and tuple(fa[0]["phase1"].shape) == shape2 and tuple(fa[0]["phase2"].shape) == shape2
                if ok:
                    for k, e in enumerate(idxs):
                        p1, p2 = fa[0]["phase1"].items[k].expr, fa[0]["phase2"].items[k].expr
                        if sp.simplify(p1 - rph[e] * 2 * sp.pi) != 0 or sp.simplify(p2 - polys[e].expr(sp.Symbol(f"d{k}", real=True)) * 2 * sp.pi) != 0:
                            bad.append((k, e, str(p1)[:30], str(p2)[:50]))
                else:
                    bad.append(("shape", str([{k_: str(v)[:40] for k_, v in a.items()} for a in fa])[:160]))
            else:
                if isinstance(res, NdArr) and tuple(res.shape) == shape2:
                    for k, e in enumerate(idxs):
                        exp = sp.diff(polys[e].expr(x), x, 1).subs(x, sp.Symbol(f"d{k}", real=True)) * 2 * sp.pi * Hz
                        if sp.simplify(res.items[k].expr - exp) != 0:
                            bad.append((k, e, str(res.items[k].expr)[:60]))
                else:
                    bad.append(("shape", repr(res)[:80]))
            ck.same("R2", fn_.where, f"{label}(times of shape {shape2}), entry indices {idxs}", "element k of an N-d time array gets the reference phase / polynomial of its own "
                    "entry at its own dt, also when one row mixes entries", not bad, found=str(bad[:2]), nontrivial=True)
    # ---- phasepol: the recentred polynomial plus the returned reference phase reproduce the prediction around t0
    pp = prog.func("PhasePredictor.phasepol")
    run.touched(pp)
    for e in (0, 2):
        tsc = Num(sp.Symbol("t", real=True) / Hz, kind="time", shape=())
        r = ck.attempt("R2", pp.where, f"phasepol(t0) for t0 in entry {e}", "evaluates", lambda: eval_with_index(prog, pp, pred, tsc, Num(e), Num(d)))
        if r is None:
            continue
        res, log, ev = r
        fa = [ev_[1] for ev_ in log.events if ev_[0] == "from_angles"]
        okshape = isinstance(res, TupleV) and len(res.items) == 2 and isinstance(res.items[0], PolyV) and len(fa) == 1 and isinstance(fa[0]["phase1"], Num)
        if not okshape:
            ck.unk("R2", pp.where, f"phasepol(t0), entry {e}", "returns (polynomial, Phase built from one number)", repr(res)[:160])
            continue
        P = res.items[0]
        ref = sp.simplify(fa[0]["phase1"].expr / (2 * sp.pi))
        if fa[0]["phase2"] is not NONE and isinstance(fa[0]["phase2"], Num):
            ref = ref + sp.simplify(fa[0]["phase2"].expr / (2 * sp.pi))
        ck.eq("R2", pp.where, f"phasepol(t0), entry {e}: polynomial(x) + reference phase",
              "== rphase_e + poly_e(x + dt): the recentred polynomial reproduces the prediction at t0 + x for every x", P.expr(x) + ref, rph[e] + polys[e].expr(x + d))
        ck.same("R2", pp.where, f"phasepol(t0), entry {e}: form of the result", "a power series in x = t - t0 (converted: domain and window are the default) "
                "whose constant term lies in [0, 1)", tuple(P.domain) == (-1, 1) and tuple(P.window) == (-1, 1)
                and sp.simplify(P.coeffs[0] - (polys[e].expr(d) - sp.floor(polys[e].expr(d)))) == 0,
                found=f"domain {P.domain}, constant term {P.coeffs[0]}", nontrivial=True)
    # time_at: func and fprime use the same argument; the root of (prediction - phase) is sought
    inner = {s_.name: s_ for s_ in ta.node.body if isinstance(s_, ast.FunctionDef)}
    if {"func", "fprime"} <= set(inner):
        def call_arg(fn, attr):
            for c in ast.walk(fn):
                if isinstance(c, ast.Call) and ((isinstance(c.func, ast.Name) and c.func.id == "self") or (isinstance(c.func, ast.Attribute) and c.func.attr == attr)):
                    if c.args:
                        return norm(c.args[0])
            return None
        a1, a2 = call_arg(inner["func"], "__call__"), call_arg(inner["fprime"], "f0")
        # the function handed to the root finder must look its argument up in the table: the entry valid at guess + x is chosen from x.
        # (A polynomial taken from phasepol(guess) before the search is one entry's polynomial, extrapolated wherever x leaves its span.)
        ci_pp = prog.cls("PhasePredictor")
        lookup = {"_get_index_and_dt"}
        changed = True
        while changed:
            changed = False
            for mname, mfi in list(ci_pp.methods.items()) + [(k_, v_["get"]) for k_, v_ in ci_pp.properties.items() if v_.get("get") is not None]:
                if mname in lookup:
                    continue
                for c in ast.walk(mfi.node):
                    if isinstance(c, ast.Call) and isinstance(c.func, ast.Attribute) and isinstance(c.func.value, ast.Name) and c.func.value.id == "self" and c.func.attr in lookup:
                        lookup.add(mname)
                        changed = True
                        break
                    if isinstance(c, ast.Call) and isinstance(c.func, ast.Name) and c.func.id == "self" and "__call__" in lookup:
                        lookup.add(mname)
                        changed = True
                        break
        def looks_up(fn):
            params = {a.arg for a in fn.args.args}
            for c in ast.walk(fn):
                if not isinstance(c, ast.Call):
                    continue
                callee = "__call__" if (isinstance(c.func, ast.Name) and c.func.id == "self") else (
                    c.func.attr if isinstance(c.func, ast.Attribute) and isinstance(c.func.value, ast.Name) and c.func.value.id == "self" else None)
                if callee in lookup and any(isinstance(n_, ast.Name) and n_.id in params for a_ in list(c.args) + [k.value for k in c.keywords] for n_ in ast.walk(a_)):
                    return True
            return False
        for nm_ in ("func", "fprime"):
            ck.same("R2", ta.where, f"time_at: {nm_}(x)", "the function handed to the root finder evaluates the predictor (a method that reaches the table lookup "
                    f"{sorted(lookup)[:6]}) at a time computed from x, so that the entry valid at that time is used", looks_up(inner[nm_]),
                    found="no call of a table-lookup method with an argument depending on x", nontrivial=True)
        if a1 is None or a2 is None:
            ck.unk("R2", ta.where, "func / fprime", "both evaluate the predictor at a time argument", f"{a1} / {a2}")
        else:
            ck.same("R2", ta.where, f"func: self({a1}) / fprime: self.f0({a2})", "the function and its derivative handed to the root finder are evaluated at the same time argument",
                    a1 == a2, found=f"{a1} vs {a2}", nontrivial=True)
    else:
        ck.unk("R2", ta.where, "func / fprime", "time_at defines the function and its derivative for the root finder", str(sorted(inner)))


# ---------------------------------------------------------------------------------------- R3 range discipline
def r3(ck, prog, run):
    gi = prog.func("PhasePredictor._get_index_and_dt")
    run.touched(gi)
    cfg = CFG(gi.node)
    guards = [(n, br, t, r) for n, br, t, r in cfg.guards() if raised_exception_name(r) == "ValueError"]
    ok = False
    found = "no ValueError guard"
    for gnode, br, test, rs in guards:
        t = norm(test).replace(" ", "")
        if t in ("notnp.all(check)", "not(np.all(check))", "notcheck.all()"):
            passing = cfg.branch[(gnode, br)]
            rets = [n for n, s in cfg.statements(ast.Return)]
            ok = bool(rets) and all(cfg.dominates(passing, n) for n in rets)
            found = f"guard `{norm(test)}`; dominates returns: {ok}"
    ck.same("R3", gi.where, "if not np.all(check): raise ValueError", "a time outside every validity interval raises ValueError before any index or offset is returned",
            ok, found=found, nontrivial=True)
    # the check is closed-interval membership over self.intervals, any interval sufficing: evaluated on a predictor model
    from ..values import PyFuncV, CondV
    from ..boolterms import bool_equal
    A0, B0, A1, B1, tt, TM, SP = (sp.Symbol(n_, real=True) for n_ in ("A0", "B0", "A1", "B1", "t", "TMID", "SPAN"))
    tim = lambda e: Num(e / Hz, kind="time")  # noqa: E731
    e_idx = sp.Symbol("e_idx", integer=True, nonnegative=True)
    tmid_col = Num(sp.Function("TmidOf")(e_idx) / Hz, kind="time", shape=(sp.Symbol("E", integer=True, positive=True),), axes=(e_idx,))
    cols = {"tmid": tmid_col, "span": Num(SP / Hz, kind="quantity")}
    pred = ObjV(prog.cls("PhasePredictor"), {"intervals": TupleV([TupleV([tim(A0), tim(B0)]), TupleV([tim(A1), tim(B1)])])})
    pred.attrs["__getitem__"] = PyFuncV(lambda ev_, a, k, fr_, nd: cols[a[0].s], "column")
    ev = Evaluator(prog)
    res = ck.attempt("R3", gi.where, "_get_index_and_dt(t) on a predictor with two validity intervals", "evaluates",
                     lambda: ev.call(gi, [tim(tt)], {}, self_val=pred), ev=ev, allowed_guards=["ValueError"])
    if res is not None:
        facts = [f for f in ev.last_frame.facts]
        have = sp.And(*facts) if facts else sp.true
        want = sp.Or(sp.And(sp.Le(A0 / Hz, tt / Hz), sp.Le(tt / Hz, B0 / Hz)), sp.And(sp.Le(A1 / Hz, tt / Hz), sp.Le(tt / Hz, B1 / Hz)))
        from .c01 import _norm_bool
        eqv, wit = bool_equal(_norm_bool(have), _norm_bool(want))
        run.ob("R3", gi.where, "acceptance condition of _get_index_and_dt", "a time is accepted exactly when it lies in one of the closed validity intervals (a <= t <= b for some interval)",
               eqv, found=str(have)[:300], expected=str(want)[:300], witness=wit, nontrivial=True, note="decided by exhaustive truth table over the comparison atoms")
        guards = [g for g in ev.guard_log if g[0].endswith("_get_index_and_dt")]
        ck.same("R3", gi.where, "rejection exception", "times outside every interval raise ValueError", [g[2] for g in guards] == ["ValueError"], found=str([g[1:3] for g in guards]))
        if isinstance(res, TupleV) and len(res.items) == 2 and isinstance(res.items[1], Num):
            idx, dtv = res.items
            ck.eq("R3", gi.where, "dt returned by _get_index_and_dt", "seconds since the TMID of the selected entry", dtv.expr,
                  tt - sp.Function("TmidOf")(idx.expr) if isinstance(idx, Num) else sp.Symbol("none"))
        else:
            ck.unk("R3", gi.where, "_get_index_and_dt result", "(index, dt)", repr(res)[:120])
    # dominance of the range check over polynomial evaluation
    for qn in ("PhasePredictor.__call__", "PhasePredictor.f0", "PhasePredictor.phasepol"):
        fi = prog.func(qn)
        run.touched(fi)
        cfg = CFG(fi.node)
        emap = enclosing_stmt_map(fi.node)
        chk = [n for n, s in cfg.statements() if isinstance(s, ast.Assign) and isinstance(s.value, ast.Call) and norm(s.value.func) == "self._get_index_and_dt"]
        uses = []
        for c in ast.walk(fi.node):
            if isinstance(c, ast.Subscript) and norm(c.value) == 'self["poly"]'.replace('"', "'") or (isinstance(c, ast.Subscript) and norm(c.value) == "self['poly']"):
                st = emap.get(id(c))
                if st is not None and id(st) in cfg.node_of:
                    uses.append(cfg.node(st))
        ok = len(chk) == 1 and uses and all(cfg.dominates(chk[0], u) for u in uses)
        ck.same("R3", fi.where, f"{qn.split('.')[1]}: index, dt = self._get_index_and_dt(...)", "the range check dominates every use of the stored polynomials",
                bool(ok), found=f"range-check statements: {len(chk)}, polynomial uses: {len(uses)}", nontrivial=True)
        if chk:
            arg = cfg.stmt[chk[0]].value.args
            pname = fi.params()[1][0]
            ck.same("R3", fi.where, f"{qn.split('.')[1]}: checked value", "the times that are checked are the times that are evaluated (the method's own argument)",
                    len(arg) == 1 and norm(arg[0]) == pname, found=norm(arg[0]) if arg else None)
    # inside _get_index_and_dt itself: the refusal precedes the row lookup (an index one past the last row, which is what a time after
    # the last span yields, must never be used: it would escape as IndexError instead of the promised ValueError)
    gid = prog.func("PhasePredictor._get_index_and_dt")
    cfg = CFG(gid.node)
    emap = enclosing_stmt_map(gid.node)
    g = [(n, br, t, r) for n, br, t, r in cfg.guards() if raised_exception_name(r) == "ValueError"]
    lookups = [c for c in ast.walk(gid.node) if (isinstance(c, ast.Call) and norm(c.func).endswith("searchsorted"))
               or (isinstance(c, ast.Subscript) and isinstance(c.value, ast.Subscript) and norm(c.value.value) == "self" and isinstance(c.slice, ast.Name))]
    okg = False
    if g and lookups:
        passing = cfg.branch[(g[0][0], g[0][1])]
        okg = all(cfg.dominates(passing, cfg.node(emap[id(c)])) for c in lookups if id(emap.get(id(c))) in cfg.node_of)
    ck.same("R3", gid.where, "range guard of _get_index_and_dt", "times outside every interval are refused before the entry index is computed or used to look up a row",
            bool(okg), found=f"guards: {[norm(x[2])[:40] for x in g]}, lookups: {[norm(c)[:40] for c in lookups]}", nontrivial=True)
    pp = prog.func("PhasePredictor.phasepol")
    cfg = CFG(pp.node)
    g = [(n, br, t, r) for n, br, t, r in cfg.guards() if "isscalar" in norm(t) and raised_exception_name(r) == "ValueError"]
    oks = False
    if g:
        passing = cfg.branch[(g[0][0], g[0][1])]
        others = [n for n, s in cfg.statements() if n != g[0][0] and not any(x is s for x in ast.walk(cfg.stmt[g[0][0]]))
                  and not (isinstance(s, ast.Expr) and isinstance(s.value, ast.Constant))]
        oks = all(cfg.dominates(passing, n) for n in others if cfg.reachable(n))
    ck.same("R3", pp.where, "if not t0.isscalar: raise ValueError", "phasepol refuses non-scalar times before doing anything", oks, nontrivial=True)
    ta = prog.func("PhasePredictor.time_at")
    cfg = CFG(ta.node)
    emap = enclosing_stmt_map(ta.node)
    g = [(n, br, t, r) for n, br, t, r in cfg.guards() if raised_exception_name(r) == "ValueError"]
    roots = [c for c in ast.walk(ta.node) if isinstance(c, ast.Call) and norm(c.func).endswith("root_scalar")]
    okt = False
    if g and roots:
        passing = cfg.branch[(g[0][0], g[0][1])]
        okt = all(cfg.dominates(passing, cfg.node(emap[id(c)])) for c in roots if id(emap.get(id(c))) in cfg.node_of)
    ck.same("R3", ta.where, "range guard of time_at", "a phase outside every interval's phase range raises ValueError before root finding", bool(okt),
            found=f"guards: {[norm(x[2]) for x in g]}, root finder calls: {len(roots)}", nontrivial=True)


# ---------------------------------------------------------------------------------------- R4 intervals
def r4(ck, prog, run):
    """`intervals` evaluated on concrete predictor tables (exact rational times): spans are tmid -/+ span/2 and are merged exactly
    when they overlap or touch within 1 ms."""
    iv = prog.getter("PhasePredictor", "intervals")
    run.touched(iv)
    M = 60
    ms = sp.Rational(1, 1000)
    cases = [
        ("single entry", [0], 90 * M, [(-45 * M, 45 * M)]),
        ("three touching spans", [0, 90 * M, 180 * M], 90 * M, [(-45 * M, 225 * M)]),
        ("a gap of one span", [0, 90 * M, 270 * M], 90 * M, [(-45 * M, 135 * M), (225 * M, 315 * M)]),
        ("overlapping spans", [0, 30 * M, 400 * M], 90 * M, [(-45 * M, 75 * M), (355 * M, 445 * M)]),
        ("gap of half a millisecond (within tolerance)", [0, 90 * M + ms / 2], 90 * M, [(-45 * M, 135 * M + ms / 2)]),
        ("gap of two milliseconds (outside tolerance)", [0, 90 * M + 2 * ms], 90 * M, [(-45 * M, 45 * M), (45 * M + 2 * ms, 135 * M + 2 * ms)]),
        ("entries given out of order", [180 * M, 0, 90 * M], 90 * M, [(-45 * M, 225 * M)]),
        ("two separate groups", [0, 90 * M, 1000 * M, 1090 * M], 90 * M, [(-45 * M, 135 * M), (955 * M, 1135 * M)]),
    ]
    for label, tmids, span, want in cases:
        pred = predictor_model(prog, [sp.sympify(t) for t in tmids], sp.sympify(span), [0] * len(tmids), [PolyV([0])] * len(tmids))
        ev = Evaluator(prog)
        got = ck.attempt("R4", iv.where, f"intervals [{label}]", "evaluates on a concrete table", lambda: ev.getattr(pred, "intervals", Frame(ev, None, None, {}, 0)), ev=ev)
        if got is None:
            continue
        try:
            pairs = []
            for it in ev.iterate(got):
                a, b = ev.iterate(it)
                pairs.append((sp.simplify(a.expr * Hz), sp.simplify(b.expr * Hz)))
            ok = len(pairs) == len(want) and all(sp.simplify(p[0] - w[0]) == 0 and sp.simplify(p[1] - w[1]) == 0 for p, w in zip(pairs, want))
            found = str([(str(p[0]), str(p[1])) for p in pairs])
        except Exception as e:  # noqa
            ok, found = None, f"result not understood: {e}"
        run.ob("R4", iv.where, f"intervals [{label}: TMIDs {[str(t) for t in tmids]} s, span {span} s]",
               "validity intervals are the spans tmid -/+ span/2, merged exactly where they overlap or touch (1 ms tolerance), in time order",
               ok, found=found, expected=str([(str(sp.sympify(w[0])), str(sp.sympify(w[1]))) for w in want]), nontrivial=True)


# ---------------------------------------------------------------------------------------- R5 table is never written by predictions
def r5(ck, prog, run):
    def sanction(fi, node, how):
        if fi.qualname == "PhasePredictor.intervals" and "_intervals" in norm(node):
            return "idempotent cache of a value derived from the table"
        if fi.name == "__init__" and fi.cls is not None and (" on 'self'" in how or how.startswith("attribute store 'self.")):
            return "the object under construction: the constructor establishes the table (row order included) before any prediction can run"
        return None
    an = AliasAnalysis(prog, {"pulsarbat.pulsar.predictor"}, sanction=sanction)
    sinks = an.run()
    for f in an.scope:
        run.touched(f)
    flagged = [s for s in sinks if s.sanctioned is None]
    for s in sinks:
        run.ob("R5", s.func.where, norm(s.node), f"mutation sink: {s.how}; may alias {sorted(s.roots)}", s.sanctioned is not None, nontrivial=True,
               found=None if s.sanctioned else "a prediction method writes to the predictor's table / an argument: later predictions change", note=s.sanctioned)
    for f in an.scope:
        if not any(s.func is f for s in sinks):
            run.ob("R5", f.where, f.qualname, "no write reaches the predictor table, the stored polynomials or an argument", True)
