"""C02 - Channel frequency labels follow the band model and survive frequency slicing."""
from __future__ import annotations

import itertools
import sympy as sp

from ..spec import Checker, FR, obj_summary
from ..sigmodel import make_signal, N, NCHAN, CF, BW, SR
from ..values import Num, StrV, ObjV, TupleV, SliceV, NONE, ListV, Hz, ExtV
from ..symeval import Raised
from ..values import Unsupported

EXPLANATION = (
    "Signals are built through the package's own constructors and sliced through its own __getitem__ by the term "
    "evaluator; channel_freqs, bandwidth, min_freq and max_freq are read through the package's own properties, so the "
    "label *writer* (_freq_slice / freq_align setter) and the label *reader* (channel_freqs) are tied together: the "
    "obligation is that the labels of the sliced object equal the selected labels of the original, as terms in the "
    "symbolic centre frequency and channel bandwidth. Channel counts and slice bounds are instantiated exhaustively over "
    "a small scope (both parities, every alignment, negative/open/out-of-range bounds), everything else is symbolic."
)


def labels(ck, ev, obj, rule, where, what):
    f = ck.attempt(rule, where, "channel_freqs", what, lambda: ev.getattr(obj, "channel_freqs", FR()), ev=ev)
    if f is None:
        return None
    if not isinstance(f, Num) or f.axes is None or len(f.axes) != 1:
        ck.unk(rule, where, "channel_freqs", what, f"channel_freqs is not a one-dimensional indexed term: {f!r}")
        return None
    ax = f.axes[0]
    n = f.shape[0]
    return (lambda k: f.expr.subs(ax, k) if ax is not None else f.expr), n


def check(run, prog):
    run.explanation = EXPLANATION
    run.assumptions += ["real-number semantics for Quantity arithmetic", "slice.indices semantics as implemented in CPython"]
    ck = Checker(run, prog)
    gfreq = prog.getter("RadioSignal", "channel_freqs")
    fsl = prog.func("RadioSignal._freq_slice")
    gi = prog.func("RadioSignal.__getitem__")
    setter = prog.setter("RadioSignal", "freq_align")
    for f in (gfreq, fsl, gi, setter):
        run.touched(f)
    m = sp.Symbol("m", integer=True, positive=True)
    A = {"bottom": 0, "center": sp.Rational(1, 2), "top": 1}

    # ------------------------------------------------------------------ R1: label formula, band edges
    rcls = prog.cls("RadioSignal")
    for parity, nchan in (("even", 2 * m), ("odd", 2 * m + 1)):
        for al in ("bottom", "center", "top"):
            ev = ck.evaluator()
            data = Num(sp.Symbol("D"), kind="array", shape=(N, nchan), tag="data", backend="numpy")
            kw = {"sample_rate": Num(SR * Hz, kind="quantity"), "center_freq": Num(CF * Hz, kind="quantity"),
                  "chan_bw": Num(BW * Hz, kind="quantity"), "freq_align": StrV(al)}
            z = ck.attempt("R1", setter.where, f"RadioSignal(..., freq_align='{al}') with {parity} nchan",
                           "constructor accepts a valid alignment", lambda: ev.construct(rcls, [data], kw, FR()), ev=ev)
            if z is None:
                continue
            a = A[al] if parity == "even" else sp.Rational(1, 2)
            try:
                stored = ev.getattr(z, "freq_align", FR())       # what the signal reports, wherever the rule for odd counts is applied
            except (Raised, Unsupported):
                stored = z.attrs.get("_freq_align")
            ck.same("R2", setter.where, f"freq_align='{al}', {parity} channel count",
                    "the alignment the signal reports is the requested one for even nchan and 'center' for odd nchan",
                    isinstance(stored, StrV) and stored.s == (al if parity == "even" else "center"),
                    found=repr(stored), expected=al if parity == "even" else "center", nontrivial=True)
            lab = labels(ck, ev, z, "R1", gfreq.where, f"channel_freqs evaluates ({al}, {parity})")
            if lab is None:
                continue
            f, n = lab
            i = sp.Symbol("i", integer=True, nonnegative=True)
            ck.eq("R1", gfreq.where, f"channel_freqs [{al}, {parity} nchan]", "label_i == center_freq + chan_bw*(i + a - nchan/2)",
                  f(i), (CF + BW * (i + a - nchan / 2)) * Hz)
            ck.eq("R1", gfreq.where, f"channel_freqs spacing [{al}, {parity}]", "label_{i+1} - label_i == chan_bw (derived)",
                  f(i + 1) - f(i), BW * Hz)
            ck.eq("R1", gfreq.where, f"len(channel_freqs) [{al}, {parity}]", "one label per channel", n, nchan)
            bwv = ck.attempt("R1", gfreq.where, "bandwidth", "bandwidth evaluates", lambda: ev.getattr(z, "bandwidth", FR()), ev=ev)
            mx = ck.attempt("R1", gfreq.where, "max_freq", "max_freq evaluates", lambda: ev.getattr(z, "max_freq", FR()), ev=ev)
            mn = ck.attempt("R1", gfreq.where, "min_freq", "min_freq evaluates", lambda: ev.getattr(z, "min_freq", FR()), ev=ev)
            if None in (bwv, mx, mn):
                continue
            ck.eq("R1", prog.getter("RadioSignal", "bandwidth").where, f"bandwidth [{al}, {parity}]", "bandwidth == chan_bw*nchan", bwv, BW * nchan * Hz)
            ck.eq("R1", prog.getter("RadioSignal", "max_freq").where, f"max_freq [{al}, {parity}]", "max_freq == center_freq + bandwidth/2", mx, (CF + BW * nchan / 2) * Hz)
            ck.eq("R1", prog.getter("RadioSignal", "min_freq").where, f"min_freq [{al}, {parity}]", "min_freq == center_freq - bandwidth/2", mn, (CF - BW * nchan / 2) * Hz)
            # labels inside [min, max]: affine in i, so the two end channels decide
            lo = sp.simplify((f(0) - mn.expr) / (BW * Hz))
            hi = sp.simplify((mx.expr - f(nchan - 1)) / (BW * Hz))
            ck.same("R1", gfreq.where, f"labels within the band [{al}, {parity}]", "min_freq <= label_0 and label_{nchan-1} <= max_freq (derived)",
                    lo.is_number and hi.is_number and lo >= 0 and hi >= 0, found=f"(label_0-min)/bw = {lo}, (max-label_last)/bw = {hi}",
                    nontrivial=True)
    # every radio class reaches the same band model through its OWN constructor (the alignment has to be handed up the chain
    # of constructors), and an alignment assigned after construction goes through the same normalisation
    i = sp.Symbol("i", integer=True, nonnegative=True)
    n_cls = 0
    for cname in ("BasebandSignal", "DualPolarizationSignal", "IntensitySignal", "FullStokesSignal", "RadioSignal"):
        ci = prog.cls(cname)
        for parity, nchan in (("even", 2 * m), ("odd", 2 * m + 1)):
            for al in ("bottom", "top"):
                if cname != "RadioSignal" and parity == "odd" and al == "top" and run.tier == "quick":
                    continue
                shape = [N, nchan] + ([sp.Integer(2)] if ci.is_subclass_of("DualPolarizationSignal") else [sp.Integer(4)] if ci.is_subclass_of("FullStokesSignal") else [])
                bb = ci.is_subclass_of("BasebandSignal")
                data = Num(sp.Symbol("D"), kind="array", shape=tuple(shape), tag="data", backend="numpy", dtype=ExtV("numpy.complex128" if bb else "numpy.float64"))
                kw = {"sample_rate": Num(SR * Hz, kind="quantity"), "center_freq": Num(CF * Hz, kind="quantity")}
                if not bb:
                    kw["chan_bw"] = Num(BW * Hz, kind="quantity")
                if ci.is_subclass_of("DualPolarizationSignal"):
                    kw["pol_type"] = StrV("linear")
                bw = SR if bb else BW
                a = A[al] if parity == "even" else sp.Rational(1, 2)
                for mode in ("constructor", "assigned afterwards"):
                    if mode == "constructor" and cname == "RadioSignal":
                        continue          # covered above
                    ev = ck.evaluator()
                    kw2 = dict(kw, freq_align=StrV(al if mode == "constructor" else "center"))
                    tag = f"{cname}(..., freq_align='{al}' {'' if mode == 'constructor' else '[' + mode + '] '}) with {parity} nchan"

                    def build():
                        z_ = ev.construct(ci, [data], kw2, FR())
                        if mode != "constructor":
                            ev.setattr(z_, "freq_align", StrV(al), FR())
                        return z_
                    z = ck.attempt("R2", setter.where, tag, "a valid alignment is accepted", build, ev=ev)
                    if z is None:
                        continue
                    n_cls += 1
                    try:
                        stored = ev.getattr(z, "freq_align", FR())
                    except (Raised, Unsupported):
                        stored = z.attrs.get("_freq_align")
                    ck.same("R2", setter.where, tag, "the alignment the signal reports is the requested one for even nchan and 'center' for odd nchan",
                            isinstance(stored, StrV) and stored.s == (al if parity == "even" else "center"), found=repr(stored),
                            expected=al if parity == "even" else "center", nontrivial=True)
                    lab = labels(ck, ev, z, "R1", gfreq.where, f"channel_freqs evaluates ({tag})")
                    if lab is None:
                        continue
                    f, n = lab
                    ck.eq("R1", gfreq.where, f"channel_freqs [{tag}]", "label_i == center_freq + chan_bw*(i + a - nchan/2)", f(i), (CF + bw * (i + a - nchan / 2)) * Hz)
    run.floor("R2", "class / alignment / parity / mode combinations built through the classes' own constructors and setters", n_cls, 20)
    # invalid alignment is refused with ValueError
    for bad in (StrV("middle"), StrV("Center"), NONE):
        ev = ck.evaluator()
        data = Num(sp.Symbol("D"), kind="array", shape=(N, 2 * m), tag="data", backend="numpy")
        kw = {"sample_rate": Num(SR * Hz, kind="quantity"), "center_freq": Num(CF * Hz, kind="quantity"),
              "chan_bw": Num(BW * Hz, kind="quantity"), "freq_align": bad}
        try:
            ev.construct(rcls, [data], kw, FR())
            ck.same("R2", setter.where, f"freq_align={bad!r}", "a value outside {'bottom','center','top'} raises ValueError", False,
                    found="accepted")
        except Raised as e:
            ck.same("R2", setter.where, f"freq_align={bad!r}", "a value outside {'bottom','center','top'} raises ValueError",
                    e.exc_name in ("ValueError", "InvalidSignalError"), found=str(e))
        except Unsupported as e:
            ck.unk("R2", setter.where, f"freq_align={bad!r}", "a value outside the allowed set raises ValueError", str(e))

    # ------------------------------------------------------------------ R3: frequency slicing keeps labels
    if run.tier == "quick":
        counts = [4, 5]
        bounds = [None, -7, -2, 0, 1, 3, 9]
    else:
        counts = [1, 2, 3, 4, 5, 8]
        bounds = [None, -9, -6, -3, -1, 0, 1, 2, 4, 7, 9]
    nsample = 7       # deliberately different from every channel count
    n_slices = 0
    for cls_name in (("RadioSignal",) if run.tier == "quick" else ("RadioSignal", "BasebandSignal", "FullStokesSignal")):
        for nchan in counts:
            for al in ("bottom", "center", "top"):
                # the alignment is assigned through the package's own setter, for odd counts too: whatever that stores (and wherever the
                # "odd counts are centred" rule is applied, setter or getter) is what the slicing code has to cope with
                z = make_signal(prog, cls_name, n=nsample, nchan=nchan, freq_align="center")
                ev0 = ck.evaluator()
                try:
                    ev0.setattr(z, "freq_align", StrV(al), FR())
                except (Raised, Unsupported):
                    z = make_signal(prog, cls_name, n=nsample, nchan=nchan, freq_align=al if nchan % 2 == 0 else "center")
                lab0 = labels(ck, ev0, z, "R3", gfreq.where, "labels of the unsliced signal")
                if lab0 is None:
                    continue
                f0, _ = lab0
                for a, b in itertools.product(bounds, bounds):
                    st, sp_, _ = slice(a, b).indices(nchan)
                    if sp_ <= st:
                        continue
                    n_slices += 1
                    idx = TupleV([SliceV(NONE, NONE, NONE), SliceV(NONE if a is None else Num(a), NONE if b is None else Num(b), NONE)])
                    ev = ck.evaluator()
                    construct = f"{cls_name}(nchan={nchan}, '{al}')[:, {'' if a is None else a}:{'' if b is None else b}]"
                    out = ck.attempt("R3", gi.where, construct, "frequency slice evaluates", lambda: ev.getitem(z, idx, FR()), ev=ev,
                                     allowed_guards=[])
                    if out is None:
                        continue
                    lab = labels(ck, ev, out, "R3", fsl.where, "labels of the sliced signal")
                    if lab is None:
                        continue
                    g, n1 = lab
                    ok = (sp.simplify(n1 - (sp_ - st)) == 0)
                    diffs = [sp.simplify(g(j) - f0(st + j)) for j in range(sp_ - st)]
                    ok = ok and all(d == 0 for d in diffs)
                    run.ob("R3", fsl.where, construct, "labels of the selected range equal the selected labels of the original",
                           ok, found=f"labels {[str(sp.simplify(g(j))) for j in range(min(sp_ - st, 3))]}... count {n1}",
                           expected=f"{[str(sp.simplify(f0(st + j))) for j in range(min(sp_ - st, 3))]}... count {sp_ - st}",
                           nontrivial=True)
                    if out.cls.name != cls_name:
                        ck.same("R3", gi.where, construct, "slicing keeps the signal type", False, found=out.cls.name)
                    # the original keeps its own labels (a slice that moved the parent's centre frequency would make every later
                    # slice of it wrong)
                    labp = labels(ck, ck.evaluator(), z, "R3", gfreq.where, "labels of the original after slicing")
                    if labp is not None:
                        fp, _ = labp
                        moved = [j for j in range(nchan) if sp.simplify(fp(j) - f0(j)) != 0]
                        if moved:
                            run.ob("R3", fsl.where, construct, "slicing leaves the labels of the original signal untouched", False,
                                   found=f"label {moved[0]} of the original is now {sp.simplify(fp(moved[0]))}", expected=str(sp.simplify(f0(moved[0]))), nontrivial=True)
                            z = make_signal(prog, cls_name, n=nsample, nchan=nchan, freq_align=al if nchan % 2 == 0 else "center")
                # trailing-axis / combined selections keep time and frequency labels
                if cls_name == "FullStokesSignal" or nchan in (4, 5):
                    pass
    run.floor("R3", "non-empty channel ranges examined", n_slices, 60)

    # combined time + frequency slice and repeated slicing (symbolic time bounds, concrete channel bounds)
    z = make_signal(prog, "RadioSignal", n=nsample, nchan=8, freq_align="top")
    ev = ck.evaluator()
    lab0 = labels(ck, ev, z, "R3", gfreq.where, "labels of the unsliced signal")
    if lab0 is not None:
        f0, _ = lab0
        idx1 = TupleV([SliceV(Num(1), Num(6), NONE), SliceV(Num(1), Num(-1), NONE)])
        idx2 = TupleV([SliceV(NONE, NONE, Num(2)), SliceV(Num(2), NONE, NONE)])
        o1 = ck.attempt("R3", gi.where, "z[1:6, 1:-1]", "combined slice evaluates", lambda: ev.getitem(z, idx1, FR()), ev=ev)
        o2 = ck.attempt("R3", gi.where, "z[1:6, 1:-1][::2, 2:]", "repeated slice evaluates", lambda: ev.getitem(o1, idx2, FR()), ev=ev) if o1 else None
        if o2 is not None:
            lab = labels(ck, ev, o2, "R3", fsl.where, "labels after repeated slicing")
            if lab is not None:
                g, n1 = lab
                ok = sp.simplify(n1 - 4) == 0 and all(sp.simplify(g(j) - f0(3 + j)) == 0 for j in range(4))
                run.ob("R3", fsl.where, "z[1:6, 1:-1][::2, 2:] on 8 channels, 'top'", "repeated time+frequency slicing keeps the selected labels",
                       ok, found=str([str(sp.simplify(g(j))) for j in range(4)]), expected=str([str(sp.simplify(f0(3 + j))) for j in range(4)]),
                       nontrivial=True)
    # ------------------------------------------------------------------ R4: trailing-axis selection keeps labels
    for al in ("bottom", "top"):
        z = make_signal(prog, "RadioSignal", n=nsample, nchan=6, extra=(3,), freq_align=al)
        ev = ck.evaluator()
        lab0 = labels(ck, ev, z, "R4", gfreq.where, "labels of the unsliced signal")
        idx = TupleV([SliceV(NONE, NONE, NONE), SliceV(NONE, NONE, NONE), Num(1)])
        out = ck.attempt("R4", gi.where, f"z[:, :, 1] ('{al}')", "trailing-axis selection evaluates", lambda: ev.getitem(z, idx, FR()), ev=ev)
        if out is not None and lab0 is not None:
            lab = labels(ck, ev, out, "R4", fsl.where, "labels after trailing-axis selection")
            if lab is not None:
                g, n1 = lab
                f0, _ = lab0
                ok = sp.simplify(n1 - 6) == 0 and all(sp.simplify(g(j) - f0(j)) == 0 for j in range(6))
                st_ok = sp.simplify(out.attrs["_start_time"].expr - z.attrs["_start_time"].expr) == 0
                run.ob("R4", gi.where, f"z[:, :, 1] ('{al}')", "selecting a trailing-axis component changes neither time nor frequency labels",
                       ok and st_ok, found=str([str(sp.simplify(g(j))) for j in range(3)]), nontrivial=True)
    # Stokes component selected by name
    sgi = prog.func("FullStokesSignal.__getitem__")
    run.touched(sgi)
    n_st = 0
    for nchan, al in ((4, "bottom"), (4, "top"), (4, "center"), (5, "center")) + (((6, "top"), (2, "bottom")) if run.tier != "quick" else ()):
        for comp in (("I", "V") if run.tier == "quick" else ("I", "Q", "U", "V")):
            z = make_signal(prog, "FullStokesSignal", n=nsample, nchan=nchan, freq_align=al)
            ev = ck.evaluator()
            lab0 = labels(ck, ev, z, "R4", gfreq.where, "labels of the Stokes signal")
            tag = f"FullStokesSignal(nchan={nchan}, '{al}')['{comp}']"
            out = ck.attempt("R4", sgi.where, tag, "component selection evaluates", lambda: ev.getitem(z, StrV(comp), FR()), ev=ev)
            if out is None or lab0 is None or not isinstance(out, ObjV):
                continue
            lab = labels(ck, ev, out, "R4", sgi.where, "labels of the selected component")
            if lab is None:
                continue
            n_st += 1
            g, n1 = lab
            f0, _ = lab0
            ok = sp.simplify(n1 - nchan) == 0 and all(sp.simplify(g(j) - f0(j)) == 0 for j in range(nchan))
            st_ok = sp.simplify(out.attrs["_start_time"].expr - z.attrs["_start_time"].expr) == 0 \
                and sp.simplify(out.attrs["_sample_rate"].expr - z.attrs["_sample_rate"].expr) == 0
            run.ob("R4", sgi.where, tag, "selecting a Stokes component changes neither time nor frequency labels",
                   ok and st_ok, found=str([str(sp.simplify(g(j))) for j in range(min(3, nchan))]),
                   expected=str([str(sp.simplify(f0(j))) for j in range(min(3, nchan))]), nontrivial=True)
    run.floor("R4", "Stokes component selections examined", n_st, 8)
    # the frequency metadata of a slice is computed and stored in double precision: it is never re-cast to the dtype the original's
    # Quantity happens to have (a float32 or integer-MHz centre frequency would move the labels of the slice)
    z32 = make_signal(prog, "RadioSignal", n=nsample, nchan=6, freq_align="bottom",
                      center_freq=Num(CF * Hz, kind="quantity", dtype=ExtV("numpy.float32")))
    ev = ck.evaluator()
    out = ck.attempt("R3", gi.where, "z[:, 1:4] with a centre frequency held as float32", "evaluates",
                     lambda: ev.getitem(z32, TupleV([SliceV(NONE, NONE, NONE), SliceV(Num(1), Num(4), NONE)]), FR()), ev=ev)
    if out is not None:
        narrowed = [t for t in ev.trace if t[0] == "quantity-dtype"]
        cfo = out.attrs.get("_center_freq")
        ck.same("R3", gi.where, "z[:, 1:4] with a centre frequency held as float32", "the new centre frequency is not cast to the original's (narrower) dtype",
                not narrowed, found=str([(t[1], repr(t[2])) for t in narrowed])[:200] or None, nontrivial=True)
    # NT: channel bounds may be NumPy integers (results of argmax / searchsorted arithmetic), of either sign
    for cls_name in ("RadioSignal", "BasebandSignal"):
        for label, mkidx in (("z[:, -3:]", lambda mk: SliceV(mk(-3), NONE, NONE)), ("z[:, 1:-1]", lambda mk: SliceV(mk(1), mk(-1), NONE)),
                             ("z[:, :-2]", lambda mk: SliceV(NONE, mk(-2), NONE)), ("z[:, 2:5]", lambda mk: SliceV(mk(2), mk(5), NONE))):
            zc = make_signal(prog, cls_name, n=nsample, nchan=6, freq_align="bottom")
            ck.number_types("NT", gi.where, f"{cls_name}(nchan=6): {label}",
                            lambda ev, mk, zc=zc, mkidx=mkidx: ev.getitem(zc, TupleV([SliceV(NONE, NONE, NONE), mkidx(mk)]), FR()))
    run.extra["decided_by"] = ck.how
    run.extra["channel_ranges_examined"] = n_slices
