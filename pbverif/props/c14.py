"""C14 - No operation modifies the signal or arguments it is given.

R1  whole-scope may-alias analysis: no mutation sink reaches a value that may alias a
    parameter's object, buffer or metadata (inter-procedural through summaries).
R2  metadata isolation: the ``meta`` setter stores a fresh dict; ``like`` writes only its
    own ``**kwargs``; mutable default arguments are never written or handed out.
R3  embedded positive control: the analysis must flag a tiny known-bad function on every run.
"""
from __future__ import annotations

import ast

from ..alias import AliasAnalysis
from ..model import Program, norm, AnalysisError

SCOPE = [
    "pulsarbat.core", "pulsarbat.transforms.transforms", "pulsarbat.transforms.dedispersion",
    "pulsarbat.contrib.misc", "pulsarbat.utils", "pulsarbat.readers._base",
    "pulsarbat.readers._baseband_readers", "pulsarbat.fft",
]

EXPLANATION = (
    "Flow-sensitive may-alias analysis (abstract value = set of parameters whose object/buffer/metadata "
    "the value may alias, with a view/copy table for numpy/astropy/dask) over every function of core, "
    "transforms, dedispersion, contrib, utils, fft and the readers; function summaries (mutates parameter k, "
    "returns alias of parameter k) are iterated to a fixpoint so a helper cannot hide a write. Every mutation "
    "sink (augmented assignment, subscript/attribute store, mutating method, out= argument, numpy in-place "
    "function, callee that writes its parameter) applied to a value with a non-empty alias set is a violation "
    "unless it is in the table of sanctioned sites (constructor/setter writing self, the explicit out= protocol "
    "of Signal.__array_ufunc__). The rule IS the property for writes performed by library code; it does not see "
    "writes performed inside third-party code that are not in the API table."
)

POSITIVE_CONTROL = '''
import numpy as np
def _ctl_inplace(z, k):
    x = z.data.reshape((-1, 2))
    x = x.swapaxes(0, 1)
    x *= k
    return x
def _ctl_helper(a):
    a[0] = 0
def _ctl_via_helper(z):
    v = np.asarray(z.data)
    _ctl_helper(v)
def _ctl_fresh(z, k):
    x = z.data.reshape((-1, 2))
    x = np.fft.fftshift(x * 1)
    x *= k
    t = z.start_time
    t += k
    return x
'''


def _is_state_attr(ci, attr):
    """`_k` backing a public property k with a setter (or the sample buffer): observable state of the object."""
    if attr in ("_data", "data"):
        return True
    pr = ci.find_property(attr.lstrip("_")) if ci is not None else None
    if pr is not None and pr.get("set") is not None:
        return True
    return not attr.startswith("_")


def _bound_to_element_of(fn, stmt, name, param):
    """Is `name`, at statement `stmt`, the loop variable of an enclosing `for ... in zip(..., param, ...)` (same position) or
    `for name in param`?"""
    def zip_position(tg, it, nm):
        """nm is bound, by `for tg in zip(..., param, ...)`, to the element of `param`."""
        if isinstance(tg, ast.Name) and tg.id == nm and isinstance(it, ast.Name) and it.id == param:
            return True
        if isinstance(it, ast.Call) and isinstance(it.func, ast.Name) and it.func.id == "zip" and isinstance(tg, (ast.Tuple, ast.List)) and len(tg.elts) == len(it.args):
            return any(isinstance(t, ast.Name) and t.id == nm and isinstance(a, ast.Name) and a.id == param for t, a in zip(tg.elts, it.args))
        return False
    for loop in ast.walk(fn):
        if not isinstance(loop, ast.For) or not any(n is stmt for n in ast.walk(loop)):
            continue
        it, tg = loop.iter, loop.target
        # for a, b in pending:  with  pending = [(a2, b2) for a2, b2, f in zip(results, param, flags) if f]  (assigned once)
        if isinstance(it, ast.Name) and isinstance(tg, (ast.Tuple, ast.List)):
            defs = [a_.value for a_ in ast.walk(fn) if isinstance(a_, ast.Assign) and len(a_.targets) == 1 and isinstance(a_.targets[0], ast.Name) and a_.targets[0].id == it.id]
            if len(defs) == 1 and isinstance(defs[0], (ast.ListComp, ast.GeneratorExp)) and len(defs[0].generators) == 1 and isinstance(defs[0].elt, ast.Tuple) \
                    and len(defs[0].elt.elts) == len(tg.elts):
                for t, e in zip(tg.elts, defs[0].elt.elts):
                    if isinstance(t, ast.Name) and t.id == name and isinstance(e, ast.Name) and zip_position(defs[0].generators[0].target, defs[0].generators[0].iter, e.id):
                        rebound = [n for n in ast.walk(loop) if isinstance(n, ast.Assign) and any(isinstance(x, ast.Name) and x.id == name for x in n.targets)]
                        return not rebound
        if isinstance(tg, ast.Name) and tg.id == name and isinstance(it, ast.Name) and it.id == param:
            return True
        if isinstance(it, ast.Call) and isinstance(it.func, ast.Name) and it.func.id == "zip" and isinstance(tg, (ast.Tuple, ast.List)) \
                and len(tg.elts) == len(it.args):
            for t, a in zip(tg.elts, it.args):
                if isinstance(t, ast.Name) and t.id == name and isinstance(a, ast.Name) and a.id == param:
                    # the name must not be rebound between the loop head and the store
                    rebound = [n for n in ast.walk(loop) if isinstance(n, ast.Assign) and any(isinstance(x, ast.Name) and x.id == name for x in n.targets)]
                    return not rebound
    return False


def sanction(fi, node, how):
    import re
    if fi.qualname == "Signal.__array_ufunc__" and how.startswith("out= argument"):
        return "explicit NumPy out=/in-place protocol: the caller names the signal as the target"
    m0 = re.match(r"attribute store '(\w+)\._data = \.\.\.'", how)
    if fi.qualname == "Signal.__array_ufunc__" and m0 and _bound_to_element_of(fi.node, node, m0.group(1), "out"):
        return "explicit NumPy out=/in-place protocol: the stored-into object is an element of the out= tuple the caller named as the target"
    m = re.match(r"attribute store 'self\.(\w+) = \.\.\.'", how)
    if m and fi.cls is not None and fi.kind in ("method", "property") and not _is_state_attr(fi.cls, m.group(1)):
        return ("private derived attribute (memoised value / flag), not part of the object's observable state; its coherence with the state "
                "it is computed from is decided by rule RS (pbverif/coherence.py)")
    if fi.kind == "setter" or fi.name == "__init__":
        if re.match(r"mutating method \.(pop|clear|update|setdefault|__setitem__|__delitem__)\(\) on '(self\.__dict__|vars\(self\))'", how):
            return "object under construction (constructor / property setter writes self through its instance dictionary)"
    return None


def check(run, prog: Program):
    run.explanation = EXPLANATION
    run.assumptions += [
        "third-party functions do not write their inputs unless listed in MUTATING_FUNCS/MUTATING_METHODS",
        "view/copy classification of numpy, astropy and dask callables as in pbverif/alias.py",
        "no monkey-patching; subclasses outside the package are not analysed",
    ]
    for m in SCOPE:
        prog.module(m)
    an = AliasAnalysis(prog, set(SCOPE), sanction=sanction)
    sinks = an.run()
    run.analysed["call_sites"] = an.n_calls
    run.analysed["api_entries"] = set(an.api_used)
    for f in an.scope:
        run.touched(f)
    run.extra["statements_interpreted"] = an.n_stmts
    run.extra["unknown_external_calls"] = dict(sorted(an.unknown_calls.items()))
    run.floor("R1", "functions in C14's scope", len(an.scope), 110)

    # R1: one obligation per function: "no unsanctioned sink"; plus one per sink site
    by_func = {}
    for s in sinks:
        by_func.setdefault(id(s.func), []).append(s)
    # sinks inside nested functions (the wrapper built by signal_transform, local helpers) are obligations of the enclosing function
    scope_ids = {id(f) for f in an.scope}
    for s in sinks:
        if id(s.func) not in scope_ids:
            outer = next((f for f in an.scope if f.module == s.func.module and s.func.qualname.startswith(f.qualname + ".<locals>")), None)
            if outer is not None:
                by_func.setdefault(id(outer), []).append(s)
            else:
                run.ob("R1", s.func.where, norm(s.node), f"mutation sink: {s.how}; may alias parameter(s) {sorted(s.roots)}", s.sanctioned is not None,
                       nontrivial=True, found=None if s.sanctioned else f"write to alias of {sorted(s.roots)}", note=s.sanctioned)
    for f in an.scope:
        ss = by_func.get(id(f), [])
        bad = [s for s in ss if s.sanctioned is None]
        if not ss:
            run.ob("R1", f.where, f.qualname, "no write reaches a value that may alias a parameter", True)
        for s in ss:
            ok = s.sanctioned is not None
            run.ob("R1", f.where, norm(s.node), f"mutation sink: {s.how}; may alias parameter(s) {sorted(s.roots)}",
                   ok, nontrivial=True, found=None if ok else f"write to alias of {sorted(s.roots)}",
                   expected="no write to anything aliasing an argument",
                   note=s.sanctioned)
    n_sanctioned = sum(1 for s in sinks if s.sanctioned)
    run.extra["sinks_examined"] = len(sinks)
    run.extra["sinks_sanctioned"] = n_sanctioned
    # the constructors/setters of the pinned tree write self at least this many times
    run.floor("R1", "sanctioned constructor/setter stores seen by the sink detector", n_sanctioned, 25)

    # summaries that matter to users of the API: public functions must not mutate params
    mut = {f.qualname: sorted(an.summaries[id(f)].mutates) for f in an.scope if an.summaries[id(f)].mutates}
    run.extra["functions_with_mutating_summary"] = mut

    r2(run, prog)
    r3(run, prog)
    # NumPy functions that write into "their own copy" of an argument (np.nan_to_num, np.array(z)[...] = ...) obtain that copy
    # from z.__array__(copy=True): it must be fresh storage
    from ..spec import Checker
    from .c17 import array_copy_protocol
    array_copy_protocol(Checker(run, prog), prog, "R1")
    from ..structural import overwrite_report
    overwrite_report(Checker(run, prog), prog, "R1")
    # "... whether the call succeeds or raises": a refused out= call on Dask-backed targets leaves every target untouched
    from .c17 import dask_out_rule
    dask_out_rule(Checker(run, prog), prog, "R1")


def r2(run, prog):
    # meta setter stores a new dict
    st = prog.setter("Signal", "meta")
    run.touched(st)
    stores = [n for n in ast.walk(st.node) if isinstance(n, ast.Assign)
              and any(isinstance(t, ast.Attribute) and t.attr == "_meta" for t in n.targets)]
    if not stores:
        run.ob("R2", st.where, "self._meta = ...", "meta setter stores the metadata", None,
               note="no store to self._meta found in the setter")
    param = st.params()[1][0] if len(st.params()) > 1 else None
    for a in stores:
        ok = _is_fresh_dict_or_none(a.value, param)
        run.ob("R2", st.where, norm(a), "the stored meta is None or a new dict (never the caller's dict object)",
               ok, nontrivial=True, found=norm(a.value), expected="None if meta is None else dict(meta)")
    # mutable defaults are never handed to a constructor un-copied nor mutated: covered by R1 for writes;
    # here: every mutable default ({} / dict() / []) must only be *read* (splat or passed on)
    n = 0
    for f in prog.all_functions:
        if f.module not in SCOPE or isinstance(f.node, ast.Lambda):
            continue
        for pname, dv in f.defaults().items():
            if _is_mutable_literal(dv):
                n += 1
                bad = _writes_or_stores(f.node, pname)
                run.ob("R2", f.where, f"{pname}={norm(dv)}",
                       "a mutable default argument is only read (splatted / iterated), never written, stored or returned",
                       not bad, nontrivial=True, found="; ".join(bad) if bad else None)
    run.floor("R2", "mutable default arguments examined", n, 3)
    # like(): writes only its own **kwargs
    lk = prog.func("Signal.like")
    run.touched(lk)
    kwname = lk.node.args.kwarg.arg if lk.node.args.kwarg else None
    if kwname is None:
        run.ob("R2", lk.where, "like(cls, obj, z=None, /, **kwargs)", "like() collects overrides in **kwargs", None,
               note="like() has no **kwargs parameter any more")
    else:
        bad = []
        for n_ in ast.walk(lk.node):
            if isinstance(n_, (ast.Assign, ast.AugAssign)):
                tg = n_.targets if isinstance(n_, ast.Assign) else [n_.target]
                for t in tg:
                    if isinstance(t, (ast.Subscript, ast.Attribute)):
                        base = t.value
                        if not (isinstance(base, ast.Name) and base.id == kwname):
                            bad.append(norm(n_))
        run.ob("R2", lk.where, "stores in like()", "like() stores only into its own **kwargs dictionary",
               not bad, found="; ".join(bad) if bad else None)


def _is_fresh_dict_or_none(v, param):
    if isinstance(v, ast.Constant) and v.value is None:
        return True
    if isinstance(v, ast.IfExp):
        return _is_fresh_dict_or_none(v.body, param) and _is_fresh_dict_or_none(v.orelse, param)
    if isinstance(v, ast.Call):
        f = v.func
        if isinstance(f, ast.Name) and f.id == "dict":
            return True
        if isinstance(f, ast.Attribute) and f.attr in ("copy", "deepcopy"):
            return True
        if isinstance(f, ast.Name) and f.id in ("deepcopy",):
            return True
    if isinstance(v, (ast.Dict, ast.DictComp)):
        return True
    return False


def _is_mutable_literal(dv):
    if isinstance(dv, (ast.Dict, ast.List, ast.Set)):
        return True
    if isinstance(dv, ast.Call) and isinstance(dv.func, ast.Name) and dv.func.id in ("dict", "list", "set") \
            and not dv.args and not dv.keywords:
        return True
    return False


def _writes_or_stores(fnode, pname):
    from ..structural import rebound_to_copy_before
    bad = []
    for n in ast.walk(fnode):
        if isinstance(n, (ast.Assign, ast.AugAssign, ast.AnnAssign, ast.Call, ast.Return)) and rebound_to_copy_before(fnode, pname, n):
            continue            # the name was rebound to a new container first: the default object itself is not touched
        if isinstance(n, (ast.Assign, ast.AugAssign, ast.AnnAssign)):
            tg = n.targets if isinstance(n, ast.Assign) else [n.target]
            for t in tg:
                if isinstance(t, (ast.Subscript, ast.Attribute)) and isinstance(t.value, ast.Name) and t.value.id == pname:
                    bad.append(f"store {norm(n)}")
                if isinstance(n, ast.AugAssign) and isinstance(t, ast.Name) and t.id == pname:
                    bad.append(f"in-place {norm(n)}")
            val = getattr(n, "value", None)
            if isinstance(val, ast.Name) and val.id == pname and any(isinstance(t, ast.Attribute) for t in tg):
                bad.append(f"stored on an object: {norm(n)}")
        elif isinstance(n, ast.Call) and isinstance(n.func, ast.Attribute) and isinstance(n.func.value, ast.Name) \
                and n.func.value.id == pname and n.func.attr in (
                    "update", "setdefault", "pop", "popitem", "clear", "append", "extend", "insert", "remove", "add"):
            bad.append(f"mutating call {norm(n)}")
        elif isinstance(n, ast.Return) and isinstance(n.value, ast.Name) and n.value.id == pname:
            bad.append("returned to the caller")
    return bad


def r3(run, prog):
    """Positive control: the sink detector must fire on known-bad code and stay silent on the fresh twin."""
    overlay = dict(prog.overlay)
    overlay["pulsarbat/_pbverif_control.py"] = POSITIVE_CONTROL
    # build a tiny program containing only the control module, re-using the parser
    import ast as _ast
    from ..model import ModuleInfo
    mi = ModuleInfo("pulsarbat._pbverif_control", "pulsarbat/_pbverif_control.py", POSITIVE_CONTROL,
                    _ast.parse(POSITIVE_CONTROL))
    prog.modules[mi.name] = mi
    n_before = len(prog.all_functions)
    try:
        prog._index_module(mi)
        an = AliasAnalysis(prog, {mi.name})
        sinks = an.run()
    finally:
        del prog.modules[mi.name]
        del prog.all_functions[n_before:]
    flagged = {s.func.qualname for s in sinks if s.sanctioned is None}
    want = {"_ctl_inplace", "_ctl_helper", "_ctl_via_helper"}
    ok = want <= flagged and "_ctl_fresh" not in flagged
    run.ob("R3", "(embedded control)", "x = z.data.reshape(..); x = x.swapaxes(..); x *= k",
           "the sink detector flags the embedded in-place write (directly and through a helper) and not its fresh twin",
           True if ok else None, nontrivial=True, found=sorted(flagged), expected=sorted(want),
           note=None if ok else "alias analysis lost its teeth: positive control not reproduced")
