"""C10 - concatenate is the exact inverse of splitting and refuses non-contiguous pieces."""
from __future__ import annotations

import sympy as sp

from ..spec import Checker, FR, obj_summary
from ..sigmodel import make_signal
from ..values import Num, StrV, ObjV, NONE, Hz, F, NONE_S, TupleV, SliceV, BoolV, ListV
from ..symeval import Raised
from ..values import Unsupported
from .c13 import meta_same

EXPLANATION = (
    "concatenate is evaluated by the term evaluator on sequences of signals whose metadata are pairwise independent symbols "
    "(lengths N_i, rates SR_i, start times T_i or none, centre frequencies, channel bandwidths; concrete small channel counts). "
    "Every comparison the function makes on the way to np.concatenate is an undecided test whose failing arm raises; the path "
    "facts that hold when the join is reached are therefore exactly the acceptance conditions. The obligation is that these facts "
    "contain, for every piece, the statement's conditions: equal sample rates, time contiguity start_k ~ ref + (sum of earlier "
    "lengths)/sample_rate with ref fixed by the first piece that has a start time (time axis) or equal start times (other axes), "
    "equal channel bandwidths, and equal labels or adjacent-pair contiguity last_label_k + chan_bw ~ first_label_{k+1} (frequency "
    "axis); a missing or weakened (any instead of all) guard leaves a required atom out. The result's start time, re-centred "
    "labels (read back through channel_freqs), data term and override set are compared with the statement. isclose tolerances "
    "are not decided."
)


def atoms(facts):
    """Opaque closeness predicates that are known TRUE at the join (walks And / Not-Or with polarity)."""
    out = []

    def visit(f, pos):
        if isinstance(f, sp.Not):
            visit(f.args[0], not pos)
        elif isinstance(f, sp.And) and pos:
            for a in f.args:
                visit(a, True)
        elif isinstance(f, sp.Or) and not pos:
            for a in f.args:
                visit(a, False)
        elif isinstance(f, (sp.Ne, sp.Eq)) and isinstance(f.lhs, sp.core.function.AppliedUndef) and f.rhs == 0:
            true_pred = isinstance(f, sp.Ne) == pos
            if true_pred:
                out.append(f.lhs)
    for f in facts:
        visit(f, True)
    return out


def has_atom(have, name, x, y):
    for a in have:
        if a.func.__name__ != name or len(a.args) < 2:
            continue
        p, q = a.args[0], a.args[1]
        try:
            if (sp.simplify(p - x) == 0 and sp.simplify(q - y) == 0) or (sp.simplify(p - y) == 0 and sp.simplify(q - x) == 0):
                return True
        except Exception:
            continue
    return False


def has_offset_bound(facts, diff_seconds, rate, max_tol=sp.Rational(1, 2)):
    """A fact |E| <= tol (tol a number of at most half a sample) known true at the join, E being the given time difference expressed in
    samples (diff*rate, either sign): the contiguity test spelled as an offset in samples instead of a closeness of two Times."""
    found = []

    def visit(f, pos):
        if isinstance(f, sp.Not):
            visit(f.args[0], not pos)
        elif isinstance(f, sp.And) and pos:
            for a in f.args:
                visit(a, True)
        elif isinstance(f, sp.Or) and not pos:
            for a in f.args:
                visit(a, False)
        elif isinstance(f, (sp.Le, sp.Lt, sp.Ge, sp.Gt)):
            l, r = f.lhs, f.rhs
            if isinstance(f, (sp.Ge, sp.Gt)):
                l, r = r, l                       # now "l <(=) r" when pos
            if not pos:
                l, r = r, l                       # not (a <= b)  ==  b < a
            found.append((l, r))
    for f in facts:
        visit(f, True)
    want = sp.simplify(diff_seconds * rate)
    for l, r in found:
        if not (r.is_number and 0 < r <= max_tol and isinstance(l, sp.Abs)):
            continue
        try:
            e = sp.simplify(l.args[0])
            if sp.simplify(e - want) == 0 or sp.simplify(e + want) == 0:
                return True
        except Exception:
            continue
    return False


def mk(prog, cls, k, nchan, start=True, align="center", same_sr=False, same_bw=False, extra=(), zero_len=False):
    n = sp.Integer(0) if zero_len else sp.Symbol(f"N{k}", integer=True, positive=True)
    sr = sp.Symbol("SR0" if same_sr else f"SR{k}", positive=True)
    cf = sp.Symbol(f"CF{k}", real=True)
    bw = sp.Symbol("BW0" if same_bw else f"BW{k}", positive=True)
    t0 = sp.Symbol(f"T{k}", real=True)
    z = make_signal(prog, cls, n=n, nchan=nchan, freq_align=align, start_time=start, name=f"z{k}", extra=extra,
                    sample_rate=Num(sr * Hz, kind="quantity"), center_freq=Num(cf * Hz, kind="quantity"),
                    chan_bw=Num((sr if cls in ("BasebandSignal", "DualPolarizationSignal") else bw) * Hz, kind="quantity"), t0=t0)
    return z, dict(n=n, sr=sr, cf=cf, bw=(sr if cls in ("BasebandSignal", "DualPolarizationSignal") else bw), t0=t0)


def labels_of(ev, obj):
    f = ev.getattr(obj, "channel_freqs", FR())
    return (lambda i: f.expr.subs(f.axes[0], i)), f.shape[0]


def check(run, prog):
    run.explanation = EXPLANATION
    run.assumptions += ["astropy isclose/allclose as opaque symmetric predicates", "real-number semantics"]
    ck = Checker(run, prog)
    fi = prog.func("concatenate")
    run.touched(fi)

    # ------------------------------------------------------------------ time axis
    for cls, starts, axis in (("Signal", (True, True, True), None), ("RadioSignal", (True, True, True), StrV("time")),
                              ("RadioSignal", (False, True, True), Num(0)), ("BasebandSignal", (True, False, True), None)):
        sigs, syms = zip(*[mk(prog, cls, k, nchan=2, start=st, align="bottom") for k, st in enumerate(starts)])
        tag = f"[{cls} x3 along time, start times {starts}, axis={'default' if axis is None else getattr(axis, 's', 0)}]"
        ev = ck.evaluator()
        kw = {} if axis is None else {"axis": axis}
        out = ck.attempt("R1", fi.where, "concatenate(signals) " + tag, "evaluates on pieces with independent symbolic metadata",
                         lambda: ev.call(fi, [ListV(list(sigs))], kw), ev=ev, allowed_guards=["ValueError", "TypeError"])
        if out is None:
            continue
        have = atoms(ev.last_frame.facts)
        radio = cls != "Signal"
        sr0 = syms[0]["sr"] * Hz
        for k in (1, 2):
            ck.same("R1", fi.where, f"guard: sample_rate of piece {k} " + tag, "every piece's sample_rate is compared with the first (reject otherwise)",
                    has_atom(have, "QClose", sr0, syms[k]["sr"] * Hz), found=f"facts at the join: {[str(a)[:60] for a in have]}", nontrivial=True)
        # time contiguity relative to the first piece that has a start time
        first = [k for k, s in enumerate(starts) if s][0]
        before = lambda k: sum((syms[j]["n"] for j in range(k)), sp.Integer(0))  # noqa: E731
        ref = syms[first]["t0"] / Hz - before(first) / sr0
        for k in range(first + 1, 3):
            if not starts[k]:
                continue
            ck.same("R2", fi.where, f"guard: time contiguity of piece {k} " + tag,
                    "start_k is compared with ref + (samples before piece k)/sample_rate, ref fixed by the first piece with a start time",
                    has_atom(have, "TClose", ref + before(k) / sr0, syms[k]["t0"] / Hz)
                    or has_offset_bound(ev.last_frame.facts, (syms[k]["t0"] / Hz - ref) - before(k) / sr0, sr0),
                    found=f"time facts: {[str(a)[:90] for a in have if a.func.__name__ == 'TClose']}", nontrivial=True)
        if radio:
            for k in (1, 2):
                ck.same("R1", fi.where, f"guard: chan_bw of piece {k} " + tag, "every piece's chan_bw is compared with the first",
                        has_atom(have, "QClose", syms[0]["bw"] * Hz, syms[k]["bw"] * Hz), found=f"{[str(a)[:60] for a in have]}", nontrivial=True)
            ev2 = ck.evaluator()
            l0, _ = labels_of(ev2, sigs[0])
            i_ = [s for s in l0(sp.Symbol("q")).free_symbols]
            for k in (1, 2):
                lk, _ = labels_of(ev2, sigs[k])
                ok = any(a.func.__name__ == "QClose" and _same_labels(a, l0, lk) for a in have)
                ck.same("R1", fi.where, f"guard: channel labels of piece {k} " + tag, "when joining along time every piece must carry the same channel labels",
                        ok, found=f"{[str(a)[:80] for a in have if a.func.__name__ == 'QClose']}", nontrivial=True)
        # result
        st = out.attrs["_start_time"]
        ck.eq("R3", fi.where, "result start_time " + tag, "== start of the first piece (reconstructed from the first piece that has a start time)",
              st.expr if isinstance(st, Num) else sp.Symbol("none"), ref)
        D = out.attrs["_data"]
        expD = F["Concat"](F["Tup"](*[s.attrs["_data"].expr for s in sigs]), 0)
        ck.same("R3", fi.where, "result data " + tag, "np.concatenate of the pieces' data, in order, along axis 0",
                isinstance(D, Num) and D.expr == expD, found=str(getattr(D, "expr", D))[:160], expected=str(expD)[:160], nontrivial=True)
        ck.eq("R3", fi.where, "result sample_rate " + tag, "taken from the first piece", out.attrs["_sample_rate"].expr, sr0)
        if radio:
            ev3 = ck.evaluator()
            lo, no = labels_of(ev3, out)
            l0, n0 = labels_of(ev3, sigs[0])
            ok = sp.simplify(no - n0) == 0 and all(sp.simplify(lo(j) - l0(j)) == 0 for j in range(2))
            ck.same("R3", fi.where, "result channel labels " + tag, "equal the first piece's labels (re-centring keeps them)", ok,
                    found=str([str(sp.simplify(lo(j))) for j in range(2)]), nontrivial=True)
        ck.same("R3", fi.where, "result type " + tag, "same class as the pieces", out.cls is sigs[0].cls, found=out.cls.name)

    # ------------------------------------------------------------------ frequency axis
    for cls, nch, aligns, starts, axis, zero_len in (("RadioSignal", (2, 3, 2), ("bottom", "center", "top"), (True, True, True), StrV("freq"), False),
                                                     ("BasebandSignal", (2, 2, 1), ("top", "bottom", "center"), (False, True, True), Num(1), False),
                                                     # a signal that is empty in time, split along frequency and put together again
                                                     ("RadioSignal", (2, 3, 2), ("center", "center", "center"), (True, True, True), StrV("freq"), True)):
        sigs, syms = zip(*[mk(prog, cls, k, nchan=nch[k], start=starts[k], align=aligns[k], zero_len=zero_len) for k in range(3)])
        tag = f"[{cls} x3 along frequency, channels {nch}, alignments {aligns}, start times {starts}{', zero samples in time' if zero_len else ''}]"
        ev = ck.evaluator()
        out = ck.attempt("R1", fi.where, "concatenate(signals, axis='freq') " + tag, "evaluates", lambda: ev.call(fi, [ListV(list(sigs))], {"axis": axis}),
                         ev=ev, allowed_guards=["ValueError", "TypeError"])
        if out is None:
            continue
        have = atoms(ev.last_frame.facts)
        sr0 = syms[0]["sr"] * Hz
        for k in (1, 2):
            ck.same("R1", fi.where, f"guard: sample_rate of piece {k} " + tag, "compared with the first", has_atom(have, "QClose", sr0, syms[k]["sr"] * Hz),
                    found=f"{[str(a)[:60] for a in have]}", nontrivial=True)
            ck.same("R1", fi.where, f"guard: chan_bw of piece {k} " + tag, "compared with the first",
                    has_atom(have, "QClose", syms[0]["bw"] * Hz, syms[k]["bw"] * Hz), found=f"{[str(a)[:60] for a in have]}", nontrivial=True)
        first = [k for k, s in enumerate(starts) if s][0]
        for k in range(first + 1, 3):
            if starts[k]:
                ck.same("R1", fi.where, f"guard: start_time of piece {k} " + tag, "when joining along frequency every piece with a start time must agree with the first such piece",
                        has_atom(have, "TClose", syms[first]["t0"] / Hz, syms[k]["t0"] / Hz),
                        found=f"{[str(a)[:80] for a in have if a.func.__name__ == 'TClose']}", nontrivial=True)
        ev2 = ck.evaluator()
        labs = [labels_of(ev2, s) for s in sigs]
        for k in (0, 1):
            last_k = labs[k][0](nch[k] - 1)
            first_n = labs[k + 1][0](0)
            ck.same("R1", fi.where, f"guard: frequency contiguity of pieces {k},{k + 1} " + tag,
                    "first label of the next piece minus last label of this one is compared with chan_bw",
                    has_atom(have, "QClose", first_n - last_k, syms[0]["bw"] * Hz), found=f"{[str(a)[:100] for a in have if a.func.__name__ == 'QClose']}",
                    nontrivial=True)
        st = out.attrs["_start_time"]
        ck.eq("R3", fi.where, "result start_time " + tag, "the common start time (from the first piece that has one)",
              st.expr if isinstance(st, Num) else sp.Symbol("none"), syms[first]["t0"] / Hz)
        # labels of the result, under the acceptance facts (contiguity): label_{k+1}[0] = label_k[-1] + bw
        ev3 = ck.evaluator()
        lo, no = labels_of(ev3, out)
        total = sum(nch)
        bw0 = syms[0]["bw"] * Hz
        # impose contiguity: CF_k such that first label of piece k = last label of k-1 + bw0, all bw equal
        subs = {}
        for k in (1, 2):
            subs[syms[k]["bw"]] = syms[0]["bw"]
            subs[syms[k]["sr"]] = syms[0]["sr"]
        l0 = labs[0][0]
        expected = [l0(j).subs(subs) for j in range(nch[0])]
        while len(expected) < total:
            expected.append(expected[-1] + bw0.subs(subs))
        # first/last labels of the pieces, as the code sees them, under contiguity
        f0 = labs[0][0](0).subs(subs)
        f_last_true = expected[-1]
        cf_last = sp.solve(sp.Eq(labs[2][0](nch[2] - 1).subs(subs), f_last_true), syms[2]["cf"])
        ok = False
        found = ""
        if cf_last:
            s2 = dict(subs)
            s2[syms[2]["cf"]] = cf_last[0]
            got = [sp.simplify(lo(j).subs(s2).subs(subs)) for j in range(total)]
            ok = sp.simplify(no - total) == 0 and all(sp.simplify(g - e) == 0 for g, e in zip(got, expected))
            found = str([str(g) for g in got[:3]]) + f" count {no}"
        ck.same("R3", fi.where, "result channel labels " + tag, "the concatenated label sequence (first piece's labels continued in steps of chan_bw)",
                ok, found=found, expected=str([str(sp.simplify(e)) for e in expected[:3]]) + f" count {total}", nontrivial=True)
        expD = F["Concat"](F["Tup"](*[s.attrs["_data"].expr for s in sigs]), 1)
        D = out.attrs["_data"]
        ck.same("R3", fi.where, "result data " + tag, "np.concatenate of the pieces' data along axis 1", isinstance(D, Num) and D.expr == expD,
                found=str(getattr(D, "expr", D))[:160], nontrivial=True)
        bad = meta_same(sigs[0], out, skip=("_data", "_start_time", "_center_freq", "_freq_align"))
        ck.same("R3", fi.where, "override set " + tag, "only start_time, center_freq and freq_align are overridden", not bad, found="; ".join(bad))

    # ------------------------------------------------------------------ definite rejections
    a, _ = mk(prog, "RadioSignal", 0, 2)
    b, _ = mk(prog, "BasebandSignal", 1, 2)
    s0, _ = mk(prog, "Signal", 0, 2)
    s1, _ = mk(prog, "Signal", 1, 2)
    for label, args, kw, exc in (("empty sequence", [ListV([])], {}, "ValueError"),
                                 ("pieces of different type", [ListV([a, b])], {}, "TypeError"),
                                 ("axis='freq' for non-radio signals", [ListV([s0, s1])], {"axis": StrV("freq")}, "TypeError")):
        try:
            ck.evaluator().call(fi, args, kw)
            ck.same("R1", fi.where, f"concatenate: {label}", f"is refused with {exc}", False, found="accepted")
        except Raised as e:
            ck.same("R1", fi.where, f"concatenate: {label}", f"is refused with {exc}", e.exc_name == exc, found=str(e)[:140], nontrivial=True)
        except Unsupported as e:
            ck.unk("R1", fi.where, f"concatenate: {label}", f"is refused with {exc}", str(e))
    # NT: the axis may be a NumPy integer
    for cls, axv in (("Signal", 0), ("RadioSignal", 0), ("RadioSignal", 1)):
        sigs_nt, _ = zip(*[mk(prog, cls, k, nchan=2, start=st, align="bottom") for k, st in enumerate((False, True, True))])
        ck.number_types("NT", fi.where, f"concatenate([{cls} x3], axis={axv})",
                        lambda ev, mkn, sigs_nt=sigs_nt, axv=axv: ev.call(fi, [ListV(list(sigs_nt))], {"axis": mkn(axv)}))
    # negative axes count from the end: for a signal with a trailing axis, axis=-1 is that axis, not the frequency axis
    for cls, ax_pos, ax_neg in (("RadioSignal", 2, -1), ("IntensitySignal", 2, -1)):
        sigs_ax, _ = zip(*[mk(prog, cls, k, nchan=2, start=True, align="bottom", extra=(sp.Integer(3),)) for k in range(2)])
        ck.forms("NT", fi.where, f"concatenate([{cls}(N, 2, 3) x2], axis)",
                 lambda ev, v, sigs_ax=sigs_ax: ev.call(fi, [ListV(list(sigs_ax))], {"axis": v}),
                 [(f"axis={ax_pos}", Num(ax_pos)), (f"axis={ax_neg}", Num(ax_neg))],
                 "a negative axis names the same axis as its non-negative spelling")
    run.extra["decided_by"] = ck.how


def _same_labels(atom, l0, lk):
    """QClose(labels_0, labels_k) as array terms: compare at two indices."""
    p, q = atom.args[0], atom.args[1]
    idx = sorted([s for s in (p.free_symbols | q.free_symbols) if s.name.startswith("n") and s.name[1:].isdigit()], key=lambda s: s.name)
    if not idx:
        return False
    for i in (0, 1):
        pi = p.subs({s: i for s in idx})
        qi = q.subs({s: i for s in idx})
        a, b = l0(i), lk(i)
        if not ((sp.simplify(pi - a) == 0 and sp.simplify(qi - b) == 0) or (sp.simplify(pi - b) == 0 and sp.simplify(qi - a) == 0)):
            return False
    return True
