"""C17 - Elementwise NumPy operations on signals equal the same operations on their data."""
from __future__ import annotations

import ast
import sympy as sp

from ..spec import Checker, FR, obj_summary
from ..sigmodel import make_signal, N, NCHAN
from ..values import Num, StrV, NONE, ExtV, ObjV, TupleV, DictV, NoneV, BoolV
from ..symeval import Raised
from ..values import Unsupported
from ..model import norm
from .c13 import meta_same

EXPLANATION = (
    "Signal.__array_ufunc__ is evaluated by the term evaluator with an abstract ufunc object (1 or 2 outputs) for every "
    "operand arrangement the statement names (signal first/second, two signals, scalar, array; with and without out=, in-place "
    "form, extra keyword arguments): the recorded call of the underlying ufunc must receive the signals' data arrays in place of "
    "the signals among inputs and outs, all keyword arguments unchanged, exactly once; results without a given output must be "
    "rebuilt by like() of the dispatching signal (same class, every attribute unchanged), results with a given output must be the "
    "given object itself; every ufunc method other than __call__ (reduce, accumulate, outer, at, reduceat) and matmul must return "
    "NotImplemented before anything is unwrapped. Protocol rules: Signal derives from NDArrayOperatorsMixin, __array__ accepts the "
    "NumPy-2 protocol arguments (dtype=None, copy=None) and honours dtype, __len__ is the data's. Per-ufunc values are NumPy's and "
    "are not decided."
)


def uf(name, nin, nout):
    return ExtV(f"ufunc:{name}:{nin}:{nout}")


def check(run, prog):
    run.explanation = EXPLANATION
    run.assumptions += ["NumPy's __array_ufunc__ / __array__ protocols as documented for NumPy >= 2"]
    ck = Checker(run, prog)
    fi = prog.func("Signal.__array_ufunc__")
    run.touched(fi)
    sigc = prog.cls("Signal")
    ck.same("R3", f"{sigc.module.replace('.', '/')}.py Signal", "class Signal(NDArrayOperatorsMixin)", "operators are routed through __array_ufunc__",
            any(b.endswith("NDArrayOperatorsMixin") for b in sigc.ext_bases), found=str(sigc.ext_bases), nontrivial=True)
    # the operator mixin must not be bypassed by hand-written arithmetic dunders on signal classes
    dunders = {f"__{p}{op}__" for op in ("add", "sub", "mul", "truediv", "floordiv", "mod", "pow", "matmul", "and", "or", "xor", "lshift", "rshift")
               for p in ("", "r", "i")} | {"__neg__", "__pos__", "__abs__", "__invert__", "__eq__", "__ne__", "__lt__", "__le__", "__gt__", "__ge__"}
    for ci in prog.signal_classes():
        own = sorted(d for d in dunders if d in ci.methods)
        ck.same("R3", f"{ci.module.replace('.', '/')}.py {ci.name}", f"class {ci.name}", "no hand-written arithmetic/comparison operator overrides the mixin's routing",
                not own, found=str(own), nontrivial=True)

    # ------------------------------------------------------------------ R1 refusals
    z = make_signal(prog, "BasebandSignal", nchan=2)
    for method in ("reduce", "accumulate", "outer", "at", "reduceat"):
        ev = ck.evaluator()
        r = ck.attempt("R1", fi.where, f"np.add.{method}(signal, ...)", "evaluates", lambda: ev.call(fi, [uf("add", 2, 1), StrV(method), z], {}, self_val=z), ev=ev)
        calls = [t for t in ev.trace if t[0] == "ufunc-call"]
        ck.same("R1", fi.where, f"ufunc method '{method}'", "is refused (NotImplemented) before any data is touched",
                isinstance(r, ExtV) and r.dotted == "builtins.NotImplemented" and not calls, found=repr(r)[:100] + f"; ufunc calls: {len(calls)}", nontrivial=True)
    for a, b in ((z, Num(sp.Symbol("M"), kind="array", shape=(2, 2), tag="data")), (Num(sp.Symbol("M"), kind="array", shape=(2, 2), tag="data"), z)):
        ev = ck.evaluator()
        r = ck.attempt("R1", fi.where, "np.matmul(...)", "evaluates", lambda: ev.call(fi, [uf("matmul", 2, 1), StrV("__call__"), a, b], {}, self_val=z), ev=ev)
        calls = [t for t in ev.trace if t[0] == "ufunc-call"]
        ck.same("R1", fi.where, f"np.matmul with the signal as operand {'1' if a is z else '2'}", "is refused (NotImplemented) rather than returning mislabelled data",
                isinstance(r, ExtV) and r.dotted == "builtins.NotImplemented" and not calls, found=repr(r)[:120], nontrivial=True)

    # ------------------------------------------------------------------ R2 unwrap / call / rewrap
    arr = Num(sp.Symbol("A"), kind="array", shape=(N, 2), tag="data", backend="numpy")
    sc = Num(sp.Symbol("c", real=True))
    from ..values import Hz as _Hz
    qy = Num(sp.Symbol("q", real=True) * _Hz, kind="quantity", unit=_Hz)
    z2 = make_signal(prog, "BasebandSignal", nchan=2, name="y")
    zi = make_signal(prog, "IntensitySignal", nchan=2, name="w")
    dz, dz2 = z.attrs["_data"], z2.attrs["_data"]
    plans = [
        ("np.negative(z)", uf("negative", 1, 1), [z], {}, z),
        ("np.add(z, c)", uf("add", 2, 1), [z, sc], {}, z),
        ("np.add(c, z)", uf("add", 2, 1), [sc, z], {}, z),
        ("np.multiply(A, z)", uf("multiply", 2, 1), [arr, z], {}, z),
        ("np.multiply(z, q) with a Quantity q", uf("multiply", 2, 1), [z, qy], {}, z),
        ("np.multiply(q, z) with a Quantity q", uf("multiply", 2, 1), [qy, z], {}, z),
        ("np.subtract(z, y)", uf("subtract", 2, 1), [z, z2], {}, z),
        ("np.subtract(y, z) dispatched on y", uf("subtract", 2, 1), [z2, z], {}, z2),
        ("np.multiply(z, 2, dtype=..., where=...)", uf("multiply", 2, 1), [z, Num(2)], {"dtype": ExtV("numpy.complex64"), "where": arr, "casting": StrV("unsafe")}, z),
        ("np.modf(w)", uf("modf", 1, 2), [zi], {}, zi),
        ("np.divmod(w, c)", uf("divmod", 2, 2), [zi, sc], {}, zi),
        ("np.add(z, c, out=(z,))  [z += c]", uf("add", 2, 1), [z, sc], {"out": TupleV([z])}, z),
        ("np.add(z, y, out=(y,))", uf("add", 2, 1), [z, z2], {"out": TupleV([z2])}, z),
        ("np.add(z, c, out=(A,))", uf("add", 2, 1), [z, sc], {"out": TupleV([arr])}, z),
        ("np.modf(w, out=(None, w))", uf("modf", 1, 2), [zi], {"out": TupleV([NONE, zi])}, zi),
        ("np.divide(z, y, out=(z,), where=A)", uf("divide", 2, 1), [z, z2], {"out": TupleV([z]), "where": arr}, z),
        ("np.multiply(w, c, out=(w,), casting='unsafe', dtype=...)", uf("multiply", 2, 1), [zi, sc],
         {"out": TupleV([zi]), "casting": StrV("unsafe"), "dtype": ExtV("numpy.float32")}, zi),
    ]
    # mixed precisions: NumPy's promotion decides the result dtype, and the wrapped result keeps it
    z32 = make_signal(prog, "BasebandSignal", nchan=2, name="z32", dtype="complex64")
    w32 = make_signal(prog, "IntensitySignal", nchan=2, name="w32", dtype="float32")
    s16 = make_signal(prog, "Signal", name="s16", dtype="int16")
    a64 = Num(sp.Symbol("A64"), kind="array", shape=(N, 2), tag="data", backend="numpy", dtype=ExtV("numpy.float64"))
    i64 = Num(sp.Symbol("I64"), kind="array", shape=(N,), tag="data", backend="numpy", dtype=ExtV("numpy.int64"))
    plans += [
        ("np.multiply(z32, A64): complex64 signal times float64 array", uf("multiply", 2, 1), [z32, a64], {}, z32),
        ("np.multiply(A64, z32)", uf("multiply", 2, 1), [a64, z32], {}, z32),
        ("np.add(w32, A64): float32 signal plus float64 array", uf("add", 2, 1), [w32, a64], {}, w32),
        ("np.add(w32, w): float32 signal plus float64 signal", uf("add", 2, 1), [w32, zi], {}, w32),
        ("np.add(s16, I64): int16 signal plus int64 array", uf("add", 2, 1), [s16, i64], {}, s16),
        ("np.modf(w32)", uf("modf", 1, 2), [w32], {}, w32),
    ]
    # operands of DIFFERENT signal classes (neither an instance of the other's class, or only one way round): every signal among
    # the inputs is unwrapped, whichever class dispatches
    sg = make_signal(prog, "Signal", name="sg", dtype="float64")
    rs = make_signal(prog, "RadioSignal", nchan=2, name="rs", dtype="float64")
    plans += [
        ("np.add(w, sg): an IntensitySignal plus a plain Signal, dispatched on w", uf("add", 2, 1), [zi, sg], {}, zi),
        ("np.add(sg, w): a plain Signal plus an IntensitySignal, dispatched on sg", uf("add", 2, 1), [sg, zi], {}, sg),
        ("np.multiply(z, w): a BasebandSignal times an IntensitySignal, dispatched on z", uf("multiply", 2, 1), [z, zi], {}, z),
        ("np.subtract(w, rs): an IntensitySignal minus a RadioSignal, dispatched on w", uf("subtract", 2, 1), [zi, rs], {}, zi),
        ("np.divmod(w, sg): two outputs, operands of different classes", uf("divmod", 2, 2), [zi, sg], {}, zi),
        ("np.add(w, sg, out=(w,)): in-place with an operand of another class", uf("add", 2, 1), [zi, sg], {"out": TupleV([zi])}, zi),
    ]
    dask_out_rule(ck, prog, "R2")
    scaled_dimensionless_rule(ck, prog, "R2")
    for label, ufunc, inputs, kw, selfv in plans:
        ev = ck.evaluator()
        unwrap = lambda v: v.attrs["_data"] if isinstance(v, ObjV) else v  # noqa: E731
        exp_args = [unwrap(v) for v in inputs]
        # an out= plan writes its target: the signals are shared between plans, so their state is put back afterwards
        objs = [v for v in list(inputs) + (list(kw["out"].items) if "out" in kw else []) if isinstance(v, ObjV)]
        saved = [(o, dict(o.attrs)) for o in objs]
        given_pre = list(kw["out"].items) if "out" in kw else None
        try:
            r = ck.attempt("R2", fi.where, label, "evaluates", lambda: ev.call(fi, [ufunc, StrV("__call__")] + inputs, dict(kw), self_val=selfv), ev=ev,
                           allowed_guards=[])
        finally:
            after = [(o, dict(o.attrs)) for o in objs]
            for o, a_ in saved:
                o.attrs.clear()
                o.attrs.update(a_)
        if r is None:
            continue
        calls = [t for t in ev.trace if t[0] == "ufunc-call"]
        if len(calls) != 1:
            ck.same("R2", fi.where, label, "the underlying ufunc is applied exactly once", False, found=f"{len(calls)} calls", nontrivial=True)
            continue
        _, name, cargs, ckw, node = calls[0]
        ok_args = len(cargs) == len(exp_args) and all(_same_val(a, b) for a, b in zip(cargs, exp_args))
        ck.same("R2", fi.where, label + ": inputs", "every signal among the inputs is replaced by its data array, everything else passed as is, in order",
                ok_args, found=str(cargs)[:200], expected=str(exp_args)[:200], nontrivial=True)
        nout = int(ufunc.dotted.split(":")[3])
        given = given_pre if given_pre is not None else [NONE] * nout
        if given_pre is not None:
            kw["out"].items[:] = given_pre          # (a raw array target is replaced by its written value in the caller's tuple)
        written_of = {id(t[2]): t[3] for t in ev.trace if t[0] == "out-written"}
        got_out = ckw.get("out")
        ok_out = isinstance(got_out, TupleV) and len(got_out.items) == nout and all(_same_val(a, unwrap(b)) for a, b in zip(got_out.items, given))
        if got_out is None or isinstance(got_out, NoneV):
            ok_out = all(isinstance(g, NoneV) for g in given)       # no target given: out may simply be omitted
        ck.same("R2", fi.where, label + ": outputs", "out= targets are unwrapped the same way (None where no target was given)", ok_out,
                found=repr(got_out)[:160], nontrivial=True)
        other_kw = {k: v for k, v in kw.items() if k != "out"}
        ok_kw = set(ckw) - {"out"} == set(other_kw) and all(_same_val(ckw[k], v) for k, v in other_kw.items())
        ck.same("R2", fi.where, label + ": keyword arguments", "all other keyword arguments reach the ufunc unchanged (dtype, where, casting, ...)",
                ok_kw, found=str(sorted(set(ckw) - {'out'})), expected=str(sorted(other_kw)), nontrivial=True)
        results = list(r.items) if isinstance(r, TupleV) else [r]
        ck.same("R2", fi.where, label + ": arity", "one result per ufunc output (a tuple only for multi-output ufuncs)",
                len(results) == nout and (isinstance(r, TupleV) == (nout > 1)), found=repr(r)[:120])
        for k, (res, g) in enumerate(zip(results, given)):
            if isinstance(g, NoneV):
                ok = isinstance(res, ObjV) and res.cls is selfv.cls and not meta_same(selfv, res) and isinstance(res.attrs["_data"], Num) \
                    and str(res.attrs["_data"].expr).startswith(f"Ufunc_{name}_{k}(") \
                    and not [t for t in ev.trace if t[0] == "subclass-stripped"]
                ck.same("R2", fi.where, label + f": result {k}", "wrapped in the class and metadata of the dispatching signal, holding that ufunc output",
                        ok, found=obj_summary(res) if isinstance(res, ObjV) else repr(res)[:120], nontrivial=True)
                from ..extapi import ufunc_result_dtype
                want_dt = ufunc_result_dtype(name, cargs, ckw)
                got_dt = res.attrs["_data"].dtype if isinstance(res, ObjV) and isinstance(res.attrs.get("_data"), Num) else None
                if isinstance(want_dt, ExtV) and ok:
                    ck.same("R2", fi.where, label + f": result {k} dtype", "the wrapped data has the dtype NumPy gave the ufunc output (no narrowing back to the operand's precision)",
                            isinstance(got_dt, ExtV) and got_dt.dotted == want_dt.dotted, found=repr(got_dt), expected=repr(want_dt), nontrivial=True)
            else:
                ck.same("R2", fi.where, label + f": result {k}", "the given out object itself is returned (its own metadata is kept)", res is g or res is written_of.get(id(g)),
                        found=repr(res)[:120], nontrivial=True)

    # ------------------------------------------------------------------ R3 protocol methods
    fa = prog.func("Signal.__array__")
    run.touched(fa)
    params = fa.params()
    dfl = fa.defaults()
    names = [p for p, _ in params[1:]]
    ok = names[:2] == ["dtype", "copy"] and all(isinstance(dfl.get(n), ast.Constant) and dfl[n].value is None for n in ("dtype", "copy"))
    ck.same("R3", fa.where, norm(fa.node).split("\n")[0], "__array__ accepts the NumPy protocol arguments (dtype=None, copy=None)", ok,
            found=str(names), nontrivial=True)
    for dt in (None, "float32"):
        ev = ck.evaluator()
        kw = {} if dt is None else {"dtype": ExtV("numpy." + dt)}
        r = ck.attempt("R3", fa.where, f"np.asarray(z{'' if dt is None else ', dtype=' + dt})", "evaluates", lambda: ev.call(fa, [], kw, self_val=z), ev=ev)
        if r is not None:
            ok = isinstance(r, Num) and r.expr == dz.expr and (dt is None or (isinstance(r.dtype, ExtV) and r.dtype.dotted == "numpy." + dt))
            ck.same("R3", fa.where, f"np.asarray(z{'' if dt is None else ', dtype=' + dt})", "yields the signal's data (converted to the requested dtype)",
                    ok, found=f"{r!r} dtype={getattr(r, 'dtype', None)!r}", nontrivial=True)
    array_copy_protocol(ck, prog, "R3", z)
    fl = prog.func("Signal.__len__")
    ev = ck.evaluator()
    r = ck.attempt("R3", fl.where, "len(z)", "evaluates", lambda: ev.call(fl, [], {}, self_val=z), ev=ev)
    if r is not None:
        ck.eq("R3", fl.where, "len(z)", "is the length of the data", r, N)
    run.extra["decided_by"] = ck.how





def scaled_dimensionless_rule(ck, prog, rule):
    """An operand like 50*u.percent or 0.001*u.kHz/u.Hz is a NUMBER with a scale: with or without out=, on either back end, what
    reaches the arithmetic is its physical value (0.5, 1), never the bare number in front of the unit."""
    fi = prog.func("Signal.__array_ufunc__")
    half = sp.Rational(1, 2)
    for backend in ("numpy", "dask"):
        for label, kwf in (("np.add(z, 50*u.percent)", lambda z: {}), ("z += 50*u.percent  [np.add(z, q, out=(z,))]", lambda z: {"out": TupleV([z])})):
            z = make_signal(prog, "IntensitySignal", nchan=2, dtype="float64", backend=backend)
            q = Num(half, kind="quantity", unit=sp.Rational(1, 100))
            ev = ck.evaluator()
            tag = f"{label} [{backend}]"
            try:
                ev.call(fi, [uf("add", 2, 1), StrV("__call__"), z, q], kwf(z), self_val=z)
            except Raised as e:
                ck.same(rule, fi.where, tag, "a dimensionless operand is accepted", False, found=str(e)[:120], nontrivial=True)
                continue
            except Unsupported as e:
                ck.unk(rule, fi.where, tag, "evaluates", str(e)[:200])
                continue
            calls = [t for t in ev.trace if t[0] == "ufunc-call" and t[1] == "add"]
            ops = [a for t in calls for a in t[2][1:2] if isinstance(a, Num)]
            ok = bool(ops) and all(sp.simplify(o.expr - half) == 0 for o in ops)
            ck.same(rule, fi.where, tag, "the operand enters the arithmetic with its physical value 1/2 (not the 50 in front of the percent sign)", ok,
                    found=str([str(o.expr) for o in ops]) or "no add at all", nontrivial=True)


def dask_out_rule(ck, prog, rule):
    """Dask-backed signals as out= targets: Dask "fills" an out= array by re-pointing it at the result (dtype included), and its
    multi-output ufuncs take no out= at all; the signal named as target must nevertheless end up as NumPy would leave it
    (own dtype kept, or the operation refused with TypeError)."""
    fi = prog.func("Signal.__array_ufunc__")
    ck.run.touched(fi)
    a64 = Num(sp.Symbol("A64"), kind="array", shape=(N, 2), tag="data", backend="numpy", dtype=ExtV("numpy.float64"))
    sc = Num(sp.Symbol("c", real=True))
    cj = Num(sp.I)

    def mk(cls, dt, name):          # a fresh target per plan: a target re-pointed by one plan must not be the next plan's input
        return make_signal(prog, cls, nchan=2, name=name, dtype=dt, backend="dask")
    plans = [
        ("np.add(zd32, A64, out=(zd32,)) on Dask data  [zd32 += A64]", uf("add", 2, 1), lambda z: [z, a64], lambda z: [z], ("BasebandSignal", "complex64")),
        ("np.add(wd32, c, out=(wd32,)) on Dask data  [wd32 += c]", uf("add", 2, 1), lambda z: [z, sc], lambda z: [z], ("IntensitySignal", "float32")),
        ("np.multiply(wd32, 1j, out=(wd32,)) on Dask data  [wd32 *= 1j]", uf("multiply", 2, 1), lambda z: [z, cj], lambda z: [z], ("IntensitySignal", "float32")),
        ("np.greater(wd64, c, out=(wd64,)) on Dask data", uf("greater", 2, 1), lambda z: [z, sc], lambda z: [z], ("IntensitySignal", "float64")),
        ("np.modf(wd32, out=(None, wd64)) on Dask data", uf("modf", 1, 2), lambda z: [z], lambda z: [NONE, mk("IntensitySignal", "float64", "wd64")], ("IntensitySignal", "float32")),
        # the target decides what it may hold: its class (not the class of the first operand) validates the new contents
        ("np.absolute(zb64, out=(w32,)) on Dask data: a BasebandSignal operand, an IntensitySignal target", uf("absolute", 1, 1), lambda z: [z],
         lambda z: [mk("IntensitySignal", "float32", "w32")], ("BasebandSignal", "complex64")),
        ("np.add(w32, c, out=(r32,)) on Dask data: an IntensitySignal operand, a RadioSignal target", uf("add", 2, 1), lambda z: [z, sc],
         lambda z: [mk("RadioSignal", "float32", "r32")], ("IntensitySignal", "float32")),
        ("np.add(wd32, B(3, N, 2), out=(wd32,)) on Dask data: the result is larger than the target", uf("add", 2, 1),
         lambda z: [z, Num(sp.Symbol("B3"), kind="array", shape=(sp.Integer(3), N, 2), tag="data", backend="numpy", dtype=ExtV("numpy.float32"))], lambda z: [z],
         ("IntensitySignal", "float32")),
    ]
    for label, ufunc, ins, outs, (cls, dt) in plans:
        z = mk(cls, dt, "zd")
        dask_out_plan(ck, prog, fi, ck.evaluator(), label, ufunc, ins(z), {"out": TupleV(outs(z))}, z, rule)
    # ... also when only a SAMPLE axis differs (the time axes agree): a (N, 1) target cannot hold a (N, 4) result
    s1 = make_signal(prog, "Signal", name="s1", dtype="float32", backend="dask", extra=(sp.Integer(1),))
    b4 = Num(sp.Symbol("B4"), kind="array", shape=(N, 4), tag="data", backend="numpy", dtype=ExtV("numpy.float32"))
    dask_out_plan(ck, prog, fi, ck.evaluator(), "np.add(s1, B(N, 4), out=(s1,)) on Dask data, s1 of shape (N, 1): the result is larger than the target along a sample axis",
                  uf("add", 2, 1), [s1, b4], {"out": TupleV([s1])}, s1, rule)
    # a refused multi-output call leaves EVERY target as it was (all targets are checked before any is written)
    z = mk("IntensitySignal", "float64", "zd")
    t1 = mk("IntensitySignal", "float64", "t1")
    t2 = make_signal(prog, "Signal", name="t2", dtype="int64", backend="dask", extra=(sp.Integer(2),))
    ev = ck.evaluator()
    d1, d2 = t1.attrs["_data"], t2.attrs["_data"]
    label = "np.modf(z, out=(t1, t2)) on Dask data, t2 an int64 signal (float64 into int64 is refused)"
    try:
        ev.call(fi, [uf("modf", 1, 2), StrV("__call__"), z], {"out": TupleV([t1, t2])}, self_val=z)
        ck.same(rule, fi.where, label, "the call is refused with TypeError", False, found="accepted", nontrivial=True)
    except Raised as e:
        untouched = t1.attrs["_data"] is d1 and t2.attrs["_data"] is d2
        ck.same(rule, fi.where, label, "refused with TypeError, and no target has been written when the refusal is raised (check all, then write all)",
                e.exc_name in ("TypeError", "UFuncTypeError") and untouched,
                found=f"{e.exc_name}; first target {'untouched' if t1.attrs['_data'] is d1 else 'ALREADY OVERWRITTEN'}", nontrivial=True)
    except Unsupported as e:
        ck.unk(rule, fi.where, label, "evaluates", str(e)[:200])
    # where= on a Dask-backed target: the kept elements are blended with the result AFTER it has the target's dtype (a blend of a
    # uint64 result with int64 contents would be carried out in float64 and lose the low bits above 2**53)
    si = make_signal(prog, "Signal", name="si", dtype="int64", backend="dask", extra=(sp.Integer(2),))
    su = make_signal(prog, "Signal", name="su", dtype="uint64", backend="dask", extra=(sp.Integer(2),))
    au = Num(sp.Symbol("AU"), kind="array", shape=(N, 2), tag="data", backend="numpy", dtype=ExtV("numpy.uint64"))
    mask = Num(sp.Symbol("MASK"), kind="array", shape=(N, 2), tag="data", backend="numpy", dtype=ExtV("numpy.bool_"))
    ev = ck.evaluator()
    d_si = si.attrs["_data"]
    label = "np.add(su, AU, out=(si,), where=MASK) on Dask data: uint64 result into an int64 target"
    try:
        ev.call(fi, [uf("add", 2, 1), StrV("__call__"), su, au], {"out": TupleV([si]), "where": mask}, self_val=su)
        wc = [t for t in ev.trace if t[0] == "where-call"]
        blended = [t for t in wc if isinstance(t[2], Num)]
        okw = bool(blended) and all(isinstance(t[2].dtype, ExtV) and t[2].dtype.dotted == "numpy.int64" for t in blended)
        ck.same(rule, fi.where, label, "the result is cast to the target's dtype before it is blended with the target's old contents", okw,
                found=str([repr(getattr(t[2], "dtype", None)) for t in wc]) or "no blend at all", nontrivial=True)
        # ... and the elements the mask leaves out keep the TARGET's old contents (not those of the first operand)
        kept = [t[3] for t in wc if len(t) > 3 and isinstance(t[3], Num)]
        okk = bool(kept) and all(k_.expr == d_si.expr for k_ in kept)
        ck.same(rule, fi.where, label + ": unselected elements", "where the mask is False the target keeps its own old contents", okk,
                found=str([str(k_.expr)[:40] for k_ in kept]) or "no blend at all", expected=str(d_si.expr), nontrivial=True)
    except Raised as e:
        ck.same(rule, fi.where, label, "same_kind casting allows uint64 into int64: carried out", False, found=str(e)[:120], nontrivial=True)
    except Unsupported as e:
        ck.unk(rule, fi.where, label, "evaluates", str(e)[:200])
    ck.run.floor(rule, "out=/in-place forms with a Dask-backed signal as target", len(plans), 6)

def dask_out_plan(ck, prog, fi, ev, label, ufunc, inputs, kw, selfv, rule="R2"):
    """One out=/in-place call whose target is a Dask-backed signal.  Acceptable outcomes are NumPy's: TypeError when the result
    cannot be cast to the target's dtype under same_kind, otherwise the very target object handed back, still of its class, with
    its own dtype, shape and metadata, its data holding that ufunc output."""
    from ..extapi import ufunc_result_dtype
    targets = [t for t in kw["out"].items if isinstance(t, ObjV)]
    before = {id(t): (t.attrs["_data"].dtype, t.attrs["_data"].shape, dict(t.attrs)) for t in targets}
    unwrap = lambda v: v.attrs["_data"] if isinstance(v, ObjV) else v  # noqa: E731
    res_dt = ufunc_result_dtype(ufunc.dotted.split(":")[1], [unwrap(v) for v in inputs], {})
    castable = {}
    for t in targets:
        a, b = _dtype_short(res_dt), _dtype_short(before[id(t)][0])
        import numpy as _np
        castable[id(t)] = bool(_np.can_cast(_np.dtype(a), _np.dtype(b), casting="same_kind")) if a and b else None
    try:
        r = ev.call(fi, [ufunc, StrV("__call__")] + inputs, dict(kw), self_val=selfv)
    except Raised as e:
        refused_ok = (e.exc_name in ("TypeError", "UFuncTypeError") and any(v is False for v in castable.values())) or \
            (e.exc_name == "ValueError" and "larger than the target" in label)
        ck.same(rule, fi.where, label, "a result that cannot be cast to the target's dtype is refused with TypeError, one of another shape with ValueError; everything else is carried out",
                refused_ok, found=str(e)[:160], nontrivial=True)
        return
    except Unsupported as e:
        ck.unk(rule, fi.where, label, "evaluates", str(e)[:200])
        return
    results = list(r.items) if isinstance(r, TupleV) else [r]
    given = list(kw["out"].items)
    for k, (res, g) in enumerate(zip(results, given)):
        if not isinstance(g, ObjV):
            continue
        d = g.attrs["_data"]
        dt0, shp0, attrs0 = before[id(g)]
        keeps = isinstance(d, Num) and isinstance(d.dtype, ExtV) and isinstance(dt0, ExtV) and d.dtype.dotted == dt0.dotted
        meta_kept = all(g.attrs.get(k_) is v_ for k_, v_ in attrs0.items() if k_ != "_data")
        shape_kept = isinstance(d, Num) and d.shape is not None and shp0 is not None and tuple(d.shape) == tuple(shp0)
        holds = isinstance(d, Num) and f"Ufunc_{ufunc.dotted.split(':')[1]}_{k}(" in str(d.expr)
        ok = res is g and keeps and meta_kept and castable[id(g)] is not False and shape_kept and holds and "larger than the target" not in label
        why = []
        if not shape_kept:
            why.append(f"the target's data now has shape {getattr(d, 'shape', None)} (was {shp0})")
        if not holds:
            why.append(f"the target's data does not hold that ufunc output: {str(getattr(d, 'expr', d))[:60]}")
        if "larger than the target" in label:
            why.append("a result of another shape was accepted")
        if res is not g:
            why.append("another object is handed back")
        if not keeps:
            why.append(f"the target's data now has dtype {getattr(d, 'dtype', None)!r} (was {dt0!r})")
        if castable[id(g)] is False:
            why.append(f"a {_dtype_short(res_dt)} result was put into a {_dtype_short(dt0)} signal without complaint")
        if not meta_kept:
            why.append("metadata changed")
        ck.same(rule, fi.where, label + f": target {k}", "the Dask-backed target is left as NumPy would leave it: same object, its own dtype and metadata "
                "(a result of another kind is refused, never adopted)", ok, found="; ".join(why) or None, nontrivial=True)


def _dtype_short(dt):
    return dt.dotted.split(".")[-1] if isinstance(dt, ExtV) and dt.dotted.startswith("numpy.") else None

def array_copy_protocol(ck, prog, rule, z=None):
    """The copy argument of the __array__ protocol: NumPy 2 calls __array__(copy=True) for np.array(z) / np.copy(z) /
    np.nan_to_num(z) and trusts the result to be a fresh array; handing back the signal's own buffer makes the caller's later
    in-place writes land in the signal."""
    fa = prog.func("Signal.__array__")
    ck.run.touched(fa)
    if z is None:
        z = make_signal(prog, "BasebandSignal", nchan=2)
    dz = z.attrs["_data"]
    for cp, want_fresh in ((BoolV(True), True), (NONE, False)):
        ev = ck.evaluator()
        lab = f"z.__array__(copy={'True' if want_fresh else 'None'})"
        r = ck.attempt(rule, fa.where, lab, "evaluates", lambda: ev.call(fa, [], {"copy": cp}, self_val=z), ev=ev)
        if r is not None and isinstance(r, Num):
            if want_fresh:
                ck.same(rule, fa.where, lab, "returns a new array, never the signal's own buffer", r is not z.attrs["_data"] and r.expr == dz.expr,
                        found="the signal's own data object" if r is z.attrs["_data"] else repr(r)[:80], nontrivial=True)
            else:
                ck.same(rule, fa.where, lab, "yields the signal's data", r.expr == dz.expr, found=repr(r)[:80])
    # np.array(z, dtype=z.dtype) / np.array(z, dtype=complex, copy=True): a dtype that needs no conversion does not cancel the copy request
    z2 = make_signal(prog, "BasebandSignal", nchan=2, dtype="complex128")
    d2 = z2.attrs["_data"]
    ev = ck.evaluator()
    lab = "z.__array__(dtype=<z's own dtype>, copy=True)"
    r = ck.attempt(rule, fa.where, lab, "evaluates", lambda: ev.call(fa, [], {"dtype": ExtV("numpy.complex128"), "copy": BoolV(True)}, self_val=z2), ev=ev)
    if r is not None and isinstance(r, Num):
        ck.same(rule, fa.where, lab, "returns a new array, never the signal's own buffer (the copy flag is honoured whatever dtype is asked for)",
                r is not d2 and r.expr == d2.expr, found="the signal's own data object" if r is d2 else repr(r)[:80], nontrivial=True)

def _same_val(a, b):
    if a is b:
        return True
    if isinstance(a, Num) and isinstance(b, Num):
        # a Python scalar turned into a 0-d array is *not* the same operand: NumPy promotes weak scalars and typed
        # arrays differently (float32 data * 0.1 stays float32, float32 data * array(0.1) becomes float64)
        scalar_a = a.kind in ("number",) and not a.shape
        scalar_b = b.kind in ("number",) and not b.shape
        return a.expr == b.expr and scalar_a == scalar_b and (a.kind == "quantity") == (b.kind == "quantity")
    if isinstance(a, NoneV) and isinstance(b, NoneV):
        return True
    if isinstance(a, StrV) and isinstance(b, StrV):
        return a.s == b.s
    if isinstance(a, ExtV) and isinstance(b, ExtV):
        return a.dotted == b.dotted
    return False
