"""C11 - Readers are position-faithful, stateless and agree with the underlying file."""
from __future__ import annotations

import ast
import sympy as sp

from ..spec import Checker, FR, obj_summary
from ..values import Num, StrV, NONE, ExtV, ObjV, TupleV, DictV, NoneV, BoolV, ClassV, Hz, F, ListV, SliceV
from ..extapi import HandleV, HeaderV, NdArr
from ..symeval import Raised, Evaluator
from ..values import Unsupported
from ..model import norm
from ..sign import facts_nonneg, is_nonneg
from .c19 import reader_factor_agreement, explicit_definition

EXPLANATION = (
    "The reader classes are evaluated by the term evaluator against a model of the baseband stream reader (an object with the "
    "attributes the readers consult - complex_data, shape, sample_rate, start_time, header0 - whose seek/read calls are logged and "
    "whose read returns an opaque FileData(position, count) term).  Constructors and read()/dask_read() run through the package's own "
    "code for real-sampled, complex (upper/lower sideband, per-element sideband mask) and intensity data and for the GUPPI and DADA "
    "Stokes readers. Obligations: the three range guards are the only ways to be refused and establish 0 <= offset, 0 <= n, "
    "offset + n <= len; the values reaching the file are the operator.index-normalised offset and count (times the real-sample "
    "factor 2, which must agree with the rate and length divisors); the signal's start time is time_at(offset) = start + "
    "offset/sample_rate and offset_at inverts it; every read is preceded by a seek on a handle that is opened for that read, closed "
    "afterwards and never stored on the reader; the reader's attributes are identical before and after any sequence of reads and "
    "repeating a read yields the identical term (statelessness); Dask reads build the same term and declare the eager dtype/shape; "
    "axis order, sideband conjugation/channel flip and frequency metadata follow the header. A custom Dask tokeniser on a reader "
    "must cover every attribute the read path consults. Decoding inside baseband and real concurrency are not decided."
)

L = sp.Symbol("L", integer=True, positive=True)
FS = sp.Symbol("FS", positive=True)
TS = sp.Symbol("TS", real=True)
o = sp.Symbol("o", integer=True)
n = sp.Symbol("n", integer=True)


def file_model(complex_data, sample_shape, dtype, header=None):
    log = []

    def fm(ev, args, kwargs):
        attrs = {"complex_data": BoolV(complex_data), "shape": TupleV([Num(L)] + [Num(s) for s in sample_shape]),
                 "sample_rate": Num(FS * Hz, kind="quantity"), "start_time": Num(TS / Hz, kind="time"),
                 "header0": header if header is not None else NONE}
        h = HandleV(attrs, [sp.sympify(s) for s in sample_shape], ExtV("numpy." + dtype), log)
        log.append(("open", tuple(a.s if isinstance(a, StrV) else str(a) for a in args), dict(kwargs), id(h)))
        return h
    return fm, log


def snapshot(obj):
    out = {}
    for k, v in obj.attrs.items():
        out[k] = repr(v)
    return out


def check(run, prog):
    run.explanation = EXPLANATION
    run.assumptions += ["the baseband stream reader behaves as the model in pbverif/props/c11.py (seek/read by sample position)"]
    ck = Checker(run, prog)
    f_read = prog.func("BaseReader.read")
    f_dread = prog.func("BaseReader.dask_read")
    f_rb = prog.func("BasebandReader._read_baseband")
    f_time_at = prog.func("BaseReader.time_at")
    f_off_at = prog.func("BaseReader.offset_at")
    for f in (f_read, f_dread, f_rb, f_time_at, f_off_at, prog.func("BaseReader._read_data"), prog.func("BasebandReader.__init__")):
        run.touched(f)
    P, C = sp.Symbol("P", integer=True, positive=True), sp.Symbol("C", integer=True, positive=True)
    cf = sp.Symbol("cf", real=True)
    skw_bb = DictV({"center_freq": Num(cf * Hz, kind="quantity")})
    skw_int = DictV({"center_freq": Num(cf * Hz, kind="quantity"), "chan_bw": Num(FS * Hz, kind="quantity")})
    mask = NdArr((2,), [BoolV(True), BoolV(False)])
    mask_int = NdArr((2,), [Num(1), Num(0)])           # flags written as integers: the same channels, selected by truth value
    mask_int.dtype = ExtV("numpy.int64")
    scen = [
        ("real-sampled baseband", "BasebandReader", False, (2,), "float32", {"signal_type": "BasebandSignal", "signal_kwargs": skw_bb}, 2, "complex64"),
        ("complex baseband, upper sideband", "BasebandReader", True, (2,), "complex64", {"signal_type": "BasebandSignal", "signal_kwargs": skw_bb}, 1, "complex64"),
        ("complex baseband, lower sideband", "BasebandReader", True, (2,), "complex64",
         {"signal_type": "BasebandSignal", "signal_kwargs": skw_bb, "lower_sideband": BoolV(True)}, 1, "complex64"),
        ("complex baseband, per-channel sideband mask", "BasebandReader", True, (2,), "complex64",
         {"signal_type": "BasebandSignal", "signal_kwargs": skw_bb, "lower_sideband": mask}, 1, "complex64"),
        ("complex baseband, per-channel sideband mask with every flag set", "BasebandReader", True, (2,), "complex64",
         {"signal_type": "BasebandSignal", "signal_kwargs": skw_bb, "lower_sideband": NdArr((2,), [BoolV(True), BoolV(True)])}, 1, "complex64"),
        ("complex baseband, per-channel sideband mask given as 1/0 integers", "BasebandReader", True, (2,), "complex64",
         {"signal_type": "BasebandSignal", "signal_kwargs": skw_bb, "lower_sideband": mask_int}, 1, "complex64"),
        ("intensity data (lower sideband flag set)", "BasebandReader", False, (2,), "float32",
         {"signal_type": "IntensitySignal", "signal_kwargs": skw_int, "lower_sideband": BoolV(True)}, 1, "float32"),
    ]
    for label, clsname, cplx, sshape, fdtype, kwargs, factor, out_dtype in scen:
        fm, log = file_model(cplx, sshape, fdtype)
        kw = {k: (ClassV(prog.cls(v)) if k == "signal_type" else v) for k, v in kwargs.items()}
        ev = ck.evaluator()
        ev.file_model = fm
        r = ck.attempt("R4", prog.func("BasebandReader.__init__").where, f"BasebandReader(...) [{label}]", "constructs against the file model",
                       lambda: ev.construct(prog.cls(clsname), [StrV("file")], kw, FR()), ev=ev, allowed_guards=["ValueError"])
        if r is None:
            continue
        reader_checks(ck, prog, ev, r, log, label, factor, out_dtype, sshape, FS / factor, sp.floor(L / factor) if factor != 1 else L,
                      conj=("lower sideband" in label and "complex" in label), masked=("mask" in label))
    guppi_dada(ck, prog, run)
    time_at_offset_at(ck, prog, run)
    statelessness_structure(ck, prog, run)
    memo_results_untouched(ck, prog, run)
    single_read_per_request(ck, prog, "R2")
    delayed_names_rule(ck, prog, "R2")
    reader_factor_agreement(ck, prog, "R4")
    # what a real-sampled reader hands to real_to_complex: 2n real samples along axis 0 (n = 1 is the one-sample read), any sample shape
    fi_r2c = prog.func("real_to_complex")
    run.touched(fi_r2c)
    plans = [((2,), 0), ((4,), 0), ((6,), 0), ((2, 2), 0), ((4, 2), 0), ((2, 1, 2), 0)]
    if run.tier != "quick":
        plans += [((8,), 0), ((10,), 0), ((6, 2), 0), ((4, 2, 2), 0)]
    explicit_definition(ck, prog, fi_r2c, "R4", plans=plans, floor=len(plans))
    run.extra["decided_by"] = ck.how


def reader_checks(ck, prog, ev, r, log, label, factor, out_dtype, sshape, sr_expected, len_expected, conj=False, masked=False,
                  data_expect=None, out_shape=None):
    f_read = prog.func("BaseReader.read")
    f_dread = prog.func("BaseReader.dask_read")
    init = prog.func("BasebandReader.__init__")
    tag = f"[{label}]"
    ck.eq("R4", init.where, "reader sample_rate " + tag, f"file rate / {factor}", r.attrs["_sample_rate"].expr, sr_expected * Hz)
    ck.eq("R4", init.where, "reader length " + tag, f"file length // {factor}", r.attrs["_shape"].items[0].expr, len_expected)
    ck.same("R4", init.where, "reader dtype " + tag, f"declared dtype is {out_dtype}", isinstance(r.attrs["_dtype"], ExtV) and r.attrs["_dtype"].dotted == "numpy." + out_dtype,
            found=repr(r.attrs["_dtype"]))
    ck.eq("R4", init.where, "reader start_time " + tag, "the file's start time", r.attrs["_start_time"].expr, TS / Hz)
    ck.same("R3", init.where, "reader attributes " + tag, "no file handle is kept on the reader object",
            not any(isinstance(v, HandleV) for v in r.attrs.values()), found=str([k for k, v in r.attrs.items() if isinstance(v, HandleV)]))
    before = snapshot(r)
    del log[:]
    s1 = ck.attempt("R1", f_read.where, "read(o, n) " + tag, "evaluates for symbolic integer offset and count",
                    lambda: ev.call(f_read, [Num(o), Num(n)], {}, self_val=r), ev=ev, allowed_guards=["ValueError", "OutOfBoundsError"])
    if s1 is None:
        return
    fr = ev.last_frame
    guards = [(g[1], g[2]) for g in ev.guard_log if g[0] in ("BaseReader.read", "read")]
    known = facts_nonneg(fr.facts)
    n_len = r.attrs["_shape"].items[0].expr
    ok = is_nonneg(o, known) and is_nonneg(n, known) and is_nonneg(sp.expand(n_len - o - n), known)
    ck.same("R1", f_read.where, "range guards " + tag, "reaching the file implies 0 <= offset, 0 <= n and offset + n <= len (requests outside [0, len] raise)",
            ok, found=f"facts: {[str(f)[:60] for f in fr.facts]}", nontrivial=True)
    ck.same("R1", f_read.where, "refusal exceptions " + tag, "negative arguments raise ValueError, reads past the end raise OutOfBoundsError (an EOFError)",
            sorted(e for _, e in guards) == ["OutOfBoundsError", "ValueError", "ValueError"], found=str(guards), nontrivial=True)
    ops = [e for e in log if e[0] in ("seek", "read", "read-without-seek")]
    seeks = [e for e in log if e[0] == "seek"]
    reads = [e for e in log if e[0] == "read"]
    ck.same("R3", prog.func("BasebandReader._read_baseband").where, "handle discipline " + tag,
            "one handle is opened for the read, positioned with seek before the single read, and closed afterwards",
            len(seeks) == 1 and len(reads) == 1 and not [e for e in log if e[0] == "read-without-seek"]
            and log.index(seeks[0]) < log.index(reads[0]) and seeks[0][-1] == reads[0][-1]
            and any(e[0] == "close" and e[-1] == reads[0][-1] for e in log[log.index(reads[0]):]),
            found=str([(e[0],) + tuple(str(x) for x in e[1:-1]) for e in log]), nontrivial=True)
    if seeks and reads:
        ck.eq("R4", prog.func("BasebandReader._read_baseband").where, "seek position " + tag, f"{factor} * offset (file samples per output sample)", seeks[0][1].expr, factor * o)
        ck.eq("R4", prog.func("BasebandReader._read_baseband").where, "read count " + tag, f"{factor} * n", reads[0][2].expr, factor * n)
        ck.same("R1", f_read.where, "normalised arguments " + tag, "the offset and count used for the file access and the time stamp went through operator.index",
                _pyint_flow(ev, r, prog), found="an argument reaches _read_data/time_at without operator.index normalisation", nontrivial=True)
    ck.eq("R1", f_read.where, "start_time of the result " + tag, "== time_at(offset) = start_time + offset/sample_rate",
          s1.attrs["_start_time"].expr, (TS + o / sr_expected) / Hz)
    ck.eq("R1", f_read.where, "sample_rate of the result " + tag, "the reader's sample rate", s1.attrs["_sample_rate"].expr, sr_expected * Hz)
    d = s1.attrs["_data"]
    if isinstance(d, Num) and d.shape:
        ck.eq("R1", f_read.where, "length of the result " + tag, "exactly n samples", d.shape[0], n, constraints=lambda pt: dict(pt, **{}) if True else pt)
        ck.same("R1", f_read.where, "dtype of the result " + tag, f"{out_dtype}", isinstance(d.dtype, ExtV) and d.dtype.dotted == "numpy." + out_dtype, found=repr(d.dtype))
    raw = F["Opq"](sp.Symbol("FileData"), factor * o, factor * n)
    if data_expect is not None:
        ck.eq("R5", f_read.where, "data term " + tag, data_expect[1], d.expr, data_expect[0](raw))
    elif factor == 1 and isinstance(d, Num):
        if masked:
            stores = [t for t in ev.trace if t[0] == "store"]
            pat = "mask_11" if "every flag set" in tag else "mask_10"
            ok = len(stores) >= 1 and pat in str(stores[-1][2]) or any(pat in str(t) for t in stores)
            okv = stores and isinstance(stores[-1][3], Num) and stores[-1][3].expr.has(sp.conjugate)
            whole = "every flag set" in tag and d.expr == sp.conjugate(raw)        # a uniform mask may also be served by conjugating everything

            def selects_all(ix):
                its = ix.items if isinstance(ix, TupleV) else [ix]
                return all((isinstance(i_, SliceV) and all(isinstance(q_, NoneV) for q_ in (i_.start, i_.stop, i_.step))) or (isinstance(i_, BoolV) and i_.b)
                           for i_ in its)
            if "every flag set" in tag and stores and all(selects_all(t[2]) for t in stores) \
                    and all(isinstance(t[3], Num) and t[3].expr.has(sp.conjugate) for t in stores):
                whole = True            # z[:, True] = z[:, True].conj(): a scalar True as index selects everything
            ck.same("R5", prog.func("BasebandReader._read_baseband").where, "masked conjugation " + tag,
                    "only the lower-sideband elements are conjugated, in the freshly read buffer", (bool(ok and okv) and d.expr == raw) or whole,
                    found=str([(str(t[2])[:60], str(t[3])[:60]) for t in stores]), nontrivial=True)
        else:
            ck.eq("R5", prog.func("BasebandReader._read_baseband").where, "data term " + tag,
                  "the file's samples, complex-conjugated for lower-sideband baseband data and untouched for intensity data / upper sideband",
                  d.expr, sp.conjugate(raw) if conj else raw)
    # statelessness: attributes unchanged; repeating the read after another one gives the identical term
    o2, n2 = sp.Symbol("o2", integer=True), sp.Symbol("n2", integer=True)
    s2 = ck.attempt("R3", f_read.where, "read(o2, n2) " + tag, "evaluates", lambda: ev.call(f_read, [Num(o2), Num(n2)], {}, self_val=r), ev=ev,
                    allowed_guards=["ValueError", "OutOfBoundsError"])
    s3 = ck.attempt("R3", f_read.where, "read(o, n) again " + tag, "evaluates", lambda: ev.call(f_read, [Num(o), Num(n)], {}, self_val=r), ev=ev,
                    allowed_guards=["ValueError", "OutOfBoundsError"])
    after = snapshot(r)
    ck.same("R3", f_read.where, "reader state after reads " + tag, "every attribute of the reader is identical before and after any sequence of reads",
            before == after, found=str({k: (before.get(k), after.get(k)) for k in set(before) | set(after) if before.get(k) != after.get(k)})[:300],
            nontrivial=True)
    if s3 is not None:
        same = _subst_fills(s3.attrs["_data"].expr) == _subst_fills(d.expr) and sp.simplify(s3.attrs["_start_time"].expr - s1.attrs["_start_time"].expr) == 0
        ck.same("R3", f_read.where, "repeated read " + tag, "the same (offset, n) yields the identical data term and time stamp regardless of the reads in between",
                bool(same), found=str(s3.attrs["_data"].expr)[:160], nontrivial=True)
    dask_read_checks(ck, prog, ev, r, tag, o, n, d, s1, "R2")
    zero_length_reads(ck, prog, ev, r, tag)


def lazy_reads_rule(ck, prog, rule):
    """For C09: the reader configurations of C11 (real-sampled, complex with a per-channel sideband mask, intensity), lazy read against eager read."""
    from ..symeval import Evaluator
    P, C = sp.Symbol("P", integer=True, positive=True), sp.Symbol("C", integer=True, positive=True)
    cf = sp.Symbol("cf", real=True)
    skw_bb = DictV({"center_freq": Num(cf * Hz, kind="quantity")})
    skw_int = DictV({"center_freq": Num(cf * Hz, kind="quantity"), "chan_bw": Num(FS * Hz, kind="quantity")})
    mask = NdArr((2,), [BoolV(True), BoolV(False)])
    f_read = prog.func("BaseReader.read")
    o, n = sp.Symbol("o", integer=True), sp.Symbol("n", integer=True)
    for label, cplx, fdtype, kwargs in (
            ("real-sampled baseband", False, "float32", {"signal_type": "BasebandSignal", "signal_kwargs": skw_bb}),
            ("complex baseband, per-channel sideband mask", True, "complex64", {"signal_type": "BasebandSignal", "signal_kwargs": skw_bb, "lower_sideband": mask}),
            ("complex baseband, lower sideband", True, "complex64", {"signal_type": "BasebandSignal", "signal_kwargs": skw_bb, "lower_sideband": BoolV(True)}),
            ("intensity data", False, "float32", {"signal_type": "IntensitySignal", "signal_kwargs": skw_int})):
        fm, log = file_model(cplx, (2,), fdtype)
        kw = {k: (ClassV(prog.cls(v)) if k == "signal_type" else v) for k, v in kwargs.items()}
        ev = ck.evaluator()
        ev.file_model = fm
        r = ck.attempt(rule, prog.func("BasebandReader.__init__").where, f"BasebandReader(...) [{label}]", "constructs against the file model",
                       lambda: ev.construct(prog.cls("BasebandReader"), [StrV("file")], kw, FR()), ev=ev, allowed_guards=["ValueError"])
        if r is None:
            continue
        tag = f"[{label}]"
        s1 = ck.attempt(rule, f_read.where, "read(o, n) " + tag, "evaluates", lambda: ev.call(f_read, [Num(o), Num(n)], {}, self_val=r), ev=ev,
                        allowed_guards=["ValueError", "OutOfBoundsError"])
        if s1 is None or not isinstance(s1.attrs.get("_data"), Num):
            continue
        dask_read_checks(ck, prog, ev, r, tag, o, n, s1.attrs["_data"], s1, rule)


def dask_read_checks(ck, prog, ev, r, tag, o, n, d, s1, rule="R2"):
    """The lazy read of (o, n) against the eager one (d = its data term, s1 = the eager signal): same term, Dask-backed, declared dtype
    and shape equal to what the wrapped read really returns, same time stamp.  Shared with C09."""
    f_dread = prog.func("BaseReader.dask_read")
    # Dask read: same term, declared dtype/shape agree with the eager result
    evd = Evaluator(prog)
    evd.file_model = ev.file_model
    sd = ck.attempt(rule, f_dread.where, "dask_read(o, n) " + tag, "evaluates", lambda: evd.call(f_dread, [Num(o), Num(n)], {}, self_val=r), ev=evd,
                    allowed_guards=["ValueError", "OutOfBoundsError"])
    if sd is not None:
        dd = sd.attrs["_data"]
        ck.same(rule, f_dread.where, "dask_read data term " + tag, "the lazy read wraps the same read of the same (offset, n)",
                isinstance(dd, Num) and _subst_fills(dd.expr) == _subst_fills(d.expr) and dd.backend == "dask",
                found=f"{str(getattr(dd, 'expr', dd))[:140]} backend={getattr(dd, 'backend', None)}", nontrivial=True)
        fd = [t for t in evd.trace if t[0] == "from_delayed"]
        if fd:
            _, res, dt_decl, shp_decl, node = fd[-1]
            ok = isinstance(dt_decl, ExtV) and isinstance(res.dtype, ExtV) and dt_decl.dotted == res.dtype.dotted \
                and isinstance(shp_decl, TupleV) and res.shape is not None and len(shp_decl.items) == len(res.shape) \
                and all(terms_eq(a.expr, b) for a, b in zip(shp_decl.items, res.shape))
            ck.same(rule, prog.func("BaseReader._read_data").where, "declared dtype/shape of the lazy read " + tag,
                    "equal the dtype and shape of what the eager read returns", bool(ok),
                    found=f"declared {dt_decl!r} {shp_decl!r}; eager {res.dtype!r} {res.shape}", nontrivial=True)
        else:
            ck.same(rule, prog.func("BaseReader._read_data").where, "lazy read " + tag, "is built with dask.array.from_delayed", False, found="no from_delayed call")
        ck.eq(rule, f_dread.where, "dask_read start_time " + tag, "same time stamp as the eager read", sd.attrs["_start_time"].expr, s1.attrs["_start_time"].expr)


def zero_length_reads(ck, prog, ev0, r, tag, rule="R2"):
    """n = 0 is a request inside [0, len]: both the eager and the lazy read hand back a signal of zero samples."""
    f_read, f_dread = prog.func("BaseReader.read"), prog.func("BaseReader.dask_read")
    o = sp.Symbol("o", integer=True)
    for fi, what in ((f_read, "read(o, 0)"), (f_dread, "dask_read(o, 0)")):
        ev = Evaluator(prog)
        ev.file_model = ev0.file_model
        try:
            s0 = ev.call(fi, [Num(o), Num(0)], {}, self_val=r)
        except Raised as e:
            if e.exc_name in ("ValueError", "OutOfBoundsError") and getattr(e, "guard", False):
                continue
            ck.same(rule, fi.where, f"{what} {tag}", "a zero-length read inside the stream returns a signal of zero samples (lazy as well as eager)",
                    False, found=str(e)[:140], nontrivial=True)
            continue
        except Unsupported as e:
            ck.unk(rule, fi.where, f"{what} {tag}", "evaluates", str(e)[:200])
            continue
        d0 = s0.attrs.get("_data") if isinstance(s0, ObjV) else None
        ok0 = isinstance(d0, Num) and d0.shape is not None and sp.simplify(d0.shape[0]) == 0
        ck.same(rule, fi.where, f"{what} {tag}", "a zero-length read inside the stream returns a signal of zero samples (lazy as well as eager)",
                ok0, found=str(getattr(d0, "shape", d0))[:80], nontrivial=True)


def terms_eq(a, b):
    from .. import terms
    v = terms.equal(a, b, points=4, constraints=lambda pt: {k: (abs(v) + 1 if k.name in ("n", "o") else v) for k, v in pt.items()})
    return v.equal is True


def _subst_fills(e):
    """Fresh zero-array symbols (Zfill<k>) are numbered per evaluation; compare modulo the number."""
    return e.xreplace({s: sp.Symbol("Zfill") for s in e.free_symbols if s.name.startswith("Zfill")}).xreplace(
        {s: sp.Symbol("j") for s in e.free_symbols if s.name[0] == "j" and s.name[1:].isdigit()})


def _pyint_flow(ev, r, prog):
    """Evaluate read() with arguments that carry a marker and see whether the marker survives to the file access."""
    fm_log = []
    ev2 = Evaluator(prog)
    ev2.file_model = ev.file_model
    a = Num(sp.Symbol("o", integer=True), tag="raw")
    b = Num(sp.Symbol("n", integer=True), tag="raw")
    seen = []

    def spy(evx, args, kwargs, node, fr, fn):
        seen.append([getattr(x, "tag", None) for x in args[:2]])
        return evx.call(fn.fi, args, kwargs, self_val=fn.bound, depth=fr.depth + 1)
    ev2.overrides["pulsarbat.readers._base.BaseReader._read_data"] = spy
    ev2.overrides["pulsarbat.readers._base.BaseReader.time_at"] = spy
    try:
        ev2.call(prog.func("BaseReader.read"), [a, b], {}, self_val=r)
    except Exception:
        return False
    flat = [t for s in seen for t in s if t is not None or True]
    tags = [t for s in seen for t in s]
    return bool(seen) and "raw" not in tags


# ------------------------------------------------------------------------------------------ GUPPI / DADA
def guppi_dada(ck, prog, run):
    P, C = sp.Integer(2), sp.Symbol("C", integer=True, positive=True)
    obs, bw, freq = sp.Symbol("OBSFREQ", positive=True), sp.Symbol("BWv", positive=True), sp.Symbol("FREQ", positive=True)
    f_g = prog.func("GUPPIRawReader._read_array")
    f_d = prog.func("DADAStokesReader._read_array")
    run.touched(f_g)
    run.touched(f_d)
    MHz = 10**6 * Hz
    for usb in (True, False):
        for poln, pol in (("LIN", "linear"), ("CIRC", "circular")):
            if not usb and poln == "CIRC" and run.tier == "quick":
                continue
            hdr = HeaderV({"OBSFREQ": Num(obs), "FD_POLN": StrV(poln)}, {"sideband": BoolV(usb)})
            fm, log = file_model(True, (P, C), "complex64", hdr)
            ev = ck.evaluator()
            ev.file_model = fm
            label = f"GUPPI, {'upper' if usb else 'lower'} sideband, {poln}"
            r = ck.attempt("R5", prog.func("GUPPIRawReader.__init__").where, f"GUPPIRawReader(name) [{label}]", "constructs against the file model",
                           lambda: ev.construct(prog.cls("GUPPIRawReader"), [StrV("file")], {}, FR()), ev=ev, allowed_guards=["ValueError"])
            if r is None:
                continue
            opens = [e for e in log if e[0] == "open"]
            ck.same("R5", prog.func("GUPPIRawReader.__init__").where, "baseband.open arguments " + f"[{label}]", "the file is opened as GUPPI with squeeze=False (polarisation axis kept)",
                    all(isinstance(e[2].get("format"), StrV) and e[2]["format"].s == "guppi" and isinstance(e[2].get("squeeze"), BoolV) and e[2]["squeeze"].b is False for e in opens),
                    found=str([{k: repr(v) for k, v in e[2].items()} for e in opens[:2]]))
            sk = r.attrs["_signal_kwargs"].d
            ck.same("R5", prog.func("GUPPIRawReader.__init__").where, "signal metadata " + f"[{label}]",
                    "DualPolarizationSignal with center_freq = OBSFREQ MHz, 'center' alignment and the header's polarisation basis",
                    r.attrs["_signal_type"].ci.name == "DualPolarizationSignal" and sp.simplify(sk["center_freq"].expr - obs * MHz) == 0
                    and sk["freq_align"].s == "center" and sk["pol_type"].s == pol, found=str({k: repr(v) for k, v in sk.items()}), nontrivial=True)
            reader_checks(ck, prog, ev, r, log, label, 1, "complex64", (P, C), FS, L,
                          data_expect=((lambda raw: F["Transpose"](sp.conjugate(raw) if not usb else raw, 0, 2, 1)),
                                       "file order (time, pol, chan) is permuted to (time, chan, pol); lower sideband is conjugated"))
    for lsb in (False, True):
        hdr = HeaderV({"NPOL": Num(4), "NDIM": Num(1), "BW": Num(-bw if lsb else bw), "FREQ": Num(freq), "NCHAN": Num(C)}, {})
        fm, log = file_model(False, (sp.Integer(4), C), "float32", hdr)
        ev = ck.evaluator()
        ev.file_model = fm
        label = f"DADA Stokes, {'lower' if lsb else 'upper'} sideband"
        r = ck.attempt("R5", prog.func("DADAStokesReader.__init__").where, f"DADAStokesReader(name) [{label}]", "constructs against the file model",
                       lambda: ev.construct(prog.cls("DADAStokesReader"), [StrV("file")], {}, FR()), ev=ev, allowed_guards=["ValueError"])
        if r is None:
            continue
        sk = r.attrs["_signal_kwargs"].d
        ck.same("R5", prog.func("DADAStokesReader.__init__").where, "signal metadata " + f"[{label}]",
                "FullStokesSignal with center_freq = FREQ MHz, chan_bw = |BW/NCHAN| MHz and alignment 'top' for lower / 'bottom' for upper sideband",
                r.attrs["_signal_type"].ci.name == "FullStokesSignal" and sp.simplify(sk["center_freq"].expr - freq * MHz) == 0
                and sp.simplify(sk["chan_bw"].expr - bw / C * MHz) == 0 and sk["freq_align"].s == ("top" if lsb else "bottom"),
                found=str({k: repr(v) for k, v in sk.items()}), nontrivial=True)
        reader_checks(ck, prog, ev, r, log, label, 1, "float32", (sp.Integer(4), C), FS, L,
                      data_expect=((lambda raw: F["Transpose"](F["Flip"](raw, -1) if lsb else raw, 0, 2, 1)),
                                   "(time, pol, chan) permuted to (time, chan, pol); channels reversed for lower sideband; intensity data never conjugated"))
    # not-Stokes files are refused
    hdr = HeaderV({"NPOL": Num(2), "NDIM": Num(2), "BW": Num(bw), "FREQ": Num(freq), "NCHAN": Num(C)}, {})
    fm, log = file_model(True, (sp.Integer(2), C), "complex64", hdr)
    ev = ck.evaluator()
    ev.file_model = fm
    try:
        ev.construct(prog.cls("DADAStokesReader"), [StrV("file")], {}, FR())
        ck.same("R5", prog.func("DADAStokesReader.__init__").where, "DADAStokesReader on a non-Stokes file", "is refused with ValueError", False, found="accepted")
    except Raised as e:
        ck.same("R5", prog.func("DADAStokesReader.__init__").where, "DADAStokesReader on a non-Stokes file", "is refused with ValueError", e.exc_name == "ValueError", found=str(e)[:100])
    except Unsupported as e:
        ck.unk("R5", "DADAStokesReader.__init__", "non-Stokes file", "is refused", str(e))


# ------------------------------------------------------------------------------------------ time_at / offset_at
def time_at_offset_at(ck, prog, run):
    from .c01 import make_reader
    from ..sigmodel import SR, T0, N
    f_ta, f_oa = prog.func("BaseReader.time_at"), prog.func("BaseReader.offset_at")
    r, rn = make_reader(prog), make_reader(prog, False)
    k = sp.Symbol("k", integer=True)
    ev = ck.evaluator()
    ta = ck.attempt("R2", f_ta.where, "time_at(k)", "evaluates", lambda: ev.call(f_ta, [Num(k)], {}, self_val=r), ev=ev)
    if ta is not None:
        ck.eq("R2", f_ta.where, "time_at(k)", "== start_time + k/sample_rate", ta, (T0 + k / SR) / Hz)
    tr = ck.attempt("R2", f_ta.where, "time_at(k, unit=s)", "evaluates", lambda: ev.call(f_ta, [Num(k)], {"unit": Num(1 / Hz, kind="quantity", tag="unit", unit=1 / Hz)}, self_val=r), ev=ev)
    if tr is not None:
        ck.eq("R2", f_ta.where, "time_at(k, unit)", "relative form == k/sample_rate", tr, k / SR / Hz)
    tn = ck.attempt("R2", f_ta.where, "time_at(k) without start_time", "evaluates", lambda: ev.call(f_ta, [Num(k)], {}, self_val=rn), ev=ev)
    ck.same("R2", f_ta.where, "time_at(k) without start_time", "is None", tn is NONE, found=repr(tn))
    t = sp.Symbol("t", real=True)
    for form, arg, expected in (("absolute Time", Num(t / Hz, kind="time"), sp.floor((t - T0) * SR + sp.Rational(1, 2))),
                                ("relative Quantity", Num(t / Hz, kind="quantity"), sp.floor(t * SR + sp.Rational(1, 2))),
                                ("relative Quantity held in seconds", Num(t / Hz, kind="quantity", unit=1 / Hz), sp.floor(t * SR + sp.Rational(1, 2))),
                                ("relative Quantity held in minutes", Num(t / Hz, kind="quantity", unit=60 / Hz), sp.floor(t * SR + sp.Rational(1, 2))),
                                ("relative Quantity held in days", Num(t / Hz, kind="quantity", unit=86400 / Hz), sp.floor(t * SR + sp.Rational(1, 2)))):
        ev2 = ck.evaluator()
        oa = ck.attempt("R2", f_oa.where, f"offset_at({form})", "evaluates", lambda: ev2.call(f_oa, [arg], {}, self_val=r), ev=ev2,
                        allowed_guards=["OutOfBoundsError"])
        if oa is None:
            continue
        ck.eq("R2", f_oa.where, f"offset_at({form})", "== round((t - start_time) * sample_rate) (nearest sample: rounding precedes the integer cast)", oa, expected)
        known = facts_nonneg(ev2.last_frame.facts)
        ck.same("R2", f_oa.where, f"offset_at({form}): range", "times before the start or after the end raise",
                is_nonneg(oa.expr, known) and is_nonneg(sp.expand(N - oa.expr), known), found=str([str(f)[:80] for f in ev2.last_frame.facts]), nontrivial=True)
    # inverse: offset_at(time_at(k)) == k, also through relative times
    for form, mk in (("absolute", lambda: ev.call(f_ta, [Num(k)], {}, self_val=r)),
                     ("relative", lambda: ev.call(f_ta, [Num(k)], {"unit": Num(1 / Hz, kind="quantity", tag="unit", unit=1 / Hz)}, self_val=r)),
                     ("relative, in minutes", lambda: ev.call(f_ta, [Num(k)], {"unit": Num(60 / Hz, kind="quantity", tag="unit", unit=60 / Hz)}, self_val=r))):
        ev3 = ck.evaluator()
        res = ck.attempt("R2", f_oa.where, f"offset_at(time_at(k)) [{form}]", "evaluates",
                         lambda: ev3.call(f_oa, [mk()], {}, self_val=r), ev=ev3, allowed_guards=["OutOfBoundsError"])
        if res is not None:
            ck.eq("R2", f_oa.where, f"offset_at(time_at(k)) [{form}]", "== k for every integer k in range", res, k)


# ------------------------------------------------------------------------------------------ structure: effects of reading methods
READING = {"read", "dask_read", "_read_data", "_read_array", "_read_baseband", "time_at", "offset_at", "contains", "__contains__", "__len__",
           "_get_fh"}
MUTATORS = {"append", "extend", "insert", "pop", "remove", "clear", "update", "setdefault", "popitem", "sort", "reverse", "add", "discard", "fill", "resize"}


def single_read_per_request(ck, prog, rule):
    """Dask reads equal eager reads: _read_data must hand the *whole* request (offset, n) to one _read_array call on both
    paths.  Readers are not required to be additive over adjacent ranges (real-sampled data is Hilbert-transformed per read), so
    a lazy path that splits the request into sub-ranges returns different samples than the eager path.  Helpers that
    _read_data passes the reader and the request to are followed."""
    f0 = prog.func("BaseReader._read_data")
    ck.run.touched(f0)
    params = [p_ for p_, _ in f0.params()]
    if len(params) < 3:
        ck.unk(rule, f0.where, "_read_data(self, offset, n, ...)", "has the request's offset and length as parameters", str(params))
        return
    found = []          # (function, call node, ok, text)

    def visit(f, alias, depth):
        """alias: local name -> 'self' | 'offset' | 'n'"""
        alias = dict(alias)
        wrappers = set()

        def is_read_array(e):
            return isinstance(e, ast.Attribute) and e.attr == "_read_array" and isinstance(e.value, ast.Name) and alias.get(e.value.id) == "self"

        def src_of(e):
            if isinstance(e, ast.Call) and len(e.args) == 1 and not e.keywords and norm(e.func) in ("int", "operator.index", "np.int64"):
                e = e.args[0]
            return alias.get(e.id) if isinstance(e, ast.Name) else None
        for st in ast.walk(f.node):
            if isinstance(st, ast.Assign) and len(st.targets) == 1 and isinstance(st.targets[0], ast.Name):
                v = st.value
                tgt = st.targets[0].id
                if isinstance(v, ast.Call) and v.args and is_read_array(v.args[0]):
                    wrappers.add(tgt)          # delayed_read = dask.delayed(self._read_array, ...)
                    continue
                n_defs = sum(1 for s2 in ast.walk(f.node) if isinstance(s2, (ast.Assign, ast.AugAssign)) and any(
                    isinstance(t_, ast.Name) and t_.id == tgt for t_ in (s2.targets if isinstance(s2, ast.Assign) else [s2.target])))
                sv = src_of(v)
                if sv is not None and n_defs == 1 and tgt not in alias:
                    alias[tgt] = sv
        for c in ast.walk(f.node):
            if not isinstance(c, ast.Call):
                continue
            fn = c.func
            direct = is_read_array(fn)
            wrapped = isinstance(fn, ast.Name) and fn.id in wrappers
            inline = isinstance(fn, ast.Call) and fn.args and is_read_array(fn.args[0])      # dask.delayed(self._read_array)(...)
            if direct or wrapped or inline:
                a0 = c.args[0] if c.args else next((k.value for k in c.keywords if k.arg == "offset"), None)
                a1 = c.args[1] if len(c.args) > 1 else next((k.value for k in c.keywords if k.arg == "n"), None)
                ok = a0 is not None and a1 is not None and src_of(a0) == "offset" and src_of(a1) == "n"
                found.append((f, c, ok, f"reads ({norm(a0) if a0 is not None else '?'}, {norm(a1) if a1 is not None else '?'})"))
                continue
            # a helper of the package that receives the reader: follow it with the argument binding
            if depth < 3 and any(isinstance(a_, ast.Name) and alias.get(a_.id) == "self" for a_ in c.args):
                tgt_name = fn.id if isinstance(fn, ast.Name) else None
                cands = [g for g in prog.all_functions if tgt_name and g.qualname == tgt_name and g.module == f.module]
                for g in cands:
                    gp = [p_ for p_, _ in g.params()]
                    bind = {}
                    for p_, a_ in zip(gp, c.args):
                        s_ = src_of(a_) if not (isinstance(a_, ast.Name) and alias.get(a_.id) == "self") else "self"
                        if s_ is not None:
                            bind[p_] = s_
                    for k in c.keywords:
                        if k.arg in gp and src_of(k.value) is not None:
                            bind[k.arg] = src_of(k.value)
                    ck.run.touched(g)
                    visit(g, bind, depth + 1)
    visit(f0, {params[0]: "self", params[1]: "offset", params[2]: "n"}, 0)
    if not found:
        ck.unk(rule, f0.where, "_read_data", "calls self._read_array (directly, through dask.delayed, or in a helper given the reader)", "no call found")
        return
    for f, c, ok, text in found:
        ck.same(rule, f.where, norm(c)[:100], "every read issued for a request covers exactly the requested (offset, n): the lazy path wraps the same single read "
                "as the eager path (readers need not be additive over adjacent ranges)", ok, found=text, nontrivial=True)
    ck.run.floor(rule, "_read_array call sites reached from _read_data", len(found), 2)


def delayed_names_rule(ck, prog, rule):
    """dask.delayed(obj.method, name=..., pure=True): `name` REPLACES the token dask would derive from the bound method (and so
    from the object).  A name that does not contain the object's identity makes the task key a function of the call arguments
    only: two objects called with equal arguments in one graph share a key and one result silently replaces the other."""
    n = 0
    for f in prog.all_functions:
        if f.kind in ("nested", "lambda"):
            continue
        for c in ast.walk(f.node):
            if not (isinstance(c, ast.Call) and norm(c.func).split(".")[-1] == "delayed" and c.args):
                continue
            target = c.args[0]
            if not (isinstance(target, ast.Attribute) and isinstance(target.value, ast.Name)):
                continue            # a plain function: its arguments are tokenised, a fixed name is harmless
            n += 1
            nm = next((k.value for k in c.keywords if k.arg in ("name", "dask_key_name")), None)
            if isinstance(nm, ast.Name):
                # a local holding the label: look at what it was built from
                defs = [s2.value for s2 in ast.walk(f.node) if isinstance(s2, ast.Assign) and len(s2.targets) == 1
                        and isinstance(s2.targets[0], ast.Name) and s2.targets[0].id == nm.id]
                if len(defs) == 1:
                    nm = defs[0]
            obj = target.value.id
            if nm is None:
                ck.same(rule, f.where, norm(c)[:100], "the task key of a delayed bound method derives from the object (no name= override)", True)
                continue
            ck.same(rule, f.where, norm(c)[:110], "an explicit name= for a delayed bound method contains the object's identity (id(obj) / tokenize(obj)); otherwise "
                    "two objects called with the same arguments share one task key", _has_identity(nm, obj), found=f"name={norm(nm)[:80]}", nontrivial=True)
        # the same holds for keys and names given further down the line: D(..., dask_key_name=K) on the delayed bound method and
        # da.from_delayed(..., name=K) of its result replace keys that would otherwise derive from the object
        bound = {}
        for a_ in ast.walk(f.node):
            if isinstance(a_, ast.Assign) and len(a_.targets) == 1 and isinstance(a_.targets[0], ast.Name) and isinstance(a_.value, ast.Call) \
                    and norm(a_.value.func).split(".")[-1] == "delayed" and a_.value.args and isinstance(a_.value.args[0], ast.Attribute) \
                    and isinstance(a_.value.args[0].value, ast.Name):
                bound[a_.targets[0].id] = a_.value.args[0].value.id
        if not bound:
            continue
        for c in ast.walk(f.node):
            if not isinstance(c, ast.Call):
                continue
            kw = {k.arg: k.value for k in c.keywords if k.arg}
            if isinstance(c.func, ast.Name) and c.func.id in bound and "dask_key_name" in kw:
                nm = _resolve_local(f.node, kw["dask_key_name"])
                ck.same(rule, f.where, norm(c)[:110], "a dask_key_name= given to a delayed bound method contains the object's identity; otherwise two objects "
                        "called with the same arguments share one task key", _has_identity(nm, bound[c.func.id]), found=f"dask_key_name={norm(nm)[:80]}", nontrivial=True)
            if norm(c.func).split(".")[-1] == "from_delayed" and "name" in kw:
                nm = _resolve_local(f.node, kw["name"])
                obj = next(iter(bound.values()))
                from_key = any(isinstance(x, ast.Attribute) and x.attr in ("key", "name") for x in ast.walk(nm))
                ck.same(rule, f.where, norm(c)[:110], "an explicit name= for the array built from a delayed bound method contains the object's identity (or the "
                        "delayed value's own key); otherwise reads of two objects over the same range collide in one graph",
                        _has_identity(nm, obj) or from_key, found=f"name={norm(nm)[:80]}", nontrivial=True)
    ck.run.floor(rule, "dask.delayed(<bound method>) sites", n, 1)


def _resolve_local(fn, e):
    if isinstance(e, ast.Name):
        defs = [s2.value for s2 in ast.walk(fn) if isinstance(s2, ast.Assign) and len(s2.targets) == 1 and isinstance(s2.targets[0], ast.Name) and s2.targets[0].id == e.id]
        if len(defs) == 1:
            return defs[0]
    return e


def _has_identity(nm, obj):
    """id(obj) or tokenize(..., obj, ...) with the object ITSELF as an argument somewhere in the name expression (a token over a
    few of its attributes - class name, shape, rate - does not identify it)."""
    for x in ast.walk(nm):
        if isinstance(x, ast.Call) and norm(x.func).split(".")[-1] in ("id", "tokenize") and any(isinstance(a, ast.Name) and a.id == obj for a in x.args):
            return True
    return False


def memo_results_untouched(ck, prog, run):
    """Reads are stateless: an object handed out by a memoised function (functools.lru_cache / cache) is handed out again on the
    next identical call, so no reader code may write into it (in-place conjugation, out=, element stores)."""
    from ..alias import AliasAnalysis
    scope = {"pulsarbat.readers._base", "pulsarbat.readers._baseband_readers", "pulsarbat.utils"}
    an = AliasAnalysis(prog, scope, sanction=lambda fi, node, how: None)
    sinks = an.run()
    bad = [s_ for s_ in sinks if any(str(r).startswith("<memoised result") for r in s_.roots)]
    memo = [f.qualname for f in an.scope if any(d.split("(")[0].split(".")[-1] in ("lru_cache", "cache", "cached_property") for d in f.decorators)]
    for s_ in bad:
        ck.same("R3", s_.func.where, norm(s_.node)[:100], "no code writes into an object returned by a memoised function (it would change what the next identical read returns)",
                False, found=f"{s_.how}; {sorted(map(str, s_.roots))}", nontrivial=True)
    if not bad:
        ck.same("R3", "pulsarbat/readers", f"memoised functions in the read path: {memo or 'none'}",
                "no code writes into an object returned by a memoised function", True, found=f"{len(sinks)} write sites examined in {len(an.scope)} functions",
                nontrivial=bool(memo))


def statelessness_structure(ck, prog, run, only_token=False, rule="R3"):
    n_methods = 0
    for ci in prog.reader_classes():
        consulted = set()
        meths = [m for nm, m in ci.methods.items() if nm in READING]
        getters = [p["get"] for nm, p in ci.properties.items() if p["get"] is not None]
        for m in meths + getters:
            n_methods += 1
            run.touched(m)
            selfname = m.params()[0][0] if m.params() else "self"
            bad = []
            for node in ast.walk(m.node):
                if isinstance(node, (ast.Assign, ast.AugAssign, ast.AnnAssign)):
                    tg = node.targets if isinstance(node, ast.Assign) else [node.target]
                    for t in tg:
                        for t2 in (t.elts if isinstance(t, (ast.Tuple, ast.List)) else [t]):
                            base = t2
                            while isinstance(base, (ast.Attribute, ast.Subscript)):
                                base = base.value
                            if isinstance(t2, (ast.Attribute, ast.Subscript)) and isinstance(base, ast.Name) and base.id == selfname:
                                bad.append(norm(node))
                elif isinstance(node, ast.Call):
                    fn = node.func
                    if isinstance(fn, ast.Name) and fn.id in ("setattr", "delattr") and node.args and isinstance(node.args[0], ast.Name) \
                            and node.args[0].id == selfname:
                        bad.append(norm(node))
                    if isinstance(fn, ast.Attribute) and fn.attr in MUTATORS:
                        base = fn.value
                        while isinstance(base, (ast.Attribute, ast.Subscript)):
                            base = base.value
                        if isinstance(base, ast.Name) and base.id == selfname and isinstance(fn.value, (ast.Attribute, ast.Subscript)):
                            bad.append(norm(node))
                elif isinstance(node, (ast.Global, ast.Nonlocal)):
                    bad.append(norm(node))
                if isinstance(node, ast.Attribute) and isinstance(node.value, ast.Name) and node.value.id == selfname and isinstance(node.ctx, ast.Load):
                    consulted.add(node.attr)
            if not only_token:
                ck.same(rule, m.where, f"{ci.name}.{m.name}", "a reading method / property neither stores to the reader, nor mutates one of its attributes, nor uses global state",
                        not bad, found="; ".join(bad)[:200], nontrivial=True)
        tok = ci.methods.get("__dask_tokenize__")
        if tok is not None:
            used, unique = set(), False
            todo, seen_f = [tok], set()
            while todo:
                fcur = todo.pop()
                if id(fcur) in seen_f:
                    continue
                seen_f.add(id(fcur))
                sname = fcur.params()[0][0] if fcur.params() else "self"
                for nd in ast.walk(fcur.node):
                    if isinstance(nd, ast.Attribute) and isinstance(nd.value, ast.Name) and nd.value.id == sname:
                        used.add(nd.attr)
                        pr_ = ci.find_property(nd.attr)
                        if pr_ is not None and pr_["get"] is not None:
                            todo.append(pr_["get"])
                        me_ = ci.find_method(nd.attr)
                        if me_ is not None:
                            todo.append(me_)
                    if isinstance(nd, ast.Call) and isinstance(nd.func, ast.Name) and nd.args and isinstance(nd.args[0], ast.Name) and nd.args[0].id == sname:
                        if nd.func.id == "id":
                            unique = True          # the object's identity is part of the token: no two readers share it
                        if nd.func.id in ("repr", "str", "format"):
                            me_ = ci.find_method("__repr__" if nd.func.id == "repr" else "__str__") or ci.find_method("__repr__")
                            if me_ is not None:
                                todo.append(me_)
            if unique:
                ck.same(rule, tok.where, f"{ci.name}.__dask_tokenize__", "a custom Dask token is unique per reader object (it contains id(self))", True)
                continue
            # attributes the read path consults (through properties too)
            need = set()
            for a in consulted:
                pr = ci.find_property(a)
                if pr is not None and pr["get"] is not None:
                    need |= {nd.attr for nd in ast.walk(pr["get"].node) if isinstance(nd, ast.Attribute) and isinstance(nd.value, ast.Name)}
                    need.add(a)
                elif ci.find_method(a) is None:
                    need.add(a)
            state = {a for a in need if a.lstrip("_") not in ("shape", "dtype") or True}
            covered = set()
            for a in used:
                covered.add(a)
                covered.add("_" + a)
                covered.add(a.lstrip("_"))
            missing = sorted(a for a in state if a not in covered and ci.find_method(a) is None
                             and not (ci.find_property(a) and ("_" + a) in covered))
            ck.same(rule, tok.where, f"{ci.name}.__dask_tokenize__", "a custom Dask token covers every attribute the read path consults "
                    "(otherwise two readers that differ in it share graph keys and one lazy read silently replaces the other)",
                    not missing, found=f"not covered by the token: {missing}", nontrivial=True)
    run.floor(rule, "reading methods and properties of reader classes examined", n_methods, 25)
