"""C20 - pb.fft equals the reference DFT on both back ends; STFT/ISTFT invert and label correctly."""
from __future__ import annotations

import ast
import sympy as sp

from ..spec import Checker, FR, obj_summary
from ..sigmodel import make_signal, N, SR, CF, T0
from ..values import Num, StrV, NONE, Hz, ExtV, ObjV
from ..extapi import NdArr
from ..symeval import Raised
from ..values import Unsupported
from ..model import norm
from ..cfg import CFG, raised_exception_name
from .. import terms

EXPLANATION = (
    "pulsarbat.fft: the dispatch table and the closure dataflow of the module __getattr__ are read from the syntax tree: the "
    "name list must be exactly the fourteen transform names, each must exist in the installed scipy.fft (introspection of "
    "scipy/dask only - pulsarbat is never imported), the refusal of other names must dominate everything else and raise "
    "AttributeError, the function looked up must be getattr(scipy.fft, <the requested name>) with the name never re-bound, and "
    "both dispatch bodies (default and dask.array.Array) must apply that same closure variable to (*args, **kwargs), the Dask "
    "body through dask.array.fft.fft_wrap. STFT/ISTFT are evaluated by the term evaluator (a) on small concrete arrays of symbols "
    "with an exact DFT, so every output element is an explicit linear combination of input samples: it must equal the STFT "
    "definition (segment m, channel c, sub-channel k -> output channel c*P + k, fftshift-ed bin), and ISTFT(STFT(x)) must return "
    "every input sample; (b) on symbolic signals for the labels: the sub-channel labels read back through channel_freqs must be "
    "the true frequencies label_c + (k - floor(P/2))*sample_rate/P for both parities of nperseg and every input alignment, "
    "sample rate divided/multiplied by P, start time unchanged, and ISTFT must restore rate and labels. Numerical equality with "
    "the reference transforms is not decided."
)

NAMES14 = ["fft", "fft2", "fftn", "ifft", "ifft2", "ifftn", "rfft", "rfft2", "rfftn", "irfft", "irfft2", "irfftn", "hfft", "ihfft"]


def check(run, prog):
    run.explanation = EXPLANATION
    run.assumptions += ["scipy.fft and dask.array.fft behave as documented (their presence is re-checked by introspection)"]
    ck = Checker(run, prog)
    r1(ck, prog, run)
    r2_small(ck, prog, run)
    r2_labels(ck, prog, run)
    run.extra["decided_by"] = ck.how


# ---------------------------------------------------------------------------------------- R1
def r1(ck, prog, run):
    mi = prog.module("pulsarbat.fft")
    ga = prog.func("__getattr__", module="pulsarbat.fft")
    run.touched(ga)
    where = ga.where
    lst = mi.assigns.get("_FFT_FUNCS")
    try:
        names = list(ast.literal_eval(lst))
    except Exception:
        ck.unk("R1", "pulsarbat/fft.py", "_FFT_FUNCS", "the dispatch table is a literal list of names", "not a literal")
        return
    ck.same("R1", "pulsarbat/fft.py _FFT_FUNCS", "_FFT_FUNCS", "exactly the fourteen transform names of the statement (no more, no fewer, no duplicates)",
            sorted(names) == sorted(NAMES14) and len(names) == 14, found=str(names), expected=str(NAMES14), nontrivial=True)
    # introspection of the installed third-party libraries
    try:
        import scipy.fft as sfft
        import dask.array.fft as dfft
        missing = [n for n in names if not callable(getattr(sfft, n, None))]
        ck.same("R1", "pulsarbat/fft.py _FFT_FUNCS", "installed scipy.fft", "every listed name is a callable of the installed scipy.fft",
                not missing, found=f"missing: {missing}")
        bad = []
        for n in names:
            try:
                dfft.fft_wrap(getattr(sfft, n))
            except Exception as e:  # noqa
                bad.append(f"{n}: {type(e).__name__}")
        ck.same("R1", "pulsarbat/fft.py _FFT_FUNCS", "installed dask.array.fft.fft_wrap", "every listed transform is accepted by dask's fft_wrap",
                not bad, found=str(bad))
        run.analysed["api_entries"] |= {"scipy.fft." + n for n in names} | {"dask.array.fft.fft_wrap"}
    except ImportError as e:
        ck.unk("R1", "pulsarbat/fft.py", "introspection", "scipy.fft / dask.array.fft importable", str(e))
    # guard dominance
    params = [p for p, _ in ga.params()]
    pname = params[0] if params else "name"
    cfg = CFG(ga.node)
    guards = [(n, br, t, r) for n, br, t, r in cfg.guards()
              if isinstance(t, ast.Compare) and len(t.ops) == 1 and isinstance(t.ops[0], ast.NotIn)
              and isinstance(t.left, ast.Name) and t.left.id == pname and norm(t.comparators[0]) == "_FFT_FUNCS"]
    if not guards:
        ck.same("R1", where, f"if {pname} not in _FFT_FUNCS: raise AttributeError", "names outside the table are refused", False,
                found="no such guard in __getattr__", nontrivial=True)
    else:
        gnode, br, test, rs = guards[0]
        ck.same("R1", where, norm(test), "the refusal raises AttributeError", raised_exception_name(rs) == "AttributeError",
                found=str(raised_exception_name(rs)))
        passing = cfg.branch[(gnode, br)]
        others = [n for n, s in cfg.statements() if n != gnode and cfg.reachable(n) and not _inside(s, cfg.stmt[gnode])]
        nd = [norm(cfg.stmt[n])[:60] for n in others if not cfg.dominates(passing, n)]
        ck.same("R1", where, norm(test), "the refusal dominates every other statement of __getattr__ (nothing happens for an unknown name)",
                not nd, found=f"not dominated: {nd}", nontrivial=True)
    # closure dataflow
    assigns = [s for s in ga.node.body if isinstance(s, ast.Assign)]
    look = None
    for a in assigns:
        v = a.value
        if isinstance(v, ast.Call) and isinstance(v.func, ast.Name) and v.func.id == "getattr" and len(v.args) == 2:
            look = a
    if look is None or not isinstance(look.targets[0], ast.Name):
        ck.same("R1", where, "getattr(scipy.fft, name)", "the transform is looked up by getattr on scipy.fft", False, found="lookup not found",
                nontrivial=True)
        return
    var = look.targets[0].id
    dotted = prog.resolve_expr_name(mi, look.value.args[0])
    ck.same("R1", where, norm(look), "the transform is taken from scipy.fft", dotted == "scipy.fft", found=str(dotted), nontrivial=True)
    a2 = look.value.args[1]
    rebinds = [norm(s) for s in ast.walk(ga.node) if isinstance(s, (ast.Assign, ast.AugAssign, ast.NamedExpr))
               and any(isinstance(t, ast.Name) and t.id == pname for t in (s.targets if isinstance(s, ast.Assign) else [s.target]))]
    ck.same("R1", where, norm(look), "the lookup uses the requested name itself (no remapping or re-binding of the name)",
            isinstance(a2, ast.Name) and a2.id == pname and not rebinds, found=f"{norm(a2)}; rebinds: {rebinds}", nontrivial=True)
    var_rebinds = [norm(s) for s in ast.walk(ga.node) if isinstance(s, ast.Assign) and s is not look
                   and any(isinstance(t, ast.Name) and t.id == var for t in s.targets)]
    ck.same("R1", where, f"{var}", "the looked-up function is bound once", not var_rebinds, found=str(var_rebinds))
    inner = [s for s in ga.node.body if isinstance(s, ast.FunctionDef)]
    default = [f for f in inner if any(norm(d).endswith("singledispatch") for d in f.decorator_list)]
    dask_b = [f for f in inner if any(".register(" in norm(d) and "Array" in norm(d) for d in f.decorator_list)]
    if len(default) != 1 or len(dask_b) != 1:
        ck.unk("R1", where, "dispatch bodies", "one default body (singledispatch) and one dask.array.Array body", f"{len(default)} / {len(dask_b)}")
        return
    reg = [d for d in dask_b[0].decorator_list if ".register(" in norm(d)][0]
    reg_t = prog.resolve_expr_name(mi, reg.args[0]) if isinstance(reg, ast.Call) and reg.args else None
    ck.same("R1", where, norm(reg), "the lazy body is registered for dask.array.Array on the default body's dispatcher",
            reg_t == "dask.array.Array" and isinstance(reg.func, ast.Attribute) and isinstance(reg.func.value, ast.Name)
            and reg.func.value.id == default[0].name, found=f"{reg_t}", nontrivial=True)

    def passthrough(call):
        return (len(call.args) == 1 and isinstance(call.args[0], ast.Starred) and len(call.keywords) == 1 and call.keywords[0].arg is None
                and isinstance(call.args[0].value, ast.Name) and call.args[0].value.id == (fdef.args.vararg.arg if fdef.args.vararg else None)
                and isinstance(call.keywords[0].value, ast.Name) and call.keywords[0].value.id == (fdef.args.kwarg.arg if fdef.args.kwarg else None))
    fdef = default[0]
    rets = [s for s in ast.walk(fdef) if isinstance(s, ast.Return)]
    ok = len(rets) == 1 and isinstance(rets[0].value, ast.Call) and isinstance(rets[0].value.func, ast.Name) \
        and rets[0].value.func.id == var and passthrough(rets[0].value) and len(fdef.body) == 1
    ck.same("R1", where, f"default body: {norm(rets[0]) if rets else '?'}", "returns the looked-up transform applied to (*args, **kwargs) unchanged",
            ok, found=norm(fdef)[:200], nontrivial=True)
    fdef = dask_b[0]
    wraps = [c for c in ast.walk(fdef) if isinstance(c, ast.Call) and prog.resolve_expr_name(mi, c.func) == "dask.array.fft.fft_wrap"]
    if len(wraps) != 1:
        ck.same("R1", where, "dask body", "wraps the transform with dask.array.fft.fft_wrap", False, found=norm(fdef)[:200], nontrivial=True)
        return
    w = wraps[0]
    ck.same("R1", where, f"dask body: {norm(w)}", "fft_wrap receives the same closure variable as the default body", len(w.args) >= 1
            and isinstance(w.args[0], ast.Name) and w.args[0].id == var, found=norm(w), nontrivial=True)
    if len(w.args) > 1 or w.keywords:
        ck.unk("R1", where, f"dask body: {norm(w)}", "declared output metadata of the lazy transform agrees with the reference transform",
               "fft_wrap is given explicit kind/dtype arguments; whether the declared dtype equals what every one of the fourteen transforms "
               "returns for every input dtype is not decided by this rule")
    rets = [s for s in ast.walk(fdef) if isinstance(s, ast.Return)]
    ok = False
    if len(rets) == 1 and isinstance(rets[0].value, ast.Call):
        c = rets[0].value
        tgt = c.func
        is_wrapped = (isinstance(tgt, ast.Call) and tgt is w) or (
            isinstance(tgt, ast.Name) and any(isinstance(s, ast.Assign) and s.value is w and isinstance(s.targets[0], ast.Name)
                                              and s.targets[0].id == tgt.id for s in fdef.body))
        ok = is_wrapped and passthrough(c)
    ck.same("R1", where, f"dask body: {norm(rets[0]) if rets else '?'}", "returns the wrapped transform applied to (*args, **kwargs) unchanged", ok,
            found=norm(fdef)[:240], nontrivial=True)


def lin_zero(e):
    """Is a term that is linear in the data symbols (coefficients: sums of roots of unity) identically zero?"""
    e = sp.expand(e)
    if e == 0:
        return True
    syms = sorted(e.free_symbols, key=lambda x: x.name)
    if not syms:
        return abs(complex(sp.N(e, 50))) < 1e-40
    poly = sp.Poly(e, *syms)
    for coef in poly.coeffs():
        c = sp.expand(coef.rewrite(sp.cos))
        if c == 0:
            continue
        if abs(complex(sp.N(c, 60))) > 1e-45:
            return False
    return True


def _inside(s, parent):
    return any(x is s for x in ast.walk(parent))


# ---------------------------------------------------------------------------------------- R2 small instances
def r2_small(ck, prog, run):
    f_st, f_is = prog.func("stft"), prog.func("istft")
    run.touched(f_st)
    run.touched(f_is)
    cases = [(8, 2, 4, ()), (6, 2, 3, ()), (7, 1, 2, ())] if run.tier == "quick" else \
        [(8, 2, 4, ()), (6, 2, 3, ()), (7, 1, 2, ()), (10, 3, 5, ()), (4, 2, 4, ()), (8, 2, 2, (2,)), (6, 1, 6, ())]
    for nt, c, p, extra in cases:
        tag = f"[N={nt}, nchan={c}, nperseg={p}{', trailing ' + str(extra) if extra else ''}]"
        import itertools
        shp = (nt, c) + tuple(extra)
        d = NdArr(shp, [Num(sp.Symbol("D_" + "_".join(map(str, ix)))) for ix in itertools.product(*[range(k) for k in shp])])
        d.dtype = ExtV("numpy.complex128")

        def D(*ix):
            return sp.Symbol("D_" + "_".join(map(str, ix)))
        cls = "DualPolarizationSignal" if extra == (2,) else "BasebandSignal"
        z = make_signal(prog, cls, n=nt, nchan=c, data=d, freq_align="bottom" if c % 2 == 0 else "center")
        ev = ck.evaluator()
        s = ck.attempt("R2", f_st.where, "stft(z, nperseg) " + tag, "evaluates on an explicit array of symbols",
                       lambda: ev.call(f_st, [z], {"nperseg": Num(p)}), ev=ev, allowed_guards=[])
        if s is None:
            continue
        sd = s.attrs["_data"]
        nseg = nt // p
        want_shape = (nseg, c * p) + tuple(extra)
        if not isinstance(sd, NdArr) or sd.shape != want_shape:
            ck.same("R2", f_st.where, "stft output shape " + tag, "(segments, nchan*nperseg, ...)", False, found=str(getattr(sd, "shape", sd)),
                    expected=str(want_shape), nontrivial=True)
            continue
        # definition: out[m, c*P + k, ...] = (1/P) * sum_n x[m*P + n, c, ...] * exp(-2 pi i n kk / P), kk = (k - P//2) mod P
        bad = []
        for ix in itertools.product(*[range(k) for k in want_shape]):
            m, ch = ix[0], ix[1]
            cc, k = divmod(ch, p)
            kk = (k - p // 2) % p
            ref = sum(D(m * p + n, cc, *ix[2:]) * sp.exp(-2 * sp.pi * sp.I * sp.Rational(n * kk, p)) for n in range(p)) / p
            off = 0
            for a, dim in zip(ix, want_shape):
                off = off * dim + a
            got = sd.items[off].expr
            if not lin_zero(got - ref):
                bad.append((ix, str(got)[:80]))
                if len(bad) > 2:
                    break
        ck.same("R2", f_st.where, "stft values " + tag,
                "every output element equals the STFT definition: segment m, channel c, fftshift-ed bin k at output channel c*P + k, scaled by 1/P",
                not bad, found=str(bad), nontrivial=True)
        ev2 = ck.evaluator()
        r = ck.attempt("R2", f_is.where, "istft(stft(z)) " + tag, "evaluates", lambda: ev2.call(f_is, [s], {"nperseg": Num(p)}), ev=ev2, allowed_guards=[])
        if r is None:
            continue
        rd = r.attrs["_data"]
        want = (nseg * p, c) + tuple(extra)
        ok = isinstance(rd, NdArr) and rd.shape == want
        bad = []
        if ok:
            for ix in itertools.product(*[range(k) for k in want]):
                off = 0
                for a, dim in zip(ix, want):
                    off = off * dim + a
                if not lin_zero(rd.items[off].expr - D(*ix)):
                    bad.append((ix, str(rd.items[off].expr)[:60]))
                    if len(bad) > 2:
                        break
        ck.same("R2", f_is.where, "istft(stft(x)) == x " + tag, "every original sample (up to the truncated tail) is returned exactly",
                ok and not bad, found=str(bad) if ok else str(getattr(rd, "shape", rd)), nontrivial=True)
        ck.same("R2", f_is.where, "istft(stft(z)) metadata " + tag, "sample rate, start time and type are restored",
                r.cls is z.cls and sp.simplify(r.attrs["_sample_rate"].expr - z.attrs["_sample_rate"].expr) == 0
                and sp.simplify(r.attrs["_start_time"].expr - z.attrs["_start_time"].expr) == 0, found=obj_summary(r), nontrivial=True)
        # the input must not have been modified (explicit arrays are mutable in the evaluator too)
        intact = all(x.expr == sp.Symbol("D_" + "_".join(map(str, ix))) for x, ix in zip(d.items, itertools.product(*[range(k) for k in shp])))
        ck.same("R2", f_st.where, "input array after stft/istft " + tag, "the input elements are untouched", intact)


# ---------------------------------------------------------------------------------------- R2 labels
def r2_labels(ck, prog, run):
    f_st, f_is = prog.func("stft"), prog.func("istft")
    q = sp.Symbol("q", integer=True, positive=True)
    k = sp.Symbol("k", integer=True, nonnegative=True)
    aligns = ("bottom", "center", "top")
    for parity, P in (("even", 2 * q), ("odd", 2 * q + 1)):
        for nchan, al in ((2, "bottom"), (2, "top"), (2, "center"), (3, "center"), (1, "center")):
            if run.tier == "quick" and (nchan, al) in ((2, "center"), (1, "center")):
                continue
            tag = f"[nperseg {parity}, nchan={nchan}, '{al}']"
            z = make_signal(prog, "BasebandSignal", n=sp.Symbol("M", integer=True, positive=True) * P, nchan=nchan, freq_align=al)
            ev = ck.evaluator()
            s = ck.attempt("R2", f_st.where, "stft(z, nperseg) labels " + tag, "evaluates", lambda: ev.call(f_st, [z], {"nperseg": Num(P)}), ev=ev,
                           allowed_guards=[])
            if s is None:
                continue
            lz = ev.getattr(z, "channel_freqs", FR())
            ls = ck.attempt("R2", f_st.where, "stft(z).channel_freqs " + tag, "evaluates", lambda: ev.getattr(s, "channel_freqs", FR()), ev=ev)
            if ls is None:
                continue
            ck.eq("R2", f_st.where, "stft sample_rate " + tag, "sample rate divided by nperseg", s.attrs["_sample_rate"].expr, SR * Hz / P)
            ck.eq("R2", f_st.where, "stft start_time " + tag, "start time unchanged", s.attrs["_start_time"].expr, z.attrs["_start_time"].expr)
            ck.eq("R2", f_st.where, "stft channel count " + tag, "nchan * nperseg sub-channels", ls.shape[0], nchan * P)
            for c in range(nchan):
                got = ls.expr.subs(ls.axes[0], c * P + k)
                true = lz.expr.subs(lz.axes[0], c) + (k - sp.floor(P / 2)) * SR * Hz / P
                ck.eq("R2", f_st.where, f"sub-channel labels of channel {c} " + tag,
                      "label of output channel c*P + k == label_c + (k - floor(P/2)) * sample_rate/P (the true frequency of that fftshift-ed bin)",
                      got, true)
            ev2 = ck.evaluator()
            r = ck.attempt("R2", f_is.where, "istft(stft(z)) labels " + tag, "evaluates", lambda: ev2.call(f_is, [s], {"nperseg": Num(P)}), ev=ev2,
                           allowed_guards=[])
            if r is None:
                continue
            lr = ck.attempt("R2", f_is.where, "istft(stft(z)).channel_freqs " + tag, "evaluates", lambda: ev2.getattr(r, "channel_freqs", FR()), ev=ev2)
            if lr is None:
                continue
            ck.eq("R2", f_is.where, "istft sample_rate " + tag, "sample rate restored", r.attrs["_sample_rate"].expr, SR * Hz)
            ck.eq("R2", f_is.where, "istft channel count " + tag, "original channel count restored", lr.shape[0], nchan)
            for c in range(nchan):
                ck.eq("R2", f_is.where, f"istft label of channel {c} " + tag, "original channel labels restored",
                      lr.expr.subs(lr.axes[0], c), lz.expr.subs(lz.axes[0], c))
