"""C20 - pb.fft equals the reference DFT on both back ends; STFT/ISTFT invert and label correctly."""
from __future__ import annotations

import ast
import sympy as sp

from ..spec import value_signature, Checker, FR, obj_summary
from ..sigmodel import make_signal, N, SR, CF, T0
from ..values import Num, StrV, NONE, Hz, ExtV, ObjV, TupleV
from ..extapi import NdArr
from ..symeval import Raised
from ..values import Unsupported
from ..model import norm
from ..cfg import CFG, raised_exception_name
from .. import terms

EXPLANATION = (
    "pulsarbat.fft: the dispatch table and the closure dataflow of the module __getattr__ are read from the syntax tree: the "
    "name list must be exactly the fourteen transform names, each must exist in the installed scipy.fft (introspection of "
    "scipy/dask only - pulsarbat is never imported), the refusal of other names must dominate everything else and raise "
    "AttributeError, the function looked up must be getattr(scipy.fft, <the requested name>) with the name never re-bound, and "
    "both dispatch bodies (default and dask.array.Array) must apply that same closure variable to (*args, **kwargs), the Dask "
    "body through dask.array.fft.fft_wrap. STFT/ISTFT are evaluated by the term evaluator (a) on small concrete arrays of symbols "
    "with an exact DFT, so every output element is an explicit linear combination of input samples: it must equal the STFT "
    "definition (segment m, channel c, sub-channel k -> output channel c*P + k, fftshift-ed bin), and ISTFT(STFT(x)) must return "
    "every input sample; (b) on symbolic signals for the labels: the sub-channel labels read back through channel_freqs must be "
    "the true frequencies label_c + (k - floor(P/2))*sample_rate/P for both parities of nperseg and every input alignment, "
    "sample rate divided/multiplied by P, start time unchanged, and ISTFT must restore rate and labels. Numerical equality with "
    "the reference transforms is not decided."
)

NAMES14 = ["fft", "fft2", "fftn", "ifft", "ifft2", "ifftn", "rfft", "rfft2", "rfftn", "irfft", "irfft2", "irfftn", "hfft", "ihfft"]


def check(run, prog):
    run.explanation = EXPLANATION
    run.assumptions += ["scipy.fft and dask.array.fft behave as documented (their presence is re-checked by introspection)"]
    ck = Checker(run, prog)
    r1(ck, prog, run)
    r2_small(ck, prog, run)
    r2_labels(ck, prog, run)
    # the FFT routines work on (views of) the caller's data: they must never be given permission to overwrite their operand
    from ..structural import overwrite_report
    overwrite_report(ck, prog, "R1")
    from ..structural import hooks_report
    hooks_report(ck, prog, "R1")
    run.extra["decided_by"] = ck.how


# ---------------------------------------------------------------------------------------- R1
def r1(ck, prog, run):
    mi = prog.module("pulsarbat.fft")
    ga = prog.func("__getattr__", module="pulsarbat.fft")
    run.touched(ga)
    where = ga.where
    lst = mi.assigns.get("_FFT_FUNCS")
    try:
        names = list(ast.literal_eval(lst))
    except Exception:
        ck.unk("R1", "pulsarbat/fft.py", "_FFT_FUNCS", "the dispatch table is a literal list of names", "not a literal")
        return
    ck.same("R1", "pulsarbat/fft.py _FFT_FUNCS", "_FFT_FUNCS", "exactly the fourteen transform names of the statement (no more, no fewer, no duplicates)",
            sorted(names) == sorted(NAMES14) and len(names) == 14, found=str(names), expected=str(NAMES14), nontrivial=True)
    # introspection of the installed third-party libraries
    try:
        import scipy.fft as sfft
        import dask.array.fft as dfft
        missing = [n for n in names if not callable(getattr(sfft, n, None))]
        ck.same("R1", "pulsarbat/fft.py _FFT_FUNCS", "installed scipy.fft", "every listed name is a callable of the installed scipy.fft",
                not missing, found=f"missing: {missing}")
        bad = []
        for n in names:
            try:
                dfft.fft_wrap(getattr(sfft, n))
            except Exception as e:  # noqa
                bad.append(f"{n}: {type(e).__name__}")
        ck.same("R1", "pulsarbat/fft.py _FFT_FUNCS", "installed dask.array.fft.fft_wrap", "every listed transform is accepted by dask's fft_wrap",
                not bad, found=str(bad))
        run.analysed["api_entries"] |= {"scipy.fft." + n for n in names} | {"dask.array.fft.fft_wrap"}
    except ImportError as e:
        ck.unk("R1", "pulsarbat/fft.py", "introspection", "scipy.fft / dask.array.fft importable", str(e))
    # semantic evaluation of __getattr__: the returned dispatcher is applied to NumPy- and Dask-tagged arrays
    from ..symeval import Evaluator, Frame
    from ..extapi import EXT
    x_np = Num(sp.Symbol("x"), kind="array", shape=(N, sp.Integer(3)), tag="data", backend="numpy", dtype=ExtV("numpy.complex128"))
    x_da = Num(sp.Symbol("x"), kind="array", shape=(N, sp.Integer(3)), tag="data", backend="dask", dtype=ExtV("numpy.complex128"))
    call_kw = {"axis": Num(0), "n": Num(sp.Symbol("nfft", integer=True, positive=True))}
    for nm in NAMES14:
        ev = Evaluator(prog)
        tag = f"pulsarbat.fft.{nm}"
        try:
            disp = ev.call(ga, [StrV(nm)], {})
            fr0 = Frame(ev, None, None, {}, 0)
            # the 2-D / N-D transforms get their axes out of order: s[i] pairs with axes[i] and the last listed axis is the halved one of the
            # real transforms, so the order is part of the request
            kw = dict(call_kw) if nm in ("fft", "ifft", "rfft", "irfft", "hfft", "ihfft") else {"axes": TupleV([Num(1), Num(0)])}
            ref = EXT["scipy.fft." + nm](ev, [x_np], kw, fr0, None)
            r_np = ev.apply(disp, [x_np], kw, fr0)
            n_before = len([t for t in ev.trace if t[0] == "fft_wrap"])
            r_da = ev.apply(disp, [x_da], kw, fr0)
            wraps = [t for t in ev.trace if t[0] == "fft_wrap"][n_before:]
        except Raised as e:
            ck.same("R1", where, tag, "a listed transform is available", False, found=str(e)[:160], nontrivial=True)
            continue
        except Unsupported as e:
            ck.unk("R1", where, tag, "the dispatch evaluates", str(e)[:200])
            continue
        ck.same("R1", where, tag + " on a NumPy array", f"is scipy.fft.{nm} applied to the caller's arguments unchanged (same name: no remapping)",
                isinstance(r_np, Num) and r_np.expr == ref.expr and r_np.backend != "dask", found=str(r_np)[:120], expected=str(ref.expr)[:120], nontrivial=True)
        okw = len(wraps) == 1 and isinstance(wraps[0][1], ExtV) and wraps[0][1].dotted == "scipy.fft." + nm \
            and len(wraps[0][2]) == 1 and wraps[0][2][0] is x_da and set(wraps[0][3]) == set(kw) \
            and all(value_signature(wraps[0][3][k_]) == value_signature(kw[k_]) for k_ in kw)
        ck.same("R1", where, tag + " on a Dask array", f"is dask.array.fft.fft_wrap(scipy.fft.{nm}) applied to the caller's arguments unchanged, lazily (result stays Dask-backed)",
                okw and isinstance(r_da, Num) and r_da.expr == ref.expr and r_da.backend == "dask",
                found=f"wrapped: {[str(t[1]) for t in wraps]}; result {str(r_da)[:80]} backend={getattr(r_da, 'backend', None)}", nontrivial=True)
        if wraps and wraps[0][4]:
            declared_vs_reference(ck, prog, ga, where, nm, kw, sorted(wraps[0][4]))
    # names outside the table, including every other public name of the installed scipy.fft (near misses such as hfft2 / ihfftn,
    # which exist in scipy.fft and belong to a listed family, must still be refused)
    others = ["fftfreq", "dct", "fftshift", "next_fast_len", "fft_", "FFT", "_FFT_FUNCS", "__wrapped__", "hfft2", "hfftn", "ihfft2", "ihfftn", "fft3", "rfft1", "fftnn", "nfft", "2fft", ""]
    try:
        import scipy.fft as _sf
        others += sorted(n_ for n_ in dir(_sf) if not n_.startswith("_") and n_ not in others)
    except Exception:
        pass
    for nm in others:
        if nm in NAMES14:
            continue
        ev = Evaluator(prog)
        try:
            ev.call(ga, [StrV(nm)], {})
            ck.same("R1", where, f"pulsarbat.fft.{nm}", "a name outside the table raises AttributeError", False, found="returned a function", nontrivial=True)
        except Raised as e:
            ck.same("R1", where, f"pulsarbat.fft.{nm}", "a name outside the table raises AttributeError", e.exc_name == "AttributeError", found=str(e)[:120],
                    nontrivial=True)
        except Unsupported as e:
            ck.unk("R1", where, f"pulsarbat.fft.{nm}", "a name outside the table raises AttributeError", str(e)[:200])


def reference_dtype(nm, in_dtype):
    """Output dtype of the *installed* scipy.fft transform for a small array of the given dtype (third-party introspection)."""
    import numpy as np
    import scipy.fft as sfft
    x = np.ones((4, 4), dtype=getattr(np, in_dtype))
    try:
        return getattr(sfft, nm)(x).dtype.name
    except Exception:
        return None


def declared_vs_reference(ck, prog, ga, where, nm, kw, given):
    from ..symeval import Evaluator, Frame
    for in_dt in ("float32", "float64", "complex64", "complex128", "int8", "uint8", "int16", "int32", "int64", "bool_", "float16"):
        ref = reference_dtype(nm, in_dt)
        if ref is None:
            continue
        ev = Evaluator(prog)
        x = Num(sp.Symbol("x"), kind="array", shape=(sp.Integer(4), sp.Integer(4)), tag="data", backend="dask", dtype=ExtV("numpy." + in_dt))
        tag = f"pulsarbat.fft.{nm} on a {in_dt} Dask array: declared dtype"
        try:
            disp = ev.call(ga, [StrV(nm)], {})
            ev.apply(disp, [x], {}, Frame(ev, None, None, {}, 0))
        except Raised as e:
            ck.same("R1", where, tag, "the lazy transform is built", False, found=str(e)[:120])
            continue
        except Unsupported as e:
            ck.unk("R1", where, tag, "explicit kind/dtype arguments to fft_wrap agree with what the reference transform returns",
                   f"fft_wrap is given {given}; not evaluable: {str(e)[:140]}")
            continue
        w = [t for t in ev.trace if t[0] == "fft_wrap"]
        decl = w[-1][4].get("dtype") if w else None
        if decl is None or isinstance(decl, type(None)) or decl.__class__.__name__ == "NoneV":
            continue
        name = decl.dotted[6:] if isinstance(decl, ExtV) and decl.dotted.startswith("numpy.") else repr(decl)
        ck.same("R1", where, tag, f"a dtype declared to dask's fft_wrap equals what scipy.fft.{nm} returns for that input ({ref})",
                name == ref, found=name, expected=ref, nontrivial=True)


def lin_zero(e):
    """Is a term that is linear in the data symbols (coefficients: sums of roots of unity) identically zero?"""
    e = sp.expand(e)
    if e == 0:
        return True
    syms = sorted(e.free_symbols, key=lambda x: x.name)
    if not syms:
        return abs(complex(sp.N(e, 50))) < 1e-40
    poly = sp.Poly(e, *syms)
    for coef in poly.coeffs():
        c = sp.expand(coef.rewrite(sp.cos))
        if c == 0:
            continue
        if abs(complex(sp.N(c, 60))) > 1e-45:
            return False
    return True


def _inside(s, parent):
    return any(x is s for x in ast.walk(parent))


# ---------------------------------------------------------------------------------------- R2 small instances
def r2_small(ck, prog, run):
    f_st, f_is = prog.func("stft"), prog.func("istft")
    run.touched(f_st)
    run.touched(f_is)
    cases = [(8, 2, 4, ()), (6, 2, 3, ()), (7, 1, 2, ())] if run.tier == "quick" else \
        [(8, 2, 4, ()), (6, 2, 3, ()), (7, 1, 2, ()), (10, 3, 5, ()), (4, 2, 4, ()), (8, 2, 2, (2,)), (6, 1, 6, ())]
    for nt, c, p, extra in cases:
        tag = f"[N={nt}, nchan={c}, nperseg={p}{', trailing ' + str(extra) if extra else ''}]"
        import itertools
        shp = (nt, c) + tuple(extra)
        d = NdArr(shp, [Num(sp.Symbol("D_" + "_".join(map(str, ix)))) for ix in itertools.product(*[range(k) for k in shp])])
        d.dtype = ExtV("numpy.complex128")

        def D(*ix):
            return sp.Symbol("D_" + "_".join(map(str, ix)))
        cls = "DualPolarizationSignal" if extra == (2,) else "BasebandSignal"
        z = make_signal(prog, cls, n=nt, nchan=c, data=d, freq_align="bottom" if c % 2 == 0 else "center")
        ev = ck.evaluator()
        s = ck.attempt("R2", f_st.where, "stft(z, nperseg) " + tag, "evaluates on an explicit array of symbols",
                       lambda: ev.call(f_st, [z], {"nperseg": Num(p)}), ev=ev, allowed_guards=[])
        if s is None:
            continue
        sd = s.attrs["_data"]
        nseg = nt // p
        want_shape = (nseg, c * p) + tuple(extra)
        if not isinstance(sd, NdArr) or sd.shape != want_shape:
            ck.same("R2", f_st.where, "stft output shape " + tag, "(segments, nchan*nperseg, ...)", False, found=str(getattr(sd, "shape", sd)),
                    expected=str(want_shape), nontrivial=True)
            continue
        # definition: out[m, c*P + k, ...] = (1/P) * sum_n x[m*P + n, c, ...] * exp(-2 pi i n kk / P), kk = (k - P//2) mod P
        bad = []
        for ix in itertools.product(*[range(k) for k in want_shape]):
            m, ch = ix[0], ix[1]
            cc, k = divmod(ch, p)
            kk = (k - p // 2) % p
            ref = sum(D(m * p + n, cc, *ix[2:]) * sp.exp(-2 * sp.pi * sp.I * sp.Rational(n * kk, p)) for n in range(p)) / p
            off = 0
            for a, dim in zip(ix, want_shape):
                off = off * dim + a
            got = sd.items[off].expr
            if not lin_zero(got - ref):
                bad.append((ix, str(got)[:80]))
                if len(bad) > 2:
                    break
        ck.same("R2", f_st.where, "stft values " + tag,
                "every output element equals the STFT definition: segment m, channel c, fftshift-ed bin k at output channel c*P + k, scaled by 1/P",
                not bad, found=str(bad), nontrivial=True)
        ev2 = ck.evaluator()
        r = ck.attempt("R2", f_is.where, "istft(stft(z)) " + tag, "evaluates", lambda: ev2.call(f_is, [s], {"nperseg": Num(p)}), ev=ev2, allowed_guards=[])
        if r is None:
            continue
        rd = r.attrs["_data"]
        want = (nseg * p, c) + tuple(extra)
        ok = isinstance(rd, NdArr) and rd.shape == want
        bad = []
        if ok:
            for ix in itertools.product(*[range(k) for k in want]):
                off = 0
                for a, dim in zip(ix, want):
                    off = off * dim + a
                if not lin_zero(rd.items[off].expr - D(*ix)):
                    bad.append((ix, str(rd.items[off].expr)[:60]))
                    if len(bad) > 2:
                        break
        ck.same("R2", f_is.where, "istft(stft(x)) == x " + tag, "every original sample (up to the truncated tail) is returned exactly",
                ok and not bad, found=str(bad) if ok else str(getattr(rd, "shape", rd)), nontrivial=True)
        ck.same("R2", f_is.where, "istft(stft(z)) metadata " + tag, "sample rate, start time and type are restored",
                r.cls is z.cls and sp.simplify(r.attrs["_sample_rate"].expr - z.attrs["_sample_rate"].expr) == 0
                and sp.simplify(r.attrs["_start_time"].expr - z.attrs["_start_time"].expr) == 0, found=obj_summary(r), nontrivial=True)
        # the input must not have been modified (explicit arrays are mutable in the evaluator too)
        intact = all(x.expr == sp.Symbol("D_" + "_".join(map(str, ix))) for x, ix in zip(d.items, itertools.product(*[range(k) for k in shp])))
        ck.same("R2", f_st.where, "input array after stft/istft " + tag, "the input elements are untouched", intact)


# ---------------------------------------------------------------------------------------- R2 labels
def r2_labels(ck, prog, run):
    f_st, f_is = prog.func("stft"), prog.func("istft")
    q = sp.Symbol("q", integer=True, positive=True)
    k = sp.Symbol("k", integer=True, nonnegative=True)
    aligns = ("bottom", "center", "top")
    for parity, P in (("even", 2 * q), ("odd", 2 * q + 1)):
        for nchan, al, cname in ((2, "bottom", "BasebandSignal"), (2, "top", "BasebandSignal"), (2, "center", "BasebandSignal"), (3, "center", "BasebandSignal"),
                                 (1, "center", "BasebandSignal"), (2, "bottom", "DualPolarizationSignal"), (2, "top", "DualPolarizationSignal")):
            if run.tier == "quick" and (nchan, al) in ((2, "center"), (1, "center")):
                continue
            tag = f"[nperseg {parity}, nchan={nchan}, '{al}'{'' if cname == 'BasebandSignal' else ', ' + cname}]"
            z = make_signal(prog, cname, n=sp.Symbol("M", integer=True, positive=True) * P, nchan=nchan, freq_align=al)
            ev = ck.evaluator()
            s = ck.attempt("R2", f_st.where, "stft(z, nperseg) labels " + tag, "evaluates", lambda: ev.call(f_st, [z], {"nperseg": Num(P)}), ev=ev,
                           allowed_guards=[])
            if s is None:
                continue
            ck.same("R2", f_st.where, "stft operand " + tag, "the transform leaves the signal it is given untouched (no in-place operation reaches its buffer through "
                    "a reshape/swapaxes view): transforming it again gives the same result", str(z.attrs["_data"].expr) == "D_z",
                    found=str(z.attrs["_data"].expr)[:120], nontrivial=True)
            lz = ev.getattr(z, "channel_freqs", FR())
            ls = ck.attempt("R2", f_st.where, "stft(z).channel_freqs " + tag, "evaluates", lambda: ev.getattr(s, "channel_freqs", FR()), ev=ev)
            if ls is None:
                continue
            ck.eq("R2", f_st.where, "stft sample_rate " + tag, "sample rate divided by nperseg", s.attrs["_sample_rate"].expr, SR * Hz / P)
            ck.eq("R2", f_st.where, "stft start_time " + tag, "start time unchanged", s.attrs["_start_time"].expr, z.attrs["_start_time"].expr)
            ck.eq("R2", f_st.where, "stft channel count " + tag, "nchan * nperseg sub-channels", ls.shape[0], nchan * P)
            for c in range(nchan):
                got = ls.expr.subs(ls.axes[0], c * P + k)
                true = lz.expr.subs(lz.axes[0], c) + (k - sp.floor(P / 2)) * SR * Hz / P
                ck.eq("R2", f_st.where, f"sub-channel labels of channel {c} " + tag,
                      "label of output channel c*P + k == label_c + (k - floor(P/2)) * sample_rate/P (the true frequency of that fftshift-ed bin)",
                      got, true)
            ev2 = ck.evaluator()
            s_before = str(s.attrs["_data"].expr) if isinstance(s.attrs.get("_data"), Num) else None
            r = ck.attempt("R2", f_is.where, "istft(stft(z)) labels " + tag, "evaluates", lambda: ev2.call(f_is, [s], {"nperseg": Num(P)}), ev=ev2,
                           allowed_guards=[])
            if r is None:
                continue
            if s_before is not None:
                after = str(s.attrs["_data"].expr) if isinstance(s.attrs.get("_data"), Num) else "?"
                ck.same("R2", f_is.where, "istft operand " + tag, "the inverse leaves the STFT signal it is given untouched: inverting the same STFT twice gives the same signal",
                        after == s_before, found=after[:140], nontrivial=True)
            lr = ck.attempt("R2", f_is.where, "istft(stft(z)).channel_freqs " + tag, "evaluates", lambda: ev2.getattr(r, "channel_freqs", FR()), ev=ev2)
            if lr is None:
                continue
            ck.eq("R2", f_is.where, "istft sample_rate " + tag, "sample rate restored", r.attrs["_sample_rate"].expr, SR * Hz)
            ck.eq("R2", f_is.where, "istft channel count " + tag, "original channel count restored", lr.shape[0], nchan)
            for c in range(nchan):
                ck.eq("R2", f_is.where, f"istft label of channel {c} " + tag, "original channel labels restored",
                      lr.expr.subs(lr.axes[0], c), lz.expr.subs(lz.axes[0], c))
