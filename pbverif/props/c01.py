"""C01 - Retained samples keep their absolute timestamps under every crop or slice."""
from __future__ import annotations

import sympy as sp

from ..spec import Checker, FR, obj_summary, nonzero_shift_oracle
from ..sigmodel import make_signal, N, NCHAN, CF, BW, SR, T0
from ..values import Num, StrV, ObjV, NONE, Hz, F, NONE_S, TupleV, SliceV, BoolV, CondV, NoneV
from ..symeval import Raised
from ..values import Unsupported
from ..extapi import StackV
from .. import terms
from ..sign import is_nonneg, facts_nonneg
from ..boolterms import bool_equal
from .c13 import meta_same
from .c06 import destructure_item

EXPLANATION = (
    "Every cropping site is evaluated by the term evaluator on symbolic signals (symbolic length, rate, start time and slice "
    "bounds of unknown sign): Signal/RadioSignal.__getitem__ with _time_slice, fast_len, time_shift(crop=True), snippet, "
    "coherent/incoherent dedispersion and stft.  Obligations: start_time' == start_time + (normalised start)/sample_rate where "
    "the normalised start is CPython's slice.indices clamp of the raw bound (a formula using the raw bound differs for negative "
    "or out-of-range bounds and is refuted by an exact witness), sample_rate' == sample_rate/step, no start_time is invented, "
    "the data is subscripted with the same index, stop_time/time_length/dt formulas, the Boolean normal form of contains() by "
    "exhaustive truth table over its comparison atoms, sibling agreement of the reader's versions, and (sign domain) every "
    "computed signal-level slice bound is non-negative by construction.  Rounding of astropy Time arithmetic is not decided."
)


def clamp(a, n):
    return sp.Piecewise((sp.Max(a + n, 0), a < 0), (sp.Min(a, n), True))


def check(run, prog):
    run.explanation = EXPLANATION
    run.assumptions += ["real-number semantics for Time/Quantity arithmetic", "CPython slice.indices semantics"]
    ck = Checker(run, prog)
    f_ts = prog.func("Signal._time_slice")
    f_gi = prog.func("Signal.__getitem__")
    f_rgi = prog.func("RadioSignal.__getitem__")
    for f in (f_ts, f_gi, f_rgi):
        run.touched(f)
    a = sp.Symbol("a", integer=True)
    b = sp.Symbol("b", integer=True)
    k = sp.Symbol("k", integer=True, nonnegative=True)

    # ------------------------------------------------------------------ R1 / R2: time slicing
    cases = [("z[a:b]", SliceV(Num(a), Num(b), NONE), 1), ("z[a:]", SliceV(Num(a), NONE, NONE), 1),
             ("z[:b]", SliceV(NONE, Num(b), NONE), 1), ("z[a:b:1]", SliceV(Num(a), Num(b), Num(1)), 1),
             ("z[a:b:k+2]", SliceV(Num(a), Num(b), Num(k + 2)), k + 2), ("z[::k+2]", SliceV(NONE, NONE, Num(k + 2)), k + 2),
             ("z[a::3]", SliceV(Num(a), NONE, Num(3)), 3)]
    targets = [("Signal", f_gi, lambda s: s), ("RadioSignal", f_rgi, lambda s: TupleV([s, SliceV(NONE, NONE, NONE)])),
               ("RadioSignal", f_rgi, lambda s: s)]
    if run.tier == "thorough":
        targets += [("DualPolarizationSignal", f_rgi, lambda s: TupleV([s, SliceV(NONE, NONE, NONE)])),
                    ("FullStokesSignal", prog.func("FullStokesSignal.__getitem__"), lambda s: s)]
    for clsname, fi, wrap in targets:
        for has_t in (True, False):
            for label, sl, step in cases:
                z = make_signal(prog, clsname, start_time=has_t, nchan=3 if clsname != "Signal" else NCHAN)
                ev = ck.evaluator()
                idx = wrap(sl)
                tag = f"{clsname}: {label}{'' if has_t else ' (no start_time)'}{' with frequency slice' if isinstance(idx, TupleV) else ''}"
                out = ck.attempt("R1", fi.where, tag, "time slice evaluates", lambda: ev.getitem(z, idx, FR()), ev=ev, allowed_guards=[])
                if out is None:
                    continue
                raw_a = None if isinstance(sl.start, NoneV) else sl.start.expr
                exp_start = sp.Integer(0) if raw_a is None else clamp(raw_a, N)
                if has_t:
                    st = out.attrs.get("_start_time")
                    if not isinstance(st, Num):
                        ck.same("R1", f_ts.where, tag, "a signal with a start time keeps one", False, found=repr(st))
                    else:
                        ck.eq("R1", f_ts.where, tag + ": start_time", "start_time' == start_time + (dropped leading samples)/sample_rate, "
                              "dropped = slice.indices-normalised start", st.expr, (T0 + exp_start / SR) / Hz)
                else:
                    ck.same("R1", f_ts.where, tag + ": start_time", "a signal without a start time never acquires one",
                            out.attrs.get("_start_time") is NONE, found=repr(out.attrs.get("_start_time")))
                ck.eq("R1", f_ts.where, tag + ": sample_rate", "sample_rate' == sample_rate / step", out.attrs["_sample_rate"].expr, SR * Hz / step)
                # R2: same index object reaches the data
                d = out.attrs["_data"]
                from ..extapi import index_term
                exp_data = F["Idx"](z.attrs["_data"].expr, index_term(ev, idx if isinstance(idx, TupleV) else TupleV([idx])))
                if isinstance(d, Num):
                    ok = d.expr == exp_data or (isinstance(idx, SliceV) and d.expr == F["Idx"](z.attrs["_data"].expr, index_term(ev, idx)))
                    ck.same("R2", fi.where, tag + ": data", "the data is subscripted with exactly the index that produced the metadata",
                            bool(ok), found=str(d.expr)[:160], expected=str(exp_data)[:160], nontrivial=True)
                ck.same("R2", fi.where, tag + ": type", "slicing returns the same signal class", out.cls is z.cls, found=out.cls.name)
                bad = meta_same(z, out, skip=("_data", "_start_time", "_sample_rate", "_center_freq", "_freq_align", "_chan_bw"))
                ck.same("R2", fi.where, tag + ": other metadata", "nothing else is overridden", not bad, found="; ".join(bad))
    # negative step is refused
    z = make_signal(prog, "Signal")
    ev = ck.evaluator()
    try:
        ev.getitem(z, SliceV(NONE, NONE, Num(-1)), FR())
        ck.same("R1", f_ts.where, "z[::-1]", "a negative step is refused rather than mislabelled", False, found="returned a signal")
    except (Raised,) as e:
        ck.same("R1", f_ts.where, "z[::-1]", "a negative step is refused rather than mislabelled", True, found=str(e))
    except Unsupported as e:
        ck.same("R1", f_ts.where, "z[::-1]", "a negative step is refused rather than mislabelled",
                "non-positive step" in str(e), found=str(e))

    # ------------------------------------------------------------------ R3: derived time attributes
    for clsname in ("Signal", "RadioSignal"):
        z = make_signal(prog, clsname)
        zn = make_signal(prog, clsname, start_time=False)
        ev = ck.evaluator()
        g = lambda o, n: ck.attempt("R3", prog.getter("Signal", n).where, f"{clsname}.{n}", "evaluates", lambda: ev.getattr(o, n, FR()), ev=ev)  # noqa: E731
        stp, tl, dt = g(z, "stop_time"), g(z, "time_length"), g(z, "dt")
        if stp is not None:
            ck.eq("R3", prog.getter("Signal", "stop_time").where, f"{clsname}.stop_time", "== start_time + len/sample_rate", stp, (T0 + N / SR) / Hz)
        if tl is not None:
            ck.eq("R3", prog.getter("Signal", "time_length").where, f"{clsname}.time_length", "== len/sample_rate", tl, N / SR / Hz)
        if dt is not None:
            ck.eq("R3", prog.getter("Signal", "dt").where, f"{clsname}.dt", "== 1/sample_rate", dt, 1 / (SR * Hz))
        sn = g(zn, "stop_time")
        ck.same("R3", prog.getter("Signal", "stop_time").where, f"{clsname}.stop_time without start", "is None iff start_time is None",
                sn is NONE, found=repr(sn))
        _contains(ck, prog, ev, z, zn, prog.func("Signal.contains"), f"{clsname}.contains")
        # `t in z` is the sibling route of contains(t): the operator must give the same verdict
        _contains(ck, prog, ev, z, zn, prog.func("Signal.__contains__"), f"{clsname}.__contains__  (t in z)")
    # ------------------------------------------------------------------ NT: the index may be made of NumPy integers
    for clsname, fi_ in (("Signal", f_gi), ("RadioSignal", f_rgi)):
        for label, mkidx in (("z[2:50:3]", lambda mk: SliceV(mk(2), mk(50), mk(3))), ("z[::4]", lambda mk: SliceV(NONE, NONE, mk(4))),
                             ("z[-40:-2]", lambda mk: SliceV(mk(-40), mk(-2), NONE)), ("z[5:]", lambda mk: SliceV(mk(5), NONE, NONE))):
            zc = make_signal(prog, clsname, n=64, nchan=3 if clsname != "Signal" else NCHAN)
            ck.number_types("NT", fi_.where, f"{clsname}: {label}", lambda ev, mk, zc=zc, mkidx=mkidx: ev.getitem(zc, mkidx(mk), FR()))
    # reader siblings
    _reader_siblings(ck, prog)

    # ------------------------------------------------------------------ R4 / R5: other cropping sites
    _crop_sites(ck, prog, run)
    run.extra["decided_by"] = ck.how


def _contains(ck, prog, ev, z, zn, fi, label, t0=None, t1=None):
    t = sp.Symbol("t", real=True)
    tv = Num(t / Hz, kind="time", shape=())
    r = ck.attempt("R3", fi.where, label + "(t)", "evaluates", lambda: ev.call(fi, [tv], {}, self_val=z), ev=ev)
    if r is not None:
        e = r.expr if isinstance(r, (Num, CondV)) else None
        T0e = (T0 / Hz) if t0 is None else t0
        T1e = ((T0 + N / SR) / Hz) if t1 is None else t1
        c0 = sp.Ne(F["TClose"](t / Hz, T0e), 0)
        c1 = sp.Ne(F["TClose"](t / Hz, T1e), 0)
        exp = sp.And(sp.Or(sp.Not(c1), c0), sp.Le(T0e, t / Hz), sp.Lt(t / Hz, T1e))
        if e is None:
            ck.unk("R3", fi.where, label, "membership is a Boolean term", repr(r))
        else:
            eqv, wit = bool_equal(_norm_bool(e), _norm_bool(exp))
            ck.run.ob("R3", fi.where, label, "agrees with the half-open interval [start_time, stop_time): "
                      "(not close(t, stop) or close(t, start)) and start <= t and t < stop", eqv, found=str(e)[:300], expected=str(exp)[:300],
                      witness=wit, nontrivial=True, note="decided by exhaustive truth table over the comparison atoms")
    rn = ck.attempt("R3", fi.where, label + " without start_time", "evaluates", lambda: ev.call(fi, [tv], {}, self_val=zn), ev=ev)
    if rn is not None:
        ck.same("R3", fi.where, label + " without start_time", "nothing is a member of a signal without start time",
                isinstance(rn, BoolV) and rn.b is False, found=repr(rn))


def _norm_bool(e):
    """Simplify arguments of atoms so that syntactically different but equal time terms coincide."""
    def fix(x):
        if isinstance(x, (sp.And, sp.Or, sp.Not)):
            return x.func(*[fix(a) for a in x.args])
        if isinstance(x, sp.core.relational.Relational):
            if isinstance(x, (sp.Eq, sp.Ne)) and x.rhs == 0 and isinstance(x.lhs, sp.core.function.AppliedUndef):
                inner = x.lhs.func(*[sp.simplify(a) for a in x.lhs.args])
                return sp.Ne(inner, 0) if isinstance(x, sp.Ne) else sp.Not(sp.Ne(inner, 0))
            d = sp.simplify(x.lhs - x.rhs)
            # all atoms are of the form  t ~ c : normalise to (t*Hz) ~ (c*Hz)
            return x.func(sp.simplify(x.lhs * Hz), sp.simplify(x.rhs * Hz))
        return x
    return fix(sp.sympify(e))


def make_reader(prog, start_time=True):
    ci = prog.cls("BaseReader")
    return ObjV(ci, {"_shape": TupleV([Num(N), Num(2)]), "_sample_rate": Num(SR * Hz, kind="quantity"),
                     "_start_time": Num(T0 / Hz, kind="time") if start_time else NONE,
                     "_signal_type": None, "_signal_kwargs": None, "_dtype": None})


def _reader_siblings(ck, prog):
    r, rn = make_reader(prog), make_reader(prog, False)
    ev = ck.evaluator()
    g = lambda o, n: ck.attempt("R3", prog.getter("BaseReader", n).where, f"BaseReader.{n}", "evaluates", lambda: ev.getattr(o, n, FR()), ev=ev)  # noqa: E731
    stp, tl, dt = g(r, "stop_time"), g(r, "time_length"), g(r, "dt")
    if stp is not None:
        ck.eq("R3", prog.getter("BaseReader", "stop_time").where, "BaseReader.stop_time", "sibling of Signal.stop_time: start_time + len/sample_rate", stp, (T0 + N / SR) / Hz)
    if tl is not None:
        ck.eq("R3", prog.getter("BaseReader", "time_length").where, "BaseReader.time_length", "== len/sample_rate", tl, N / SR / Hz)
    if dt is not None:
        ck.eq("R3", prog.getter("BaseReader", "dt").where, "BaseReader.dt", "== 1/sample_rate", dt, 1 / (SR * Hz))
    _contains(ck, prog, ev, r, rn, prog.func("BaseReader.contains"), "BaseReader.contains")
    _contains(ck, prog, ev, r, rn, prog.func("BaseReader.__contains__"), "BaseReader.__contains__  (t in reader)")


def _bounds_of(idx):
    first = idx.items[0] if isinstance(idx, TupleV) else idx
    if isinstance(first, SliceV):
        return [x.expr for x in (first.start, first.stop) if isinstance(x, Num)]
    return []


def _crop_sites(ck, prog, run):
    from .c06 import dm_value, _freq_constraints
    s = sp.Symbol("s", real=True)
    t = sp.Symbol("t", real=True)
    n = sp.Symbol("n", integer=True)
    P = sp.Symbol("P", integer=True, positive=True)
    oracle_nz = nonzero_shift_oracle()
    sites = []
    f_fast = prog.func("fast_len")
    f_tsh = prog.func("time_shift")
    f_snip = prog.func("snippet")
    f_coh = prog.func("coherent_dedispersion")
    f_stft = prog.func("stft")
    z = make_signal(prog, "BasebandSignal", nchan=2)
    plans = [
        (f_fast, [z], {}, None, "fast_len(z)"),
        (f_tsh, [z, Num(s)], {"crop": BoolV(True)}, oracle_nz, "time_shift(z, s, crop=True)"),
        (f_snip, [z, Num(t), Num(n)], {}, oracle_nz, "snippet(z, t, n)"),
        (f_coh, [z, dm_value(prog)], {}, None, "coherent_dedispersion(z, DM)"),
        (f_stft, [make_signal(prog, "BasebandSignal", nchan=2)], {"nperseg": Num(2 * P)}, None, "stft(z, nperseg)"),
        (prog.func("incoherent_dedispersion"), [make_signal(prog, "RadioSignal", nchan=3), dm_value(prog)], {}, None, "incoherent_dedispersion(z, DM)"),
    ]
    n_sites = 0
    results = {}
    for fi, args, kw, oracle, label in plans:
        run.touched(fi)
        ev = ck.evaluator(oracle=oracle)
        out = ck.attempt("R4", fi.where, label, "evaluates on a symbolic signal", lambda: ev.call(fi, args, kw), ev=ev,
                         allowed_guards=["ValueError"])
        results[label] = (out, ev)
        if out is None:
            continue
        if label.startswith("incoherent_dedispersion"):
            continue        # its per-channel array crops are decided by C06 (in-range sources); here only the time ledger below
        for sfi, node, idx, facts in ev.signal_slices:
            known = facts_nonneg(facts)
            for bnd in _bounds_of(idx):
                n_sites += 1
                ok = is_nonneg(bnd, known)
                ck.same("R5", sfi.where, f"{label}: slice bound {str(bnd)[:100]}",
                        "signal-level slice bounds computed by library code are non-negative by construction "
                        "(a negative bound would be read as an index from the end and keep samples with wrong times)",
                        ok, found="not provably >= 0 by the sign rules", nontrivial=True)
    run.floor("R5", "computed signal-level slice bounds examined", n_sites, 7)
    # the time ledger of every cropping operation is a physical quantity: it cannot depend on the unit the caller's sample rate (or any
    # other Quantity) happens to be held in -- a bare `.value` of such a quantity leaves that unknown scale in the result
    for label, (out, ev) in results.items():
        if not isinstance(out, ObjV):
            continue
        leaked = []
        for attr in ("_start_time", "_sample_rate"):
            v_ = out.attrs.get(attr)
            if isinstance(v_, Num):
                leaked += [f"{attr[1:]}: {x_}" for x_ in sorted(map(str, v_.expr.free_symbols)) if x_.startswith("unitof_")]
        fi_ = next(f for f, _a, _k, _o, l in plans if l == label)
        ck.same("R4", fi_.where, f"{label}: time ledger", "start time and sample rate of the result do not depend on the unit a Quantity argument is held in",
                not leaked, found="; ".join(leaked)[:200] or None, nontrivial=True)
    # R4 ledgers
    out, ev = results["fast_len(z)"]
    if out is not None:
        ds = destructure_item(out.attrs["_data"].expr)
        ok = ds is not None and ds[1] == NONE_S and ds[2] == F["PrevFast"](N) and ds[3] == NONE_S
        ck.same("R4", f_fast.where, "fast_len: z[:prev_fast_len(len(z))]", "crops from the end only, to exactly prev_fast_len(len) samples",
                ok, found=str(out.attrs["_data"].expr)[:160], nontrivial=True)
        ck.eq("R4", f_fast.where, "fast_len: start_time", "unchanged (nothing is dropped at the front)", out.attrs["_start_time"].expr, T0 / Hz)
    out, ev = results["time_shift(z, s, crop=True)"]
    if out is not None and isinstance(out.attrs["_data"], Num):
        ds = destructure_item(out.attrs["_data"].expr)
        if ds is None:
            ck.unk("R4", f_tsh.where, "time_shift(crop=True)", "result is a time slice of the shifted data", str(out.attrs["_data"].expr)[:200])
        else:
            base, lo, hi, st, rest = ds
            e_lo = sp.Max(0, sp.ceiling(s))
            e_hi = sp.Max(e_lo, N + sp.Min(0, sp.floor(s)))
            ck.eq("R4", f_tsh.where, "time_shift(crop=True): first kept sample", "== max(0, ceil(s)): the zero-filled leading samples are dropped", lo, e_lo)
            ck.eq("R4", f_tsh.where, "time_shift(crop=True): end of kept range", "== len + min(0, floor(s)), never below the start", hi, e_hi)
            ck.eq("R4", f_tsh.where, "time_shift(crop=True): start_time", "advances by the dropped leading samples (at most len)",
                  out.attrs["_start_time"].expr, (T0 + sp.Min(e_lo, N) / SR) / Hz)
            ev0 = ck.evaluator(oracle=oracle_nz)
            out0 = ck.attempt("R4", f_tsh.where, "time_shift(z, s)", "evaluates", lambda: ev0.call(f_tsh, [z, Num(s)], {}), ev=ev0)
            if out0 is not None:
                ck.same("R4", f_tsh.where, "time_shift: crop=True vs crop=False", "crop=True is a slice of exactly what crop=False returns",
                        base == out0.attrs["_data"].expr, found=str(base)[:120], expected=str(out0.attrs["_data"].expr)[:120], nontrivial=True)
    run.extra["signal_level_slice_bounds"] = n_sites
