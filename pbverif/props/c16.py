"""C16 - Every signal object satisfies its class contract; copies reproduce it faithfully."""
from __future__ import annotations

import ast
import sympy as sp

from ..spec import Checker, FR, obj_summary
from ..sigmodel import make_signal, N, NCHAN, SR, CF, BW, T0
from ..values import Num, StrV, NONE, Hz, ExtV, ObjV, ListV, DictV, TupleV, BoolV, NoneV
from ..symeval import Raised
from ..values import Unsupported, DimensionError
from ..model import norm
from .c13 import meta_same

EXPLANATION = (
    "Constructors and property setters of the six signal classes are evaluated by the term evaluator on abstract arguments of "
    "every kind the statement names: for each metadata setter a table of invalid arguments (wrong unit, plain number, None, "
    "string, non-scalar, zero, negative, NaN, unhashable, wrong literal) must raise ValueError and leave the stored attribute "
    "untouched, and valid arguments must be stored; Signal.__init__ is evaluated on array shapes/dtypes that violate the class "
    "tables (too few dimensions, wrong fixed axis, empty sample shape also with an empty time axis, dtype outside the allowed set "
    "with numpy's own safe-cast table) and must raise InvalidSignalError (a ValueError); baseband signals must come out with "
    "chan_bw == sample_rate and reject a chan_bw argument. Structural rules over the syntax tree: private fields are stored only by "
    "their own setter / Signal.__init__, setters are used only on self inside constructors, every constructor parameter has a "
    "readable attribute of the same name (what like() copies), every cross-class like() site is satisfiable, no class customises "
    "pickling; like() and the Dask container helpers are evaluated and must reproduce every attribute."
)

PRIVATE = {"_data": None, "_sample_rate": "sample_rate", "_start_time": "start_time", "_meta": "meta",
           "_center_freq": "center_freq", "_chan_bw": "chan_bw", "_freq_align": "freq_align", "_pol_type": "pol_type"}
PICKLE_HOOKS = {"__reduce__", "__reduce_ex__", "__getstate__", "__setstate__", "__getnewargs__", "__getnewargs_ex__", "__slots__",
                "__copy__", "__deepcopy__"}


def q(e):
    return Num(e, kind="quantity")


def check(run, prog):
    run.explanation = EXPLANATION
    run.assumptions += ["astropy Quantity.to / Time() raise for invalid input as modelled in pbverif/extapi.py",
                        "numpy.can_cast is the reference for casting='safe'"]
    ck = Checker(run, prog)
    r1_setters(ck, prog, run)
    r2_init(ck, prog, run)
    r3_who_may_write(ck, prog, run)
    r4_signature(ck, prog, run)
    # the class contract also holds for signals that were the target of an in-place / out= operation (Dask re-points out= arrays, dtype included)
    from .c17 import dask_out_rule
    dask_out_rule(ck, prog, "R3")
    run.extra["decided_by"] = ck.how


# ---------------------------------------------------------------------------------------- R1
def r1_setters(ck, prog, run):
    x = sp.Symbol("x", positive=True)
    two = Num((x * Hz), kind="quantity", shape=(sp.Integer(2),))
    freq_bad = [("a duration", q(x / Hz)), ("a plain number", Num(5)), ("None", NONE), ("a string", StrV("1 MHz")),
                ("a non-scalar Quantity", two), ("a list", ListV([q(x * Hz)]))]
    pos_bad = [("zero", q(0 * Hz + 0)), ("a negative frequency", q(-3 * Hz)), ("NaN", q(sp.nan))]
    tables = {
        ("Signal", "sample_rate"): (freq_bad + pos_bad, [("a frequency", q(x * Hz)), ("MHz", q(3 * 10**6 * Hz))]),
        ("RadioSignal", "chan_bw"): (freq_bad + pos_bad, [("a frequency", q(x * Hz))]),
        ("RadioSignal", "center_freq"): (freq_bad, [("a frequency", q(x * Hz)), ("zero", q(0 * Hz + 0)), ("negative", q(-x * Hz))]),
        ("Signal", "start_time"): ([("a number", Num(59867)), ("a frequency", q(x * Hz)), ("a non-scalar Time", Num(x / Hz, kind="time", shape=(sp.Integer(2),))),
                                    ("a dict", DictV({}))],
                                   [("None", NONE), ("a Time", Num(x / Hz, kind="time"))]),
        ("Signal", "meta"): ([("a number", Num(5)), ("a Time", Num(x / Hz, kind="time"))], [("None", NONE), ("a dict", DictV({"a": Num(1)})), ("an empty dict", DictV({}))]),
        ("RadioSignal", "freq_align"): ([("'middle'", StrV("middle")), ("'Center'", StrV("Center")), ("None", NONE), ("a list", ListV([StrV("center")])),
                                         ("a dict", DictV({})), ("a number", Num(1))],
                                        [("'bottom'", StrV("bottom")), ("'center'", StrV("center")), ("'top'", StrV("top"))]),
        ("DualPolarizationSignal", "pol_type"): ([("'elliptical'", StrV("elliptical")), ("None", NONE), ("a list", ListV([StrV("linear")])), ("a number", Num(0))],
                                                 [("'linear'", StrV("linear")), ("'circular'", StrV("circular"))]),
    }
    n_bad = 0
    for (clsname, prop), (bads, goods) in tables.items():
        st = prog.setter(clsname, prop)
        run.touched(st)
        host = "DualPolarizationSignal" if clsname == "DualPolarizationSignal" else ("RadioSignal" if clsname == "RadioSignal" else "Signal")
        priv = "_" + prop
        # validation must not depend on an unrelated property of the object: the same table on an odd channel count
        variants = [(label, val, 4) for label, val in bads] + ([(label, val, 3) for label, val in bads] if host != "Signal" and prop in ("freq_align", "center_freq", "chan_bw") else [])
        for label, val, nch in variants:
            n_bad += 1
            z = make_signal(prog, host, nchan=nch)
            old = z.attrs.get(priv)
            ev = ck.evaluator()
            tag = f"{clsname}.{prop} = {label}" + ("" if nch == 4 else f" [nchan = {nch}]")
            try:
                ev.setattr(z, prop, val, FR())
                ck.same("R1", st.where, tag, "an invalid value raises ValueError and is not stored", False,
                        found=f"accepted; stored {z.attrs.get(priv)!r}", nontrivial=True)
            except Raised as e:
                ok = e.exc_name in ("ValueError", "InvalidSignalError")
                ck.same("R1", st.where, tag, "an invalid value raises ValueError (not another exception type) and is not stored",
                        ok and z.attrs.get(priv) is old, found=f"{e}; stored attribute {'unchanged' if z.attrs.get(priv) is old else 'CHANGED'}",
                        expected="ValueError", nontrivial=True)
            except DimensionError as e:
                ck.same("R1", st.where, tag, "a unit error is converted to ValueError inside the setter", False, found=f"UnitConversionError escapes: {e}",
                        nontrivial=True)
            except Unsupported as e:
                ck.unk("R1", st.where, tag, "an invalid value raises ValueError", str(e))
        for label, val in goods:
            z = make_signal(prog, host, nchan=4)
            ev = ck.evaluator()
            tag = f"{clsname}.{prop} = {label}"
            try:
                ev.setattr(z, prop, val, FR())
                got = z.attrs.get(priv)
                if prop == "meta":
                    ok = (isinstance(val, NoneV) and got is NONE) or (isinstance(val, DictV) and isinstance(got, DictV) and got is not val and got.d == val.d)
                    what = "None or a new dict equal to the given one (never the caller's object)"
                elif prop in ("freq_align", "pol_type"):
                    ok = isinstance(got, StrV) and got.s == val.s
                    what = "the value is stored"
                elif isinstance(val, NoneV):
                    ok = got is NONE
                    what = "None is stored"
                else:
                    ok = isinstance(got, Num) and sp.simplify(got.expr - val.expr) == 0
                    what = "the value is stored unchanged"
                ck.same("R1", st.where, tag, what, ok, found=repr(got)[:120], nontrivial=True)
            except (Raised, DimensionError) as e:
                ck.same("R1", st.where, tag, "a valid value is accepted", False, found=str(e)[:160], nontrivial=True)
            except Unsupported as e:
                ck.unk("R1", st.where, tag, "a valid value is accepted", str(e))
    run.floor("R1", "invalid-argument cases over the seven metadata setters", n_bad, 40)


# ---------------------------------------------------------------------------------------- R2
def r2_init(ck, prog, run):
    init = prog.func("Signal.__init__")
    run.touched(init)
    ise = prog.cls("InvalidSignalError")
    ck.same("R2", f"{ise.module.replace('.', '/')}.py InvalidSignalError", "class InvalidSignalError(ValueError)",
            "shape/dtype violations are ValueErrors", "ValueError" in ise.ext_bases, found=str(ise.ext_bases))
    K = sp.Symbol("K", integer=True, positive=True)
    kw_sig = {"sample_rate": q(SR * Hz)}
    kw_radio = dict(kw_sig, center_freq=q(CF * Hz), chan_bw=q(BW * Hz))
    kw_bb = dict(kw_sig, center_freq=q(CF * Hz))
    kw_dp = dict(kw_bb, pol_type=StrV("linear"))

    def arr(shape, dtype):
        return Num(sp.Symbol("D"), kind="array", shape=[sp.sympify(s) for s in shape], tag="data", dtype=ExtV("numpy." + dtype), backend="numpy")
    bad = [
        ("Signal", arr((), "float64"), kw_sig, "0-d data"),
        ("RadioSignal", arr((N,), "float64"), kw_radio, "1-d data for a radio signal"),
        ("FullStokesSignal", arr((N, NCHAN), "float64"), kw_radio, "2-d data for a Stokes signal"),
        ("FullStokesSignal", arr((N, NCHAN, 3), "float64"), kw_radio, "3 Stokes components"),
        ("FullStokesSignal", arr((N, NCHAN, 2, 4), "float64"), kw_radio, "Stokes axis in the wrong place"),
        ("DualPolarizationSignal", arr((N, NCHAN, 3), "complex64"), kw_dp, "3 polarisations"),
        ("DualPolarizationSignal", arr((N, NCHAN, 1), "complex64"), kw_dp, "1 polarisation"),
        ("Signal", arr((N, 0), "float64"), kw_sig, "empty sample shape"),
        ("Signal", arr((0, 0), "float64"), kw_sig, "empty sample shape with an empty time axis"),
        ("RadioSignal", arr((0, 3, 0), "float64"), kw_radio, "empty trailing axis with an empty time axis"),
        ("DualPolarizationSignal", arr((0, 8, 2, 0), "complex128"), kw_dp, "empty trailing axis, zero length"),
        ("IntensitySignal", arr((N, NCHAN), "complex64"), kw_radio, "complex data for an intensity signal"),
        ("IntensitySignal", arr((N, NCHAN), "complex128"), kw_radio, "complex128 data for an intensity signal"),
        ("FullStokesSignal", arr((N, NCHAN, 4), "complex128"), kw_radio, "complex data for a Stokes signal"),
    ]
    for clsname, data, kw, label in bad:
        ev = ck.evaluator()
        ci = prog.cls(clsname)
        tag = f"{clsname}(data: {label})"
        try:
            o = ev.construct(ci, [data], dict(kw), FR())
            ck.same("R2", init.where, tag, "construction is refused with InvalidSignalError (ValueError); no object results", False,
                    found=f"object created: {obj_summary(o)} shape {getattr(o.attrs.get('_data'), 'shape', None)} dtype {getattr(o.attrs.get('_data'), 'dtype', None)}",
                    nontrivial=True)
        except Raised as e:
            ck.same("R2", init.where, tag, "construction is refused with InvalidSignalError (ValueError)", e.exc_name in ("InvalidSignalError", "ValueError"),
                    found=str(e)[:160], nontrivial=True)
        except Unsupported as e:
            ck.unk("R2", init.where, tag, "construction is refused", str(e))
    good = [
        ("Signal", arr((N,), "int64"), kw_sig, None, "any dtype for the base class"),
        ("Signal", arr((0,), "float64"), kw_sig, None, "zero-length signal"),
        ("RadioSignal", arr((N, 1), "complex64"), kw_radio, None, "single channel"),
        ("IntensitySignal", arr((N, NCHAN), "float32"), kw_radio, "float32", "allowed dtype kept"),
        ("IntensitySignal", arr((N, NCHAN), "int32"), kw_radio, "float64", "safe cast int32 -> float64"),
        ("IntensitySignal", arr((N, NCHAN), "float16"), kw_radio, "float64", "safe cast float16 -> float64"),
        ("BasebandSignal", arr((N, NCHAN), "float64"), kw_bb, "complex128", "safe cast float64 -> complex128"),
        ("BasebandSignal", arr((N, NCHAN), "complex64"), kw_bb, "complex64", "allowed dtype kept"),
        ("IntensitySignal", arr((N, NCHAN), "float32:swapped"), kw_radio, "float64", "non-native byte order float32 is not in the allowed set: safe cast to float64"),
        ("BasebandSignal", arr((N, NCHAN), "complex64:swapped"), kw_bb, "complex128", "non-native byte order complex64: safe cast to complex128"),
        ("DualPolarizationSignal", arr((N, NCHAN, 2, K), "complex128"), kw_dp, "complex128", "trailing dimensions allowed"),
        ("FullStokesSignal", arr((N, NCHAN, 4), "float64"), kw_radio, "float64", "four Stokes components"),
    ]
    for clsname, data, kw, want_dt, label in good:
        ev = ck.evaluator()
        ci = prog.cls(clsname)
        tag = f"{clsname}(data: {label})"
        try:
            o = ev.construct(ci, [data], dict(kw), FR())
            d = o.attrs.get("_data")
            dt = getattr(d, "dtype", None)
            ok = isinstance(d, Num) and (want_dt is None or (isinstance(dt, ExtV) and dt.dotted == "numpy." + want_dt))
            allowed = [norm(x) for x in (ci.find_class_attr("_req_dtype")[0].elts if isinstance(ci.find_class_attr("_req_dtype")[0], ast.Tuple) else [])]
            ck.same("R2", init.where, tag, "accepted; stored data has a dtype from the class's allowed set", ok,
                    found=f"dtype {dt!r}; allowed {allowed}", nontrivial=True)
            if ci.is_subclass_of("BasebandSignal"):
                ck.eq("R3", prog.func("BasebandSignal.__init__").where, tag + ": chan_bw", "a baseband signal is created with chan_bw == sample_rate",
                      o.attrs["_chan_bw"].expr, o.attrs["_sample_rate"].expr)
        except (Raised, DimensionError) as e:
            ck.same("R2", init.where, tag, "a valid construction is accepted", False, found=str(e)[:160], nontrivial=True)
        except Unsupported as e:
            ck.unk("R2", init.where, tag, "a valid construction is accepted", str(e))
    # a baseband signal cannot be given an independent chan_bw
    for clsname, kw in (("BasebandSignal", kw_bb), ("DualPolarizationSignal", kw_dp)):
        try:
            ck.evaluator().construct(prog.cls(clsname), [arr((N, NCHAN, 2), "complex64")], dict(kw, chan_bw=q(BW * Hz)), FR())
            ck.same("R3", prog.func("BasebandSignal.__init__").where, f"{clsname}(..., chan_bw=...)", "an independent chan_bw cannot be supplied", False,
                    found="accepted", nontrivial=True)
        except Raised as e:
            ck.same("R3", prog.func("BasebandSignal.__init__").where, f"{clsname}(..., chan_bw=...)", "an independent chan_bw cannot be supplied (TypeError)",
                    e.exc_name == "TypeError", found=str(e)[:120], nontrivial=True)
        except Unsupported as e:
            ck.unk("R3", "BasebandSignal.__init__", f"{clsname}(..., chan_bw=...)", "an independent chan_bw cannot be supplied", str(e))
    # missing required metadata
    for clsname, kw, missing in (("RadioSignal", {k: v for k, v in kw_radio.items() if k != "chan_bw"}, "chan_bw"),
                                 ("DualPolarizationSignal", kw_bb, "pol_type"), ("Signal", {}, "sample_rate")):
        try:
            ck.evaluator().construct(prog.cls(clsname), [arr((N, NCHAN, 2), "complex64")], dict(kw), FR())
            ck.same("R2", init.where, f"{clsname} without {missing}", "a signal cannot be built without its required metadata", False, found="accepted")
        except Raised as e:
            ck.same("R2", init.where, f"{clsname} without {missing}", "a signal cannot be built without its required metadata", True, found=str(e)[:100])
        except Unsupported as e:
            ck.unk("R2", init.where, f"{clsname} without {missing}", "required metadata", str(e))


# ---------------------------------------------------------------------------------------- R3
def _revalidated(rhs, target, fn=None):
    """rhs is `type(T).like(T, ...).data` or `type(T)(...).data` with T the expression whose _data is being stored (the freshly
    built object may first be given a name that is assigned exactly once in the function)."""
    if not (isinstance(rhs, ast.Attribute) and rhs.attr == "data"):
        return False
    c = rhs.value
    if isinstance(c, ast.Name) and fn is not None:
        defs = [a.value for a in ast.walk(fn) if isinstance(a, ast.Assign) and len(a.targets) == 1 and isinstance(a.targets[0], ast.Name) and a.targets[0].id == c.id]
        if len(defs) != 1:
            return False
        c = defs[0]
    if not isinstance(c, ast.Call):
        return False
    fn = c.func
    if isinstance(fn, ast.Attribute) and fn.attr == "like":
        if not (c.args and norm(c.args[0]) == norm(target)):
            return False
        fn = fn.value
    return isinstance(fn, ast.Call) and isinstance(fn.func, ast.Name) and fn.func.id == "type" and len(fn.args) == 1 and norm(fn.args[0]) == norm(target)


def _same_shape_and_dtype(rhs, target, fn):
    """`T._data = a` where the function has established, for these very names, that a has T's shape (a guard `a.shape != T.shape` that
    raises, written as a plain comparison of the two shapes) and T's dtype (`a = a.astype(T.dtype)`): an array of the same shape and
    dtype as valid data of that object is valid data of that object."""
    if not isinstance(rhs, ast.Name) or fn is None:
        return False
    a, t = rhs.id, norm(target)
    shape_guard = cast = False
    for n in ast.walk(fn):
        if isinstance(n, ast.If) and n.body and isinstance(n.body[-1], ast.Raise):
            # `if a.shape != T.shape: raise`, possibly as one conjunct of `if <flag> and a.shape != T.shape: raise`
            tests = [n.test] + (list(n.test.values) if isinstance(n.test, ast.BoolOp) and isinstance(n.test.op, ast.And) else [])
            for c_ in tests:
                if isinstance(c_, ast.Compare) and len(c_.ops) == 1 and isinstance(c_.ops[0], ast.NotEq):
                    l, r = norm(c_.left), norm(c_.comparators[0])
                    if {l, r} == {f"{a}.shape", f"{t}.shape"}:
                        shape_guard = True
        if isinstance(n, ast.Assign) and len(n.targets) == 1 and isinstance(n.targets[0], ast.Name) and n.targets[0].id == a \
                and isinstance(n.value, ast.Call) and isinstance(n.value.func, ast.Attribute) and n.value.func.attr == "astype" \
                and norm(n.value.func.value) == a and n.value.args and norm(n.value.args[0]) == f"{t}.dtype":
            cast = True
    return shape_guard and cast


def r3_who_may_write(ck, prog, run):
    sig_classes = prog.signal_classes()
    props = {v for v in PRIVATE.values() if v}
    n_sites = 0
    for f in prog.all_functions:
        if isinstance(f.node, ast.Lambda) or f.kind in ("nested",):
            continue
        if not f.module.startswith("pulsarbat") or f.module.startswith("pulsarbat.pulsar"):
            continue
        selfname = f.params()[0][0] if (f.cls is not None and f.params()) else None
        in_sigclass = f.cls is not None and f.cls.is_subclass_of("Signal")
        for node in ast.walk(f.node):
            tg = []
            if isinstance(node, ast.Assign):
                tg = node.targets
            elif isinstance(node, (ast.AugAssign, ast.AnnAssign)):
                tg = [node.target]
            for t in tg:
                for t2 in (t.elts if isinstance(t, (ast.Tuple, ast.List)) else [t]):
                    if not isinstance(t2, ast.Attribute):
                        continue
                    if t2.attr in PRIVATE and (in_sigclass or not (isinstance(t2.value, ast.Name) and t2.value.id == selfname)):
                        n_sites += 1
                        own = PRIVATE[t2.attr]
                        ok = in_sigclass and isinstance(t2.value, ast.Name) and t2.value.id == selfname and (
                            (f.kind == "setter" and f.name == own) or (t2.attr == "_data" and f.qualname == "Signal.__init__"))
                        how = f"stored in {f.qualname}"
                        if not ok and t2.attr == "_data" and in_sigclass and isinstance(node, ast.Assign) and (_revalidated(node.value, t2.value, f.node)
                                                                                                                       or _same_shape_and_dtype(node.value, t2.value, f.node)):
                            # b._data = type(b).like(b, x).data / type(b)(x, ...).data : the array has just been through the class's
                            # own constructor (dimension, shape and dtype checks, safe cast), built for this very object
                            ok, how = True, how + " from the data of an object freshly built by the target's own class"
                        ck.same("R3", f.where, norm(node), f"the private field {t2.attr} is stored only by its own setter (data: only by Signal.__init__, or "
                                "re-validated through the constructor of the object's own class)", ok, found=how, nontrivial=True)
                    elif t2.attr in props and f.module != "pulsarbat.readers._base" and f.module != "pulsarbat.readers._baseband_readers":
                        n_sites += 1
                        ok = in_sigclass and f.name == "__init__" and isinstance(t2.value, ast.Name) and t2.value.id == selfname
                        ck.same("R3", f.where, norm(node), f"metadata ({t2.attr}) of a signal is assigned only on self inside a constructor; "
                                "library code never re-labels an existing signal", ok, found=f"assignment in {f.qualname}", nontrivial=True)
            if isinstance(node, ast.Call) and isinstance(node.func, ast.Name) and node.func.id == "setattr" and f.cls is not None and in_sigclass:
                ck.same("R3", f.where, norm(node), "no setattr by computed name on a signal", False, found=norm(node))
    run.floor("R3", "stores to signal fields/metadata examined", n_sites, 14)
    for ci in sig_classes:
        init = ci.methods.get("__init__")
        if init is None:
            continue
        run.touched(init)
        if ci.name != "Signal":
            body = [s for s in init.node.body if not (isinstance(s, ast.Expr) and isinstance(s.value, ast.Constant))]
            first = body[0] if body else None
            ok = isinstance(first, ast.Expr) and isinstance(first.value, ast.Call) and norm(first.value.func) == "super().__init__"
            ck.same("R2", init.where, norm(first)[:80] if first else "?", "a subclass constructor calls super().__init__ before using its own setters",
                    ok, found=norm(first)[:120] if first else None)


# ---------------------------------------------------------------------------------------- R4
def r4_signature(ck, prog, run):
    like = prog.func("Signal.like")
    run.touched(like)
    for ci in prog.signal_classes():
        init = ci.init()
        hooks = [h for c in ci.mro() for h in PICKLE_HOOKS if h in c.methods or h in c.class_attrs]
        ck.same("R4", f"{ci.module.replace('.', '/')}.py {ci.name}", f"class {ci.name}", "no pickling/copy customisation: default pickling carries exactly the stored attributes",
                not hooks, found=str(hooks))
        for p, kind in init.params()[1:]:
            if kind in ("posonly", "vararg", "kwarg"):
                continue
            has = ci.find_property(p) is not None
            ck.same("R4", init.where, f"{ci.name}.__init__ parameter '{p}'", "has a readable property of the same name (what like() copies from the reference object)",
                    has, found="no such property in the MRO", nontrivial=True)
    # like() reproduces every attribute; container helpers override nothing
    for clsname in ("Signal", "RadioSignal", "IntensitySignal", "FullStokesSignal", "BasebandSignal", "DualPolarizationSignal"):
        for backend in ("numpy", "dask"):
            z = make_signal(prog, clsname, nchan=4, freq_align="top", pol_type="circular", backend=backend)
            z.attrs["_meta"] = DictV({"k": Num(1)})
            ev = ck.evaluator()
            o = ck.attempt("R4", like.where, f"{clsname}.like(z) [{backend}]", "evaluates", lambda: ev.call(like, [z], {}, cls_val=__import__("pbverif.values", fromlist=["ClassV"]).ClassV(z.cls)), ev=ev,
                           allowed_guards=[])
            if o is None:
                continue
            bad = meta_same(z, o, skip=("_meta",))
            # (the statement asks for every attribute to be reproduced unchanged; whether meta is the same dict or an equal one is not part of it)
            m_ok = isinstance(o.attrs.get("_meta"), DictV) and o.attrs["_meta"].d.keys() == z.attrs["_meta"].d.keys()
            d_ok = isinstance(o.attrs["_data"], Num) and o.attrs["_data"].expr == z.attrs["_data"].expr
            ck.same("R4", like.where, f"{clsname}.like(z) [{backend}]", "reproduces class, data and every metadata attribute",
                    o.cls is z.cls and not bad and m_ok and d_ok, found="; ".join(bad) or obj_summary(o), nontrivial=True)
            if backend == "dask" and clsname in ("Signal", "DualPolarizationSignal"):
                for hname in ("compute", "persist", "to_dask_array", "rechunk"):
                    fi = prog.func("Signal." + hname)
                    run.touched(fi)
                    ev2 = ck.evaluator()
                    o2 = ck.attempt("R4", fi.where, f"{clsname}.{hname}() [{backend}]", "evaluates", lambda: ev2.call(fi, [], {}, self_val=z), ev=ev2, allowed_guards=[])
                    if o2 is None:
                        continue
                    bad = meta_same(z, o2, skip=("_meta",))
                    same_data = isinstance(o2.attrs["_data"], Num) and o2.attrs["_data"].expr == z.attrs["_data"].expr
                    ck.same("R4", fi.where, f"{clsname}.{hname}() [{backend}]", "changes only the container: same class, same data term, every attribute unchanged",
                            o2.cls is z.cls and not bad and same_data, found="; ".join(bad) or str(o2.attrs["_data"])[:100], nontrivial=True)
    # ... also when an attribute holds a legitimate value that is false in a Boolean test (an empty meta dict): "unset" is None, not falsy
    for clsname in ("Signal", "RadioSignal", "DualPolarizationSignal"):
        z = make_signal(prog, clsname, nchan=4, freq_align="top", pol_type="circular")
        z.attrs["_meta"] = DictV({})
        ev = ck.evaluator()
        o = ck.attempt("R4", like.where, f"{clsname}.like(z), z.meta == {{}}", "evaluates", lambda: ev.call(like, [z], {}, cls_val=__import__("pbverif.values", fromlist=["ClassV"]).ClassV(z.cls)), ev=ev,
                       allowed_guards=[])
        if o is not None:
            m = o.attrs.get("_meta")
            ck.same("R4", like.where, f"{clsname}.like(z), z.meta == {{}}", "an empty meta dict is reproduced as an empty dict (not replaced by the default None)",
                    isinstance(m, DictV) and not m.d, found=repr(m)[:80], nontrivial=True)
    # cross-class like() sites are satisfiable
    n_cross = 0
    for f in prog.all_functions:
        if isinstance(f.node, ast.Lambda) or f.cls is None or not f.cls.is_subclass_of("Signal"):
            continue
        for c in ast.walk(f.node):
            if isinstance(c, ast.Call) and isinstance(c.func, ast.Attribute) and c.func.attr == "like" and isinstance(c.func.value, ast.Name):
                tgt = None
                try:
                    tgt = prog.cls(c.func.value.id)
                except Exception:
                    continue
                if not tgt.is_subclass_of("Signal"):
                    continue
                n_cross += 1
                given = {k.arg for k in c.keywords if k.arg}
                need = [p for p, kind in tgt.init().params()[1:] if kind not in ("posonly", "vararg", "kwarg") and p not in tgt.init().defaults()]
                lacking = [p for p in need if p not in given and f.cls.find_property(p) is None]
                ck.same("R4", f.where, norm(c)[:100], f"every required parameter of {tgt.name} is given or readable from the source class {f.cls.name}",
                        not lacking, found=f"missing: {lacking}", nontrivial=True)
    run.floor("R4", "cross-class like() sites", n_cross, 3)
