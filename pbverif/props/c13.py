"""C13 - Polarisation conversions are unitary, invertible and Stokes-consistent.

All rules are formula obligations over complex symbols: the package's own methods are evaluated
on a symbolic dual-polarisation signal and the resulting component terms are compared with the
statement's formulas.
"""
from __future__ import annotations

import sympy as sp

from ..spec import Checker, FR, obj_summary
from ..sigmodel import make_signal, pol_data, sym_complex, N, NCHAN
from ..values import Num, StrV, ObjV, TupleV, NONE, ListV, Unsupported
from ..symeval import Raised
from ..extapi import StackV

EXPLANATION = (
    "The methods to_linear, to_circular, to_stokes, to_intensity and FullStokesSignal.__getitem__ are evaluated by "
    "the term evaluator on a symbolic dual-polarisation signal whose two polarisation components are complex symbols "
    "(each syntactic branch separately, NumPy- and Dask-tagged data, with and without trailing dimensions). The "
    "extracted component terms are compared (normal form, else exact evaluation at random rational points) with the "
    "statement's formulas L=(X-iY)/sqrt2, R=(X+iY)/sqrt2 and I,Q,U,V; derived identities (inverse, power, I^2=Q^2+U^2+V^2, "
    "basis independence, I = sum of intensities) are proven from the *extracted* terms; the rebuild ledger of each "
    "method is compared attribute by attribute. Real-number/complex-number semantics: rounding is not decided."
)

SQ2 = sp.sqrt(2)


def comps(obj):
    d = obj.attrs["_data"]
    if not isinstance(d, StackV):
        return None
    return [x.expr for x in d.items]


def state_attrs(o: ObjV):
    """Storage attributes that carry the object's observable state: `_k` backing a public property k that has a setter.
    Anything else an instance holds (memoised values, flags derived from the state) is not metadata: it is covered by the
    derived-state coherence rule (pbverif/coherence.py), not by metadata comparisons."""
    out = set()
    for k in o.attrs:
        pr = o.cls.find_property(k.lstrip("_"))
        if k == "_data" or (k.startswith("_") and pr is not None and pr.get("set") is not None):
            out.add(k)
    return out


def meta_same(a: ObjV, b: ObjV, skip=("_data",)):
    bad = []
    for k in state_attrs(a) | state_attrs(b):
        if k in skip:
            continue
        va, vb = a.attrs.get(k), b.attrs.get(k)
        if va is None or vb is None:
            bad.append(f"{k}: present on one side only")
            continue
        if isinstance(va, Num) and isinstance(vb, Num):
            if sp.simplify(va.expr - vb.expr) != 0:
                bad.append(f"{k}: {va.expr} -> {vb.expr}")
        elif isinstance(va, StrV) and isinstance(vb, StrV):
            if va.s != vb.s:
                bad.append(f"{k}: {va.s!r} -> {vb.s!r}")
        elif type(va) is not type(vb):
            bad.append(f"{k}: {va!r} -> {vb!r}")
    return bad


def check(run, prog):
    run.explanation = EXPLANATION
    run.assumptions += ["complex-number semantics (no rounding)", "numpy.take/stack/real/imag/conj as in pbverif/extapi.py"]
    ck = Checker(run, prog)
    A, B = sym_complex("A"), sym_complex("B")
    f_lin = prog.func("DualPolarizationSignal.to_linear")
    f_cir = prog.func("DualPolarizationSignal.to_circular")
    f_stk = prog.func("DualPolarizationSignal.to_stokes")
    f_int = prog.func("BasebandSignal.to_intensity")
    f_get = prog.func("FullStokesSignal.__getitem__")
    for f in (f_lin, f_cir, f_stk, f_int, f_get):
        run.touched(f)

    def mk(pol, backend="numpy", extra=(), dtype="complex128"):
        shape = (N, NCHAN, sp.Integer(2)) + tuple(extra)
        return make_signal(prog, "DualPolarizationSignal", data=pol_data(backend=backend, shape=shape, dtype=dtype),
                           pol_type=pol, backend=backend, extra=extra, dtype=dtype)

    def call(fi, z, *args):
        ev = ck.evaluator()
        out = ck.attempt("R0", fi.where, fi.qualname, "method evaluates on a symbolic signal",
                         lambda: ev.call(fi, list(args), {}, self_val=z), allowed_guards=[], ev=ev)
        d = out.attrs.get("_data") if isinstance(out, ObjV) else None
        if isinstance(d, StackV) and fi is not f_int and fi is not f_get:
            nd = len(d.shape) if d.shape is not None else None
            ax = d.axis % nd if nd and -nd <= d.axis < nd else d.axis
            if ax != 2 or not all(isinstance(x, Num) for x in d.items):
                ck.same("R1", fi.where, fi.qualname, "the components are taken from and stacked along the polarisation axis (axis 2), whatever trailing dimensions follow",
                        False, found=f"stacked along axis {ax} of {nd} dimensions", nontrivial=True)
                return None
        return out

    # both complex widths: complex128 and complex64 data go through the same formulas (a width-dependent constant is a different formula)
    variants = [("numpy", (), "complex128"), ("dask", (sp.Integer(4),), "complex64")] if run.tier == "quick" else \
        [("numpy", (), "complex128"), ("dask", (), "complex64"), ("numpy", (sp.Integer(3),), "complex64"),
         ("dask", (sp.Symbol("K", integer=True, positive=True),), "complex128")]
    for backend, extra, cdtype in variants:
        tag = f"[{backend}, {cdtype}{', trailing dims' if extra else ''}]"
        # ---------------------------------------------------------------- R1 conversions
        zl, zc = mk("linear", backend, extra, cdtype), mk("circular", backend, extra, cdtype)
        X, Y = A, B
        out = call(f_cir, zl)
        if out is not None:
            c = comps(out)
            if c is None or len(c) != 2:
                ck.unk("R1", f_cir.where, "to_circular (linear branch)", "result has two explicit polarisation components",
                       f"result data is {out.attrs.get('_data')!r}")
            else:
                ck.eq("R1", f_cir.where, "to_circular: component 0 " + tag, "L == (X - iY)/sqrt(2)", c[0], (X - sp.I * Y) / SQ2)
                ck.eq("R1", f_cir.where, "to_circular: component 1 " + tag, "R == (X + iY)/sqrt(2)", c[1], (X + sp.I * Y) / SQ2)
                ck.eq("R1", f_cir.where, "to_circular: power " + tag, "|L|^2+|R|^2 == |X|^2+|Y|^2 (derived from the extracted terms)",
                      sp.Abs(c[0]) ** 2 + sp.Abs(c[1]) ** 2, sp.Abs(X) ** 2 + sp.Abs(Y) ** 2)
                bad = meta_same(zl, out, skip=("_data", "_pol_type"))
                ck.same("R1", f_cir.where, "to_circular: ledger " + tag,
                        "only pol_type is overridden, and it is set to 'circular'",
                        not bad and isinstance(out.attrs.get("_pol_type"), StrV) and out.attrs["_pol_type"].s == "circular"
                        and out.cls.name == "DualPolarizationSignal",
                        found="; ".join(bad) or obj_summary(out), nontrivial=True)
                back = call(f_lin, out)
                if back is not None and comps(back):
                    cb = comps(back)
                    ck.eq("R1", f_lin.where, "to_linear(to_circular(z)) component 0 " + tag, "inverse: X recovered", cb[0], X)
                    ck.eq("R1", f_lin.where, "to_linear(to_circular(z)) component 1 " + tag, "inverse: Y recovered", cb[1], Y)
        L, R = A, B
        out = call(f_lin, zc)
        if out is not None:
            c = comps(out)
            if c is None or len(c) != 2:
                ck.unk("R1", f_lin.where, "to_linear (circular branch)", "result has two explicit polarisation components",
                       f"result data is {out.attrs.get('_data')!r}")
            else:
                ck.eq("R1", f_lin.where, "to_linear: component 0 " + tag, "X == (L + R)/sqrt(2)", c[0], (L + R) / SQ2)
                ck.eq("R1", f_lin.where, "to_linear: component 1 " + tag, "Y == i(L - R)/sqrt(2)", c[1], sp.I * (L - R) / SQ2)
                bad = meta_same(zc, out, skip=("_data", "_pol_type"))
                ck.same("R1", f_lin.where, "to_linear: ledger " + tag, "only pol_type is overridden, and it is set to 'linear'",
                        not bad and out.attrs["_pol_type"].s == "linear", found="; ".join(bad) or obj_summary(out), nontrivial=True)
                back = call(f_cir, out)
                if back is not None and comps(back):
                    cb = comps(back)
                    ck.eq("R1", f_cir.where, "to_circular(to_linear(z)) component 0 " + tag, "inverse: L recovered", cb[0], L)
                    ck.eq("R1", f_cir.where, "to_circular(to_linear(z)) component 1 " + tag, "inverse: R recovered", cb[1], R)
        # identity branches
        for fi, z, pol in ((f_lin, zl, "linear"), (f_cir, zc, "circular")):
            out = call(fi, z)
            if out is not None:
                c = comps(out)
                ok = c is not None and len(c) == 2 and sp.simplify(c[0] - A) == 0 and sp.simplify(c[1] - B) == 0
                ck.same("R1", fi.where, f"{fi.name} on a signal already in the {pol} basis " + tag,
                        "identity: data passed through unchanged, pol_type kept", ok and out.attrs["_pol_type"].s == pol
                        and not meta_same(z, out), found=obj_summary(out), nontrivial=True)
                # both conversions document "returns a copy of the signal object" and build one on the converting path: the identity
                # path must agree with its sibling, or relabelling / rescaling the result (w.pol_type = ..., np.multiply(w, 2, out=w))
                # silently changes the signal it was made from
                ck.same("R1", fi.where, f"{fi.name} on a signal already in the {pol} basis " + tag + ": object",
                        "a new signal object is returned on the identity path as on the converting path", out is not z,
                        found="the very signal it was called on" if out is z else "a new object", nontrivial=True)

        # ---------------------------------------------------------------- R2 Stokes
        def stokes_expected(X, Y):
            XX, YY = sp.Abs(X) ** 2, sp.Abs(Y) ** 2
            XY = sp.conjugate(X) * Y
            return [XX + YY, XX - YY, 2 * sp.re(XY), 2 * sp.im(XY)]
        names = ["I", "Q", "U", "V"]
        for z, pol, (X, Y) in ((zl, "linear", (A, B)),
                               (zc, "circular", ((A + B) / SQ2, sp.I * (A - B) / SQ2))):
            out = call(f_stk, z)
            if out is None:
                continue
            c = comps(out)
            if c is None or len(c) != 4:
                ck.unk("R2", f_stk.where, f"to_stokes ({pol} branch)", "result has four explicit Stokes components",
                       f"result data is {out.attrs.get('_data')!r}")
                continue
            exp = stokes_expected(X, Y)
            ck.same("R2", f_stk.where, f"to_stokes ({pol}): target class and ledger " + tag,
                    "result is a FullStokesSignal with no metadata override",
                    out.cls.name == "FullStokesSignal" and not meta_same(z, out, skip=("_data", "_pol_type")),
                    found=obj_summary(out), nontrivial=True)
            # component access by name ties _stokes_ids, np.take and the stacking order together
            for k, nm in enumerate(names):
                comp = call(f_get, out, StrV(nm))
                if comp is None:
                    continue
                d = comp.attrs["_data"]
                if isinstance(d, StackV):
                    ck.same("R2", f_get.where, f"stokes['{nm}'] " + tag,
                            "component access by name selects along the polarisation axis and returns that one component",
                            False, found=f"result still carries all {len(d.items)} Stokes components (the index was applied "
                                         f"to another axis): {str(d)[:160]}", expected="the single named component", nontrivial=True)
                    continue
                if not isinstance(d, Num):
                    ck.unk("R2", f_get.where, f"stokes['{nm}']", "component access returns one component", f"{d!r}")
                    continue
                what = {"I": "I == |X|^2+|Y|^2", "Q": "Q == |X|^2-|Y|^2", "U": "U == 2 Re(conj(X) Y)", "V": "V == 2 Im(conj(X) Y)"}[nm]
                ck.eq("R2", f_stk.where, f"to_stokes ({pol} branch) then ['{nm}'] " + tag,
                      what + ("" if pol == "linear" else " with (X, Y) = to_linear(L, R): basis independence"), d.expr, exp[k])
                ck.same("R2", f_get.where, f"stokes['{nm}'] ledger " + tag, "component signal is an IntensitySignal with unchanged time/frequency labels",
                        comp.cls.name == "IntensitySignal" and not meta_same(out, comp), found=obj_summary(comp), nontrivial=True)
                # the named attribute (stokesI ... stokesV) is the sibling route to the same component
                pr = prog.cls("FullStokesSignal").find_property("stokes" + nm)
                g = pr["get"] if pr else None
                if g is None:
                    ck.unk("R2", f_get.where, f"stokes.stokes{nm}", "the named-component attribute exists", "no such property")
                    continue
                run.touched(g)
                comp2 = call(g, out)
                if comp2 is None:
                    continue
                d2 = comp2.attrs.get("_data") if isinstance(comp2, ObjV) else None
                ck.same("R2", g.where, f"stokes.stokes{nm} " + tag, f"the attribute returns the same component as stokes['{nm}'] (class, labels and data)",
                        isinstance(d2, Num) and comp2.cls is comp.cls and not meta_same(comp, comp2) and sp.simplify(d2.expr - d.expr) == 0,
                        found=obj_summary(comp2) if isinstance(comp2, ObjV) else repr(comp2)[:120], nontrivial=True)
            ck.eq("R2", f_stk.where, f"to_stokes ({pol}): I^2 == Q^2+U^2+V^2 " + tag, "derived from the extracted terms",
                  c[0] ** 2, c[1] ** 2 + c[2] ** 2 + c[3] ** 2)
            inten = call(f_int, z)
            if inten is not None and isinstance(inten.attrs["_data"], StackV):
                tot = sum(x.expr for x in inten.attrs["_data"].items)
                ck.eq("R2", f_int.where, f"sum over pol of to_intensity == Stokes I ({pol}) " + tag, "I equals total intensity", tot, c[0])
                ck.eq("R2", f_int.where, f"to_intensity component ({pol}) " + tag, "to_intensity == re^2 + im^2",
                      inten.attrs["_data"].items[0].expr, sp.re(A) ** 2 + sp.im(A) ** 2)
            # I >= 0: a sum of squares of real terms
            e = sp.expand(c[0], complex=True)
            ok = all(t.is_nonnegative for t in sp.Add.make_args(e))
            ck.same("R2", f_stk.where, f"to_stokes ({pol}): I >= 0 " + tag, "the extracted I is a sum of non-negative terms", bool(ok),
                    found=str(e), nontrivial=True)
        # unknown key
        ev = ck.evaluator()
        zs = call(f_stk, zl)
        if zs is not None:
            try:
                ev.call(f_get, [StrV("X")], {}, self_val=zs)
                ck.same("R2", f_get.where, "stokes['X']", "an unknown component name is refused (KeyError)", False, found="returned a value")
            except Exception as e:
                ck.same("R2", f_get.where, "stokes['X'] " + tag, "an unknown component name is refused (KeyError)",
                        "KeyError" in str(e), found=str(e))
    # the basis label the conversions branch on can only ever be 'linear' or 'circular': a refused assignment leaves the old label
    st = prog.setter("DualPolarizationSignal", "pol_type")
    run.touched(st)
    for label, val in (("'Circular'", StrV("Circular")), ("''", StrV("")), ("None", NONE), ("1", Num(1)), ("['circular']", ListV([StrV("circular")]))):
        zz = mk("linear")
        old = zz.attrs.get("_pol_type")
        ev = ck.evaluator()
        tag = f"z.pol_type = {label}"
        try:
            ev.setattr(zz, "pol_type", val, FR())
            ck.same("R1", st.where, tag, "an invalid basis label raises ValueError and is not stored", False, found=f"accepted; stored {zz.attrs.get('_pol_type')!r}", nontrivial=True)
        except Raised as e:
            ck.same("R1", st.where, tag, "an invalid basis label raises ValueError and the signal keeps the label it had (nothing is stored before the check)",
                    e.exc_name == "ValueError" and zz.attrs.get("_pol_type") is old,
                    found=f"{e.exc_name}; label now {zz.attrs.get('_pol_type')!r}", nontrivial=True)
        except Unsupported as e:
            ck.unk("R1", st.where, tag, "an invalid basis label raises ValueError", str(e)[:160])
    run.extra["decided_by"] = ck.how
    run.floor("R1", "formula obligations for the basis conversions", sum(1 for o in run.obs if o.rule.endswith("R1")), 16)
    run.floor("R2", "formula obligations for Stokes parameters", sum(1 for o in run.obs if o.rule.endswith("R2")), 20)
