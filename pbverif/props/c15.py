"""C15 - Phase ordering, reductions and decimal I/O use the full two-part value."""
from __future__ import annotations

import ast
import itertools
import sympy as sp

from ..spec import Checker, FR
from ..values import F  # noqa
from ..values import Num, StrV, NONE, ExtV, ObjV, TupleV, DictV, BoolV, ClassV, NoneV, Unsupported, DimensionError, ListV
from ..symeval import Raised
from ..model import norm
from ..phasemodel import make_phase, phase_evaluator, PhaseLog, part, CYCLE, PH
from .c07 import run_uf

EXPLANATION = (
    "Comparisons: the six comparison ufuncs and __eq__/__ne__ are evaluated on the Phase model for every operand arrangement; the "
    "compared quantity must be (int0 - int1) + (frac0 - frac1) against zero through the same ufunc, and the syntax tree of the "
    "comparison branch must not contain a sub-expression that first collapses one operand to a single double (int + frac of the same "
    "operand, .cycle, .value, to_value, astype). Reductions: argsort/argmin/argmax are evaluated: lexsort must receive the coarse "
    "double value as the last (primary) key and the cycle value of (self - coarse), built by the two-part subtraction, as the first; "
    "argmin/argmax must subtract the coarse extremum from the integer part before adding the fraction; min/max/sort/ptp must be pure "
    "index selections of those. Decimal input: _parse_string is evaluated with exact rational arithmetic on an enumerated family of "
    "spellings (sign, digits with/without point, empty integer or fractional part, E/D exponents of both signs, trailing j): the two "
    "returned parts must sum to the exact decimal value, split at the decimal point after applying the exponent, and from_string "
    "must yield a real Phase for real strings (also with a zero part) and an imaginary one for j strings. Decimal output: to_string is "
    "evaluated on phases whose parts are exactly representable (dyadic) numbers, for which float formatting is the exact decimal "
    "expansion: the rendering must be the exact value rounded to the digits shown, with sign and j suffix, for no precision and "
    "precisions 0..6(12), and must parse back to the same value. Rendering of values that are not exactly representable (float "
    "formatting artefacts, 1e-16 tolerance) is not decided."
)

COMPARISONS = [("equal", "=="), ("not_equal", "!="), ("less", "<"), ("less_equal", "<="), ("greater", ">"), ("greater_equal", ">=")]


def check(run, prog):
    run.explanation = EXPLANATION
    run.assumptions += ["numpy.lexsort sorts by the last key first", "exact rational arithmetic stands in for float parsing"]
    ck = Checker(run, prog)
    r1_compare(ck, prog, run)
    r2_reductions(ck, prog, run)
    r3_strings(ck, prog, run)
    r5_to_string(ck, prog, run)
    run.extra["decided_by"] = ck.how


# ---------------------------------------------------------------------------------------- R1
def r1_compare(ck, prog, run):
    f = prog.func("Phase.__array_ufunc__")
    run.touched(f)
    c = sp.Symbol("c", real=True)
    n = 0
    for name, sym in COMPARISONS:
        for label, mk, si, with_out in (("Phase, Phase", lambda p, q: [p, q], 0, False), ("Phase, number", lambda p, q: [p, Num(c)], 0, False),
                                        ("number, Phase", lambda p, q: [Num(c), p], 1, False),
                                        # the out= form is the sibling route of the same comparison: a caller's Boolean array receives the result
                                        ("Phase, Phase, out=mask", lambda p, q: [p, q], 0, True)):
            n += 1
            p, q = make_phase(prog, "p"), make_phase(prog, "q")
            ins = mk(p, q)
            tag = f"np.{name}({label})"
            kw_ = {"out": TupleV([Num(sp.Symbol("MASK"), kind="array", shape=(), tag="data", backend="numpy", dtype=ExtV("numpy.bool_"))])} if with_out else None
            r = ck.attempt("R1", f.where, tag, "the comparison branch evaluates on the Phase model", lambda: run_uf(prog, name, ins, si, kwargs=kw_))
            if r is None:
                continue
            res, events, calls, ev = r
            cmp_calls = [t for t in calls if t[1] == name]
            fb = [t for t in ev.trace if t[0] == "fallback"]
            if len(cmp_calls) != 1 or fb:
                ck.same("R1", f.where, tag, "decided by one application of the same comparison ufunc to the two-part difference (no Quantity fallback)", False,
                        found=f"{len(cmp_calls)} comparison calls, {len(fb)} fallbacks", nontrivial=True)
                continue
            args = cmp_calls[0][2]
            fa = [e[1] for e in events if e[0] == "from_angles"]
            ops = []
            k = 0
            for x in ins:
                if isinstance(x, ObjV):
                    ops.append((part(x, "int").expr, part(x, "frac").expr))
                else:
                    k += 1
                    ops.append((sp.Symbol(f"R{k}_int", real=True) * CYCLE, sp.Symbol(f"R{k}_frac", real=True) * CYCLE))
            expected = (ops[0][0] - ops[1][0]) + (ops[0][1] - ops[1][1])
            from ..values import CondV as _CondV
            if name in ("equal", "not_equal") and args and (isinstance(args[0], (_CondV, BoolV)) or
                                                            (isinstance(args[0], Num) and isinstance(args[0].expr, sp.logic.boolalg.Boolean))):
                # (in)equality decided on the stored fields instead of the difference: exact, and right as long as every Phase in existence
                # is in ONE canonical form -- an invariant of the whole class that this rule does not establish.  Not a violation.
                ck.unk("R1", f.where, tag, f"{sym} is decided as ufunc((int0 - int1) + (frac0 - frac1), 0)",
                       f"decided field-wise on {str(getattr(args[0], 'expr', args[0]))[:120]}: correct only if the (count, fraction) pair of a value is unique")
                continue
            ok = len(args) == 2 and isinstance(args[0], Num) and sp.simplify(args[0].expr - expected) == 0 and isinstance(args[1], Num) and args[1].expr == 0
            ck.same("R1", f.where, tag, f"{sym} is decided as ufunc((int0 - int1) + (frac0 - frac1), 0): operand order and both parts of both operands enter",
                    ok, found=str([str(a)[:90] for a in args]), nontrivial=True)
    run.floor("R1", "comparison arrangements", n, 24)
    for meth, uf_ in (("__eq__", "equal"), ("__ne__", "not_equal")):
        m = prog.func("Phase." + meth)
        run.touched(m)
        p, q = make_phase(prog, "p"), make_phase(prog, "q")
        log = PhaseLog()
        ev = phase_evaluator(prog, log)
        r = ck.attempt("R1", m.where, f"Phase.{meth}", "evaluates", lambda: ev.call(m, [q], {}, self_val=p))
        if r is not None:
            calls = [t for t in ev.trace if t[0] == "ufunc-call" and t[1] == uf_]
            arith = [t for t in calls if t[2] and isinstance(t[2][0], Num) and not isinstance(t[2][0].expr, sp.logic.boolalg.Boolean)]
            if calls and not arith or not calls:
                # (in)equality decided some other way (say, by comparing the stored fields): right only if every Phase in existence is in
                # one canonical form -- a package-wide invariant this rule does not establish
                ck.unk("R1", m.where, f"Phase.{meth}", f"routes to np.{uf_} on the two-part difference",
                       f"the comparison is not taken on an arithmetic difference: {str([[str(a)[:60] for a in t[2]] for t in calls])[:200] or 'no ' + uf_ + ' call at all'}")
            else:
                ck.same("R1", m.where, f"Phase.{meth}", f"routes to np.{uf_} on the two-part difference", len(calls) == 1
                        and sp.simplify(calls[0][2][0].expr - ((part(p, 'int').expr - part(q, 'int').expr) + (part(p, 'frac').expr - part(q, 'frac').expr))) == 0,
                        found=str([[str(a)[:80] for a in t[2]] for t in calls]), nontrivial=True)
    # grouping: simulate IEEE double evaluation of the *extracted* difference, in the association order of the source, on
    # phases that differ by less than the resolution of their cycle count
    from .. import terms as T
    p, q = make_phase(prog, "p", cycle=1), make_phase(prog, "q", cycle=1)
    log = PhaseLog()
    ev = phase_evaluator(prog, log, grouping=True)
    r = ck.attempt("R1", f.where, "np.less(Phase, Phase) [association kept]", "evaluates", lambda: ev.call(f, [ExtV("ufunc:less:2:1"), StrV("__call__"), p, q], {}, self_val=p))
    if r is not None:
        calls = [t for t in ev.trace if t[0] == "ufunc-call" and t[1] == "less"]
        if len(calls) != 1:
            ck.unk("R1", f.where, "comparison: floating-point grouping", "one comparison call", f"{len(calls)} calls")
        else:
            tree = calls[0][2][0].expr
            syms = {n_: sp.Symbol(n_, real=True) for n_ in ("p_int", "p_frac", "q_int", "q_frac")}
            vectors = [(2.0**50, 0.3, 2.0**50, 0.3000001), (2.0**52, -0.25, 2.0**52, -0.2500001), (2.0**40 + 1, -0.4999999, 2.0**40, 0.4999997),
                       (-(2.0**48), 0.1, -(2.0**48), 0.1000002), (2.0**50, 0.2, 2.0**50, 0.2), (7.0, 0.25, 7.0, 0.26), (2.0**45, 0.5, 2.0**45 + 1, -0.5)]
            bad = []
            from fractions import Fraction
            for (pi_, pf_, qi_, qf_) in vectors:
                env = {syms["p_int"]: pi_, syms["p_frac"]: pf_, syms["q_int"]: qi_, syms["q_frac"]: qf_}
                try:
                    got = T.float_eval(tree, env)
                except Exception as e:  # noqa
                    bad.append(("not evaluable", str(e)[:60]))
                    break
                exact = (Fraction(pi_) - Fraction(qi_)) + (Fraction(pf_) - Fraction(qf_))
                sg = (got > 0) - (got < 0)
                se = (exact > 0) - (exact < 0)
                if sg != se:
                    bad.append(((pi_, pf_, qi_, qf_), f"double evaluation gives {got!r}, exact difference {float(exact)!r}"))
            ck.same("R1", f.where, "comparison: floating-point grouping of the compared difference",
                    "evaluated in IEEE doubles in the source's association order, the compared quantity has the sign of the exact difference also for phases "
                    "closer than the resolution of their cycle count (the parts are differenced before they are added)", not bad, found=str(bad[:2]),
                    expected="sign(double evaluation) == sign(exact)", nontrivial=True)


def _branch(fnode, marker):
    for n_ in ast.walk(fnode):
        if isinstance(n_, ast.If) and marker in norm(n_.test):
            return n_
    return None


def leaf_part(e):
    """('operand text', 'int'|'frac') for X["int"] / X["frac"] / X.int / X.frac."""
    if isinstance(e, ast.Subscript) and isinstance(e.slice, ast.Constant) and e.slice.value in ("int", "frac"):
        return norm(e.value), e.slice.value
    if isinstance(e, ast.Attribute) and e.attr in ("int", "frac"):
        return norm(e.value), e.attr
    return None


def collapses(node):
    bad = []
    body = ast.Module(body=node.body, type_ignores=[])
    for e in ast.walk(body):
        if isinstance(e, ast.Attribute) and e.attr in ("cycle", "value") and not isinstance(getattr(e, "ctx", None), ast.Store):
            bad.append(f"single-double value {norm(e)}")
        if isinstance(e, ast.Call) and isinstance(e.func, ast.Attribute) and e.func.attr in ("to_value", "astype"):
            bad.append(f"single-double value {norm(e)[:60]}")
        if isinstance(e, ast.BinOp) and isinstance(e.op, (ast.Add, ast.Sub)):
            l, r = leaf_part(e.left), leaf_part(e.right)
            if l and r and l[0] == r[0] and l[1] != r[1]:
                bad.append(f"parts of one operand combined first: {norm(e)}")
    return bad


# ---------------------------------------------------------------------------------------- R2
def r2_reductions(ck, prog, run):
    p = make_phase(prog, "p")
    coarse = part(p, "int").expr + part(p, "frac").expr
    f_as = prog.func("Phase.argsort")
    run.touched(f_as)
    for axis in (Num(-1), NONE, Num(0)):
        log = PhaseLog()
        ev = phase_evaluator(prog, log)
        tag = f"Phase.argsort(axis={'None' if isinstance(axis, NoneV) else axis.expr})"
        r = ck.attempt("R2", f_as.where, tag, "evaluates on the Phase model", lambda: ev.call(f_as, [axis], {}, self_val=p))
        if r is None:
            continue
        ls = [t for t in ev.trace if t[0] == "lexsort"]
        if len(ls) != 1:
            ck.same("R2", f_as.where, tag, "sorting is done by one np.lexsort call", False, found=f"{len(ls)} lexsort calls", nontrivial=True)
            continue
        keys = ev.iterate(ls[0][1])
        fa = [e[1] for e in log.events if e[0] == "from_angles"]
        ok_primary = len(keys) == 2 and isinstance(keys[-1], Num) and sp.simplify(keys[-1].expr - coarse) == 0
        ck.same("R2", f_as.where, tag + ": primary key", "the last lexsort key (the primary one) is the coarse double-precision value", ok_primary,
                found=str([str(k_)[:70] for k_ in keys]), nontrivial=True)
        # remainder = (self - coarse).cycle : coarse -> Phase (R1), then part-wise subtraction (R2), then int+frac of that
        ok_rem = False
        if len(fa) >= 2 and len(keys) == 2 and isinstance(keys[0], Num):
            a0, a1 = fa[0], fa[1]
            U = sp.Function("Ufunc_subtract_0")
            built_from_coarse = isinstance(a0["phase1"], Num) and sp.simplify(a0["phase1"].expr - coarse) == 0 and isinstance(a0["phase2"], NoneV)
            partwise = isinstance(a1["phase1"], Num) and a1["phase1"].expr == U(part(p, "int").expr, sp.Symbol("R1_int", real=True) * CYCLE) \
                and a1["phase2"].expr == U(part(p, "frac").expr, sp.Symbol("R1_frac", real=True) * CYCLE)
            is_r2 = sp.simplify(keys[0].expr - (sp.Symbol("R2_int", real=True) + sp.Symbol("R2_frac", real=True)) * CYCLE) == 0
            ok_rem = built_from_coarse and partwise and is_r2
        ck.same("R2", f_as.where, tag + ": secondary key", "the first key is the exact remainder (self - coarse), formed by the two-part subtraction - not the bare fraction",
                ok_rem, found=str([str(k_)[:70] for k_ in keys]) + " via " + str([{k_: str(v)[:40] for k_, v in a.items() if not isinstance(v, NoneV)} for a in fa[:2]]),
                nontrivial=True)
    for nm, red in (("argmin", "RMin"), ("argmax", "RMax")):
        fm = prog.func("Phase." + nm)
        run.touched(fm)
        log = PhaseLog()
        ev = phase_evaluator(prog, log)
        r = ck.attempt("R2", fm.where, f"Phase.{nm}()", "evaluates", lambda: ev.call(fm, [], {}, self_val=p))
        if r is None:
            continue
        exp = sp.Function("R" + nm)(part(p, "int").expr - sp.Function(red)(coarse) + part(p, "frac").expr)
        ck.same("R2", fm.where, f"Phase.{nm}()", f"{nm} of (int - coarse extremum) + frac: the extremum of the double value is removed from the integer part first",
                isinstance(r, Num) and sp.simplify(r.expr.args[0] - exp.args[0]) == 0 and r.expr.func == exp.func, found=str(r)[:160], expected=str(exp)[:160],
                nontrivial=True)
        log2 = PhaseLog()
        ev2 = phase_evaluator(prog, log2, grouping=True)
        p1 = make_phase(prog, "p", cycle=1)
        r2 = ck.attempt("R2", fm.where, f"Phase.{nm}() [association kept]", "evaluates", lambda: ev2.call(fm, [], {}, self_val=p1))
        if r2 is not None and isinstance(r2, Num) and r2.expr.args:
            from .. import terms as T
            from fractions import Fraction
            key = r2.expr.args[0]
            pi_s, pf_s = sp.Symbol("p_int", real=True), sp.Symbol("p_frac", real=True)
            cases = [[(2.0**50, 0.3), (2.0**50, 0.3000001), (2.0**50 + 1, -0.4)], [(2.0**52, 0.25), (2.0**52, 0.2499999)],
                     [(-(2.0**47), -0.1), (-(2.0**47), -0.1000001), (-(2.0**47), 0.3)], [(3.0, 0.1), (2.0, 0.4), (3.0, -0.2)]]
            bad = []
            for elems in cases:
                def reducer(inner, elems=elems):
                    vals = [T.float_eval(inner, {pi_s: a, pf_s: b}) for a, b in elems]
                    return min(vals) if red == "RMin" else max(vals)
                try:
                    keys = [T.float_eval(key, {pi_s: a, pf_s: b}, {red: reducer}) for a, b in elems]
                except Exception as e:  # noqa
                    bad.append(("not evaluable", str(e)[:80]))
                    break
                exact = [Fraction(a) + Fraction(b) for a, b in elems]
                pick = (min if nm == "argmin" else max)(range(len(elems)), key=lambda k_: keys[k_])
                want = (min if nm == "argmin" else max)(range(len(elems)), key=lambda k_: exact[k_])
                if pick != want:
                    bad.append((elems, f"double evaluation selects element {pick}, exact value selects {want}"))
            ck.same("R2", fm.where, f"Phase.{nm}: floating-point grouping", "evaluated in IEEE doubles in the source's association order, the selected element is the exact "
                    "extremum also when elements differ by less than the resolution of their cycle count", not bad, found=str(bad[:2]), nontrivial=True)
    # min / max / sort / ptp are index selections
    for nm, idx in (("min", "argmin"), ("max", "argmax"), ("sort", "argsort")):
        fm = prog.func("Phase." + nm)
        run.touched(fm)
        rets = [s for s in ast.walk(fm.node) if isinstance(s, ast.Return) and s.value is not None]
        ok = len(rets) == 1 and isinstance(rets[0].value, ast.Call) and norm(rets[0].value.func) == "self._take_along_axis" \
            and rets[0].value.args and isinstance(rets[0].value.args[0], ast.Call) and norm(rets[0].value.args[0].func) == "self." + idx
        arith = [norm(e) for e in ast.walk(fm.node) if isinstance(e, ast.BinOp)]
        ck.same("R2", fm.where, f"Phase.{nm}", f"selects elements by the index from {idx} (no arithmetic on the values)", ok and not arith,
                found=norm(rets[0])[:120] if rets else "no return", nontrivial=True)
    fp = prog.func("Phase.ptp")
    rets = [s for s in ast.walk(fp.node) if isinstance(s, ast.Return) and s.value is not None]
    ok = len(rets) == 1 and isinstance(rets[0].value, ast.BinOp) and isinstance(rets[0].value.op, ast.Sub) \
        and norm(rets[0].value.left).startswith("self.max(") and norm(rets[0].value.right).startswith("self.min(")
    ck.same("R2", fp.where, "Phase.ptp", "is max - min of two-part phases (a two-part subtraction)", ok, found=norm(rets[0])[:120] if rets else "?")
    ta = prog.func("Phase._take_along_axis")
    run.touched(ta)
    arith = [norm(e) for e in ast.walk(ta.node) if isinstance(e, ast.BinOp) and not isinstance(e.op, ast.Sub)]
    ck.same("R2", ta.where, "Phase._take_along_axis", "pure indexing", not [a for a in arith if "ndim" not in a], found=str(arith))
    # whole-array selection (axis=None): the flat index produced by argmin/argmax/argsort counts elements in logical (C) order
    from ..symeval import Evaluator
    A_, B_ = sp.Symbol("A", integer=True, positive=True), sp.Symbol("B", integer=True, positive=True)
    xarr = Num(sp.Symbol("P"), kind="array", shape=(A_, B_), tag="elemarr")
    fidx = Num(sp.Symbol("flat_i", integer=True, nonnegative=True), kind="number")
    ev_t = Evaluator(prog)
    r = ck.attempt("R2", ta.where, "Phase._take_along_axis(flat index, axis=None)", "evaluates on an opaque element array",
                   lambda: ev_t.call(ta, [fidx], {}, self_val=xarr))
    if r is not None:
        C_ = sp.Symbol("order_C")
        want = F["Idx"](xarr.expr, F["Unravel"](fidx.expr, C_, A_, B_))
        got = r.expr if isinstance(r, Num) else None
        if got is not None:
            # x.ravel('C')[i] / x.flatten()[i] is the same element as x[unravel_index(i, x.shape)]
            got = got.replace(lambda t: t.func == F["Idx"] and t.args[0].func == F["Ravel"] and t.args[0].args[1] == C_,
                              lambda t: F["Idx"](t.args[0].args[0], F["Unravel"](t.args[1], C_, A_, B_)))
        known = got is not None and got.func == F["Idx"] and (got.args[0] == xarr.expr or got.args[0].func == F["Ravel"])
        if got == want or known:
            ck.same("R2", ta.where, "Phase._take_along_axis(flat index, axis=None)",
                    "selects the element at that position in logical C order, whatever the memory layout of the array (transposed, reversed or sliced views included)",
                    got == want, found=str(got), expected=str(want), nontrivial=True)
        else:
            ck.unk("R2", ta.where, "Phase._take_along_axis(flat index, axis=None)", "selection is an element lookup the analyser can normalise", str(r)[:160])
    take_along_rule(ck, prog, ta)
    kind_flag_rule(ck, prog)
    # ... and the producers of those flat indices must count in the same logical C order: flattening the keys with order="K"/"A"/"F"
    # numbers the elements by memory layout, which differs for transposed / Fortran-ordered / sliced phase arrays
    n_flat = n_prod = 0
    for nm in ("argsort", "argmin", "argmax", "sort", "min", "max"):
        fm = prog.func("Phase." + nm)
        n_prod += 1
        for c in ast.walk(fm.node):
            if not (isinstance(c, ast.Call) and isinstance(c.func, ast.Attribute) and c.func.attr in ("ravel", "flatten", "reshape")):
                continue
            order = next((k.value for k in c.keywords if k.arg == "order"), None)
            if order is None and c.func.attr in ("ravel", "flatten") and c.args:
                order = c.args[0]
            if c.func.attr == "reshape" and order is None:
                continue
            n_flat += 1
            okc = order is None or (isinstance(order, ast.Constant) and order.value == "C")
            ck.same("R2", fm.where, norm(c)[:80], "keys and values are flattened in logical C order (the order np.unravel_index(i, shape) assumes), not in memory order",
                    okc, found=None if okc else f"order={norm(order)}", nontrivial=True)
    if n_flat == 0:
        ck.same("R2", prog.func("Phase.argsort").where, "Phase index producers", "no flattening call with an order argument in the index producers", True)
    run.floor("R2", "index producers examined for flattening order", n_prod, 6)


STRIPPERS = {"asarray", "asanyarray", "empty", "zeros", "ones", "array", "empty_like", "zeros_like", "frombuffer"}


def kind_flag_rule(ck, prog):
    """Whether a Phase is real or imaginary is an attribute (`imaginary`) that __array_finalize__ copies from the array a new
    Phase is made from -- and sets to False when that array is a plain ndarray.  Every `X.view(<the Phase class>)` in the class
    therefore either has a Phase as X, or is followed by an explicit `<result>.imaginary = ...` in the same function; a Phase
    re-created from stripped data (self.view(np.ndarray), np.asarray(self), a fresh np.empty) without it turns imaginary
    phases into real ones (sort / min / max / ptp along an axis would lose the j)."""
    ci = prog.cls("Phase")
    n_sites, bad = 0, []

    def is_phase_type(e):
        t = norm(e)
        return t in ("cls", "type(self)", "self.__class__", "Phase", "type(phase1)", "type(phase2)")

    for fi in prog.all_functions:
        if fi.cls is not ci or not isinstance(fi.node, (ast.FunctionDef,)):
            continue
        assigns = {}
        flag_sets = set()
        for n in ast.walk(fi.node):
            if isinstance(n, ast.Assign):
                for t in n.targets:
                    if isinstance(t, ast.Name):
                        assigns.setdefault(t.id, []).append(n.value)
                    if isinstance(t, ast.Attribute) and t.attr == "imaginary" and isinstance(t.value, ast.Name):
                        flag_sets.add(t.value.id)
            elif isinstance(n, ast.NamedExpr) and isinstance(n.target, ast.Name):
                assigns.setdefault(n.target.id, []).append(n.value)

        def stripped(e, seen=()):
            """The expression is (built from) a plain ndarray view / a fresh plain array of the phase data."""
            for c in ast.walk(e):
                if isinstance(c, ast.Call) and isinstance(c.func, ast.Attribute):
                    if c.func.attr == "view" and c.args and norm(c.args[0]) in ("np.ndarray", "numpy.ndarray"):
                        return True
                    if c.func.attr in STRIPPERS and norm(c.func.value) in ("np", "numpy"):
                        return True
                if isinstance(c, ast.Name) and c.id in assigns and c.id not in seen and c.id != "self":
                    if any(stripped(v, seen + (c.id,)) for v in assigns[c.id]):
                        return True
            return False
        parents = {}
        for n in ast.walk(fi.node):
            for c in ast.iter_child_nodes(n):
                parents[id(c)] = n
        for n in ast.walk(fi.node):
            if not (isinstance(n, ast.Call) and isinstance(n.func, ast.Attribute) and n.func.attr == "view" and n.args and any(is_phase_type(a) for a in n.args)):
                continue
            n_sites += 1
            if not stripped(n.func.value):
                continue
            # the name the new Phase is bound to, and an explicit flag assignment on it
            par = parents.get(id(n))
            bound = [t.id for t in par.targets if isinstance(t, ast.Name)] if isinstance(par, ast.Assign) else []
            if not any(b in flag_sets for b in bound):
                bad.append((fi, n))
    for fi, n in bad:
        ck.same("R2", f"{fi.module.replace('.', '/')}.py:{n.lineno} {fi.qualname}", norm(n)[:120],
                "a Phase re-created from plain array data is given its real/imaginary kind explicitly", False,
                found="the receiver is stripped data (a plain ndarray view or a fresh array): __array_finalize__ sets imaginary=False, and nothing assigns it afterwards",
                nontrivial=True)
    if not bad:
        ck.same("R2", ci.node.name and prog.func("Phase.__array_finalize__").where, f"{n_sites} `.view(<Phase class>)` site(s) in the class",
                "a Phase re-created from plain array data is given its real/imaginary kind explicitly", True, nontrivial=True)
    ck.run.floor("R2", "view-as-Phase sites examined", n_sites, 3)


def take_along_rule(ck, prog, ta):
    """_take_along_axis(per-axis indices, axis=k) for EVERY axis number, 0 included, selects along that axis."""
    from ..symeval import Evaluator
    A_, B_ = sp.Symbol("A", integer=True, positive=True), sp.Symbol("B", integer=True, positive=True)
    for k, ishape in ((0, (B_,)), (1, (A_,)), (-1, (A_,))):
        xarr = Num(sp.Symbol("P"), kind="array", shape=(A_, B_), tag="elemarr")
        idx = Num(sp.Symbol("axis_indices"), kind="array", shape=ishape, tag="elemarr")
        ev_t = Evaluator(prog)
        lab = f"Phase._take_along_axis(indices, axis={k})"
        r = ck.attempt("R2", ta.where, lab, "evaluates on an opaque element array", lambda: ev_t.call(ta, [idx], {"axis": Num(k)}, self_val=xarr))
        if r is None or not isinstance(r, Num):
            continue
        e = r.expr
        while getattr(e.func, "__name__", "") == "Squeeze":
            e = e.args[0]
        along = getattr(e.func, "__name__", "") == "TakeAlong" and e.args[0] == xarr.expr and e.args[2] == k % 2 and e.args[1].has(idx.expr)
        flat = e.has(F["Unravel"]) or e.has(F["Ravel"])
        if along or flat:
            ck.same("R2", ta.where, lab, "the indices returned by argmin/argmax/argsort along an axis select along THAT axis (axis 0 is an axis, not 'no axis')",
                    along and not flat, found=str(r.expr)[:160], nontrivial=True)
        else:
            ck.unk("R2", ta.where, lab, "selection is a take_along_axis the analyser can recognise", str(r.expr)[:160])


# ---------------------------------------------------------------------------------------- R3 strings
def spellings(tier):
    ints = ["", "0", "5", "12", "9876543210"]
    fracs = [None, "", "0", "5", "25", "0123456789012345"]
    exps = ["", "e0", "e3", "E+2", "e-1", "d-3", "D2", "e-12", "e20"]
    if tier == "quick":
        ints, fracs, exps = ["", "0", "12", "9876543210"], [None, "", "0", "25", "0123456789012345"], ["", "e3", "E+2", "e-1", "d-3", "e-12"]
    out = []
    for sgn, i_, f_, e_, j in itertools.product(["", "+", "-"], ints, fracs, exps, ["", "j"]):
        if i_ == "" and (f_ is None or f_ == ""):
            continue
        body = i_ + ("" if f_ is None else "." + f_)
        out.append(sgn + body + e_ + j)
    return out


def exact_value(s):
    s2 = s.strip().lower().replace("d", "e")
    imag = s2.endswith("j")
    if imag:
        s2 = s2[:-1]
    return sp.Rational(s2), imag


def r3_strings(ck, prog, run):
    fps = prog.func("_parse_string")
    ffs = prog.func("Phase.from_string")
    run.touched(fps)
    run.touched(ffs)
    bad, unk, n = [], [], 0
    cache = {}
    for s in spellings(run.tier):
        n += 1
        ev = phase_evaluator(prog, PhaseLog())
        try:
            r = ev.call(fps, [StrV(s)], {})
        except Raised as e:
            bad.append((s, f"raises {e}"))
            continue
        except (Unsupported, DimensionError) as e:
            unk.append((s, str(e)[:100]))
            continue
        if not (isinstance(r, TupleV) and len(r.items) == 2 and all(isinstance(x, Num) and x.expr.is_number for x in r.items)):
            unk.append((s, repr(r)[:80]))
            continue
        cnt, frc = r.items[0].expr, r.items[1].expr
        val, imag = exact_value(s)
        unit = sp.I if imag else 1
        ok = sp.simplify(cnt + frc - val * unit) == 0
        c_re, f_re = sp.simplify(cnt / unit), sp.simplify(frc / unit)
        ok = ok and c_re.is_real and f_re.is_real and c_re == sp.Integer(c_re) and abs(f_re) < 1 and (c_re == 0 or f_re == 0 or (c_re > 0) == (f_re > 0))
        if not ok:
            bad.append((s, f"count={cnt}, frac={frc}, exact value {val}{'j' if imag else ''}"))
        cache[s] = (cnt, frc, imag)
    run.ob("R3", fps.where, f"_parse_string over {n} spellings", "the two parts sum to the exact decimal value; the first is the whole-cycle part (digits before the point after "
           "applying the exponent), the second the remaining fraction with the same sign; a trailing j makes both imaginary; nothing raises",
           (not bad) if not unk else None, found=str(bad[:4]) if bad else None, nontrivial=True,
           note=(f"{len(bad)} of {n} spellings wrong" if bad else None) if not unk else f"not evaluable: {unk[:2]}")
    run.extra["decimal_spellings_examined"] = n
    run.floor("R3", "decimal spellings examined", n, 300)
    # the same function in IEEE doubles (every float(), **, * and + of the source rounded to nearest-even): exponents that move the point
    # beyond the digits present are applied by multiplying with a power of ten, which is not exact for negative powers; the parts
    # must still come out (nothing may raise) and sum to the value within 2^-52 cycles
    ieee = ["0.1e-5", "0.25e-3", "3.7e-4", "12.5e-4", "5e-3", "0.7e-1", "1.5E-10", "0.1D-5", "-0.3e-2", "7.e-3", "2.5e3", "1.25e2", "123.456e-2", "0.000001",
            "9876543210.0123456789012345", "6.02e5", ".5e-1", "3e-1j", "-1.1e-7",
            # plain decimals whose separately rounded parts do not add up, bit for bit, to the directly parsed double
            "1.23456789", "228.852064360", "0.123456789e1", "-123456789.001e-8"]
    bad2, unk2, n2 = [], [], 0
    for s_ in ieee:
        n2 += 1
        ev = phase_evaluator(prog, PhaseLog())
        ev.float_fold = True
        try:
            r = ev.call(fps, [StrV(s_)], {})
        except Raised as e:
            bad2.append((s_, f"raises {e}"[:90]))
            continue
        except (Unsupported, DimensionError) as e:
            unk2.append((s_, str(e)[:100]))
            continue
        if not (isinstance(r, TupleV) and len(r.items) == 2 and all(isinstance(x, Num) and x.expr.is_number for x in r.items)):
            unk2.append((s_, repr(r)[:80]))
            continue
        val, imag = exact_value(s_)
        unit = sp.I if imag else 1
        err = sp.Abs(sp.simplify((r.items[0].expr + r.items[1].expr) / unit - val))
        if not (err <= sp.Rational(1, 2**52)):
            bad2.append((s_, f"parts sum to the value with an error of {sp.N(err, 5)} cycles"))
    run.ob("R3", fps.where, f"_parse_string over {n2} spellings in IEEE double arithmetic", "every plain decimal string is parsed (nothing raises) and the two parts "
           "sum to its value to within 2^-52 cycles, also when the exponent moves the point beyond the digits present",
           (not bad2) if not unk2 else (False if bad2 else None), found=str(bad2[:4]) if bad2 else None, nontrivial=True,
           note=f"{len(bad2)} of {n2} wrong" + (f"; not evaluable: {unk2[:2]}" if unk2 else ""))
    run.floor("R3", "decimal spellings evaluated in IEEE doubles", n2, 15)
    # what is NOT a plain decimal string is refused (ValueError), never parsed into some number: a second sign, inner blanks, inf/nan,
    # two points, a dangling or doubled exponent, other text
    bad3, unk3, n3 = [], [], 0
    for s_ in ["--1", "+-1", "-+1", "- 1", "++3", "+-2e3", "--1.5", "inf", "-inf", "infinity", "nan", "1.2.3", "1..2", "1e", "e5", "1e2e3", "abc", "0x10", "1,5", "1 2"]:
        n3 += 1
        ev = phase_evaluator(prog, PhaseLog())
        try:
            r = ev.call(fps, [StrV(s_)], {})
            bad3.append((s_, f"parsed as {str(r)[:60]}"))
        except Raised as e:
            if e.exc_name != "ValueError":
                bad3.append((s_, f"raises {e.exc_name}"))
        except (Unsupported, DimensionError) as e:
            unk3.append((s_, str(e)[:100]))
    run.ob("R3", fps.where, f"_parse_string over {n3} strings that are not plain decimals", "refused with ValueError (float() of the pieces is what rejects them), never turned into a number",
           (not bad3) if not unk3 else (False if bad3 else None), found=str(bad3[:4]) if bad3 else None, nontrivial=True,
           note=f"{len(bad3)} of {n3} wrong" + (f"; not evaluable: {unk3[:2]}" if unk3 else ""))
    # sibling idiom: a string without a decimal point keeps all digits in the integer part at both splitting sites
    for fi, var in ((fps, "s_float"), (prog.func("PhasePredictor.from_polyco"), "rphase")):
        calls = [c_ for c_ in ast.walk(fi.node) if isinstance(c_, ast.Call) and isinstance(c_.func, ast.Attribute) and c_.func.attr in ("partition", "rpartition", "split")
                 and c_.args and isinstance(c_.args[0], ast.Constant) and c_.args[0].value == "."]
        ck.same("R4", fi.where, "; ".join(norm(c_) for c_ in calls) or "split at '.'", "decimal strings are split with partition('.'): without a point every digit stays in the integer part",
                bool(calls) and all(c_.func.attr == "partition" for c_ in calls), found=str([norm(c_) for c_ in calls]), nontrivial=True)
    # from_string: real strings -> real Phase (also with a zero part); j strings -> imaginary Phase
    groups = [(["0.5"], False), (["0.0"], False), (["5"], False), (["-12.25", "3."], False), (["1.5j"], True), (["0.5j", "5j"], True), (["0j"], None),
              (["5j"], True), (["-12.000j", "+3E2j"], True), (["0.25j"], True), (["-7"], False)]
    for strs, want_imag in groups:
        log = PhaseLog()

        def ov_parse_strings(ev, args, kwargs, node, fr, fn=None):
            cs, fs = [], []
            for s in strs:
                e2 = phase_evaluator(prog, PhaseLog())
                r = e2.call(fps, [StrV(s)], {})
                cs.append(r.items[0].expr)
                fs.append(r.items[1].expr)
            mk = lambda v: Num(v[0], kind="array", dtype=ExtV("numpy.complex128"))  # noqa: E731  (scalar case)
            return TupleV([mk(cs), mk(fs)])
        ev = phase_evaluator(prog, log)
        mi = prog.module("pulsarbat.pulsar.phase")
        ev.modcache[(mi.name, "_parse_strings")] = __import__("pbverif.values", fromlist=["PyFuncV"]).PyFuncV(lambda e_, a, k, fr, nd: ov_parse_strings(e_, a, k, nd, fr), "_parse_strings")
        arg = Num(sp.Symbol("strarr"), kind="array", dtype=ExtV("numpy.str_"), tag="strings")
        tag = f"Phase.from_string({strs[0]!r})"
        try:
            res = ev.call(ffs, [OpaqueStr(strs[0])], {}, cls_val=ClassV(prog.cls("Phase")))
        except Raised as e:
            ck.same("R3", ffs.where, tag, "a plain decimal string is accepted", False, found=str(e)[:160], nontrivial=True)
            continue
        except (Unsupported, DimensionError) as e:
            ck.unk("R3", ffs.where, tag, "evaluates", str(e)[:200])
            continue
        fa = [e[1] for e in log.events if e[0] == "from_angles"]
        if len(fa) != 1:
            ck.same("R3", ffs.where, tag, "the two parsed parts are handed to the constructor separately", False, found=f"{len(fa)} from_angles calls")
            continue
        a = fa[0]
        # decide what from_angles would see: run the real check_imaginary on the two parts
        from ..phasemodel import Captured
        got_flag = _flag_of(prog, a["phase1"], a["phase2"])
        val, _ = exact_value(strs[0])
        parts_ok = isinstance(a["phase1"], Num) and isinstance(a["phase2"], Num)
        if want_imag is None:
            ok = parts_ok and got_flag in (True, False)
        else:
            ok = parts_ok and got_flag is want_imag
        ck.same("R3", ffs.where, tag, "both parts reach the constructor separately, with a consistent kind: a real string never yields an imaginary phase (even when one part is zero), "
                "a j string an imaginary one", ok, found=f"phase1={str(a['phase1'])[:50]} phase2={str(a['phase2'])[:50]} -> imaginary={got_flag}", nontrivial=True)


class OpaqueStr(StrV):
    """A string *array* argument for from_string (np.asanyarray(string).dtype.kind == 'U')."""
    pass


def _flag_of(prog, ph1, ph2):
    """Run the package's from_angles up to day_frac on the two parts; -> imaginary flag (True/False) or the exception name."""
    from ..phasemodel import Captured
    got = {}

    def ov_day_frac(ev, a, kw, node, fr, fn):
        got["imaginary"] = fr.env.get("imaginary")
        raise Captured({}, None)
    ev = phase_evaluator(prog, PhaseLog(), capture_day_frac=True)
    ev.overrides[PH + "day_frac"] = ov_day_frac
    try:
        ev.call(prog.func("Phase.from_angles"), [ph1, ph2], {}, cls_val=ClassV(prog.cls("Phase")))
    except Captured:
        v = got.get("imaginary")
        return v.b if isinstance(v, BoolV) else None
    except Raised as e:
        return f"raises {e.exc_name}"
    except Exception as e:  # noqa
        return f"{type(e).__name__}"
    return None


# ---------------------------------------------------------------------------------------- R5 decimal rendering
def r5_to_string(ck, prog, run):
    """to_string on exactly representable (dyadic) values: the rendering must be the exact value rounded to the digits shown."""
    import decimal
    from fractions import Fraction
    from ..extapi import to_decimal
    fts = prog.func("Phase.to_string")
    run.touched(fts)
    vals = [(3, "1/8"), (0, "-3/8"), (-7, "0"), (12, "1/2"), (5, "-1/2"), (0, "1/4"), (123456789012, "-1/16"), (0, "0"), (-1, "1/2"), (0, "-1/2"),
            (4, "3/4"), (2, "127/128"), (-3, "-1/1024"), (9, "31/64"), (1, "1/4"), (-2, "1/8"), (0, "-1/8"), (0, "3/16")]
    # fractions far below the resolution of the count: frac + 1 rounds to 1.0 in doubles (the carry into the count must follow),
    # and doubles just inside +-1/2
    vals += [(5, "-1/1152921504606846976"), (-5, "1/1152921504606846976"), (0, "-1/1180591620717411303424"), (7, "1/4611686018427387904"),
             (5, "9007199254740991/18014398509481984"), (-8, "-9007199254740991/18014398509481984"), (3, "-1/36028797018963968")]
    # doubles whose sum with 1/4 prints with one or two decimals (0.05 + 0.25 -> '0.3', 0.1 + 0.25 -> '0.35'): the digit
    # arithmetic of the small-fraction branch has separate cases for these
    vals += [(3, "3602879701896397/72057594037927936"), (0, "5404319552844595/36028797018963968"), (2, "3602879701896397/36028797018963968"), (-4, "3602879701896397/18014398509481984"), (6, "5764607523034235/576460752303423488"), (1, "1080863910568919/4503599627370496")]
    precs = [None, 0, 1, 2, 3, 6]
    if run.tier == "thorough":
        vals += [(10**12, "1/2"), (-10**9, "-7/16"), (7, "-127/256"), (0, "1/1024"), (1, "-1/1024"), (99, "63/64"), (-99, "-63/64")]
        precs += [4, 9, 12]
    bad, unk, n = [], [], 0
    for i_, f_ in vals:
        for imag in (False, True):
            if imag and (i_, f_) not in ((3, "1/8"), (0, "-3/8"), (-7, "0")):
                continue
            for pr in precs:
                for always in ((False, True) if pr in (None, 1) and not imag else (False,)):
                    n += 1
                    p = make_phase(prog, "p", imag)
                    p.attrs["_pint"] = Num(sp.Integer(i_), isfloat=True)
                    p.attrs["_pfrac"] = Num(sp.Rational(f_), isfloat=True)
                    ev = phase_evaluator(prog, PhaseLog())
                    ev.float_fold = True     # the parts are concrete doubles: arithmetic on them is folded with IEEE rounding
                    kw = {} if pr is None else {"precision": Num(pr)}
                    if always:
                        kw["alwayssign"] = BoolV(True)
                    label = f"Phase({i_}, {f_}{'j' if imag else ''}).to_string({'' if pr is None else 'precision=%d' % pr}{', alwayssign' if always else ''})"
                    try:
                        r = ev.call(fts, [], kw, self_val=p)
                    except Raised as e:
                        bad.append((label, f"raises {e}"[:80]))
                        continue
                    except (Unsupported, DimensionError) as e:
                        unk.append((label, str(e)[:120]))
                        continue
                    if not isinstance(r, StrV):
                        unk.append((label, repr(r)[:60]))
                        continue
                    s = r.s
                    exact = Fraction(i_) + Fraction(f_)
                    body = s
                    if imag:
                        if not body.endswith("j"):
                            bad.append((label, f"{s!r}: imaginary phase rendered without j"))
                            continue
                        body = body[:-1]
                    elif body.endswith("j"):
                        bad.append((label, f"{s!r}: real phase rendered with j"))
                        continue
                    if always and not body.startswith(("+", "-")):
                        bad.append((label, f"{s!r}: sign missing"))
                        continue
                    try:
                        got = Fraction(decimal.Decimal(body))
                    except Exception:
                        bad.append((label, f"{s!r} is not a decimal number"))
                        continue
                    if pr is None:
                        ok = got == exact or abs(got - exact) <= Fraction(1, 10**16)
                    else:
                        digits = len(body.split(".")[1]) if "." in body else 0
                        ok = digits == pr and abs(got - exact) <= Fraction(1, 2 * 10**pr)
                    if ok and exact < 0 and got != 0 and not body.startswith("-"):
                        ok = False
                    if ok and body.count("-") > (1 if body.startswith("-") else 0):
                        ok = False
                    if not ok:
                        bad.append((label, f"{s!r} for the exact value {exact}"))
    run.ob("R5", fts.where, f"to_string over {n} (value, precision) combinations of exactly representable phases",
           "the rendering is the exact two-part value rounded to the digits shown (exact when no precision is requested), with the right sign and j suffix",
           (not bad) if not unk else (False if bad else None), found=str(bad[:4]) if bad else None, nontrivial=True,
           note=f"{len(bad)} wrong of {n}" + (f"; not evaluable: {unk[:2]}" if unk else ""))
    run.floor("R5", "rendering combinations", n, 100)
    # fixed-point format(): same contract, through Phase.__format__
    ffm = prog.func("Phase.__format__")
    run.touched(ffm)
    badf, unkf, nf = [], [], 0
    for i_, f_ in vals:
        if sp.Rational(f_).q > 2**20:
            continue
        for spec, imag in [(sp_, False) for sp_ in (".1f", ".3f", ".6f")] + ([(".3f", True), (".1f", True)] if (i_, f_) in ((3, "1/8"), (0, "-3/8"), (-7, "0")) else []):
            nf += 1
            p = make_phase(prog, "p", imag)
            p.attrs["_pint"] = Num(sp.Integer(i_), isfloat=True)
            p.attrs["_pfrac"] = Num(sp.Rational(f_), isfloat=True)
            ev = phase_evaluator(prog, PhaseLog())
            ev.float_fold = True
            label = f"format(Phase({i_}, {f_}{'j' if imag else ''}), '{spec}')"
            try:
                r = ev.call(ffm, [StrV(spec)], {}, self_val=p)
            except Raised as e:
                badf.append((label, f"raises {e}"[:80]))
                continue
            except (Unsupported, DimensionError) as e:
                unkf.append((label, str(e)[:120]))
                continue
            if not isinstance(r, StrV):
                unkf.append((label, repr(r)[:60]))
                continue
            exact = Fraction(i_) + Fraction(f_)
            pr = int(spec[1:-1])
            body = r.s
            if imag:
                if not body.endswith("j"):
                    badf.append((label, f"{r.s!r}: imaginary phase rendered without j"))
                    continue
                body = body[:-1]
            try:
                got = Fraction(decimal.Decimal(body))
            except Exception:
                badf.append((label, f"{r.s!r} is not a decimal number"))
                continue
            digits = len(body.split(".")[1]) if "." in body else 0
            ok = digits == pr and abs(got - exact) <= Fraction(1, 2 * 10**pr)
            if ok and exact < 0 and not r.s.startswith("-") and (got != 0 or abs(exact) >= Fraction(1, 2 * 10**pr)):
                ok = False
            if not ok:
                badf.append((label, f"{r.s!r} for the exact value {exact}"))
    run.ob("R5", ffm.where, f"format(phase, '.Nf') over {nf} (value, precision) combinations", "fixed-point formatting is the exact two-part value rounded to the "
           "digits shown, with its sign (also for values in (-1, 0), whose integer part prints as -0)",
           (not badf) if not unkf else (False if badf else None), found=str(badf[:4]) if badf else None, nontrivial=True,
           note=f"{len(badf)} wrong of {nf}" + (f"; not evaluable: {unkf[:2]}" if unkf else ""))
    run.floor("R5", "format() combinations", nf, 40)
    # from_string(to_string(p)) == p on the same values: parse the rendered string with the package's own parser
    fps = prog.func("_parse_string")
    bad2, unk2 = [], []
    from fractions import Fraction as _Fr
    for i_, f_ in vals:
        p = make_phase(prog, "p")
        p.attrs["_pint"] = Num(sp.Integer(i_), isfloat=True)
        p.attrs["_pfrac"] = Num(sp.Rational(f_), isfloat=True)
        tiny = sp.Rational(f_).q > 2**20
        try:
            e1 = phase_evaluator(prog, PhaseLog())
            e1.float_fold = True
            r = e1.call(fts, [], {}, self_val=p)
            back = phase_evaluator(prog, PhaseLog()).call(fps, [r], {})
            tot = back.items[0].expr + back.items[1].expr
            diff = sp.simplify(tot - (sp.Integer(i_) + sp.Rational(f_)))
            if (diff != 0) if not tiny else (abs(diff) > sp.Rational(1, 10**15)):
                bad2.append((i_, f_, r.s, str(tot)))
        except (Unsupported, DimensionError) as e:
            unk2.append((i_, f_, str(e)[:80]))
        except Raised as e:
            bad2.append((i_, f_, "raises", str(e)[:60]))
    run.ob("R5", fts.where, "from_string(to_string(p))", "the default rendering parses back to the same value (exactly on short dyadic phases, within 1e-15 cycles "
           "on fractions below the resolution of the count)",
           (not bad2) if not unk2 else (False if bad2 else None), found=str(bad2[:3]) if bad2 else None, nontrivial=True,
           note=f"not evaluable: {unk2[:2]}" if unk2 else None)
