"""Symbolic signal objects for the term evaluator."""
from __future__ import annotations

import sympy as sp

from .values import Num, StrV, NONE, ObjV, DictV, ExtV, UNITS, Hz
from .extapi import StackV

N = sp.Symbol("N", integer=True, positive=True)
NCHAN = sp.Symbol("nchan", integer=True, positive=True)
SR = sp.Symbol("SR", positive=True)
CF = sp.Symbol("CF", real=True)
BW = sp.Symbol("BW", positive=True)
T0 = sp.Symbol("T0", real=True)


def sym_complex(name):
    return sp.Symbol(name + "_re", real=True) + sp.I * sp.Symbol(name + "_im", real=True)


def make_signal(prog, clsname, *, n=N, nchan=NCHAN, extra=(), start_time=True, freq_align="center",
                pol_type="linear", backend="numpy", name="z", dtype=None, data=None, chan_bw=None,
                sample_rate=None, center_freq=None, t0=None):
    ci = prog.cls(clsname)
    radio = ci.is_subclass_of("RadioSignal")
    shape = [sp.sympify(n)]
    if radio:
        shape.append(sp.sympify(nchan))
    if ci.is_subclass_of("DualPolarizationSignal"):
        shape.append(sp.Integer(2))
    elif ci.is_subclass_of("FullStokesSignal"):
        shape.append(sp.Integer(4))
    shape += [sp.sympify(x) for x in extra]
    if dtype is None:
        dtype = "complex128" if ci.is_subclass_of("BasebandSignal") else "float64"
    if data is None:
        data = Num(sp.Symbol("D_" + name), kind="array", shape=shape, backend=backend, tag="data",
                   dtype=ExtV("numpy." + dtype))
    sr = sample_rate if sample_rate is not None else Num(SR * Hz, kind="quantity")
    attrs = {
        "_data": data,
        "_sample_rate": sr,
        "_start_time": (Num((T0 if t0 is None else t0) / Hz, kind="time") if start_time else NONE),
        "_meta": NONE,
    }
    if radio:
        attrs["_center_freq"] = center_freq if center_freq is not None else Num(CF * Hz, kind="quantity")
        if ci.is_subclass_of("BasebandSignal"):
            attrs["_chan_bw"] = chan_bw if chan_bw is not None else sr
        else:
            attrs["_chan_bw"] = chan_bw if chan_bw is not None else Num(BW * Hz, kind="quantity")
        attrs["_freq_align"] = StrV(freq_align)
    if ci.is_subclass_of("DualPolarizationSignal"):
        attrs["_pol_type"] = StrV(pol_type)
    complete_from_constructor(prog, ci, attrs, data)
    return ObjV(ci, attrs, tag=name)


DISCREPANCIES = []      # (class, storage attribute, value handed to the constructor, value it stored)


def report_discrepancies(run, prog, pid):
    """One obligation per property run: every model signal built for this property was also pushed through its class's own
    constructor, and the enumerated state the constructor stored is the state it was given."""
    seen = set()
    for cname, attr, want, got in DISCREPANCIES:
        if (cname, attr, want, got) in seen:
            continue
        seen.add((cname, attr, want, got))
        ci = prog.cls(cname)
        init = ci.find_method("__init__")
        run.ob("RC", init.where if init is not None else cname, f"{cname}(..., {attr.lstrip('_')}={want!r})",
               "the constructor chain stores the alignment / polarisation basis it is given (a keyword dropped on the way up silently "
               "changes channel labels or the basis of every such signal)", False, found=f"stored {got!r}", expected=repr(want), nontrivial=True)
    if not seen:
        run.ob("RC", "pulsarbat/core.py (signal constructors)", "enumerated state of every model signal vs. its class's own constructor",
               "the constructor chain stores the alignment / polarisation basis it is given", True)


def complete_from_constructor(prog, ci, attrs, data):
    """Instance attributes the class's own constructor / setters create beyond the modelled storage layout (caches,
    flags) are taken over from an evaluation of the constructor, so that a class that grows such an attribute is still
    analysed through its own code.  Best effort: a constructor the evaluator cannot follow leaves the model as it is."""
    try:
        from .symeval import Evaluator, Frame
        ev = Evaluator(prog)
        kw = {"sample_rate": attrs["_sample_rate"], "start_time": attrs["_start_time"]}
        if "_center_freq" in attrs:
            kw["center_freq"] = attrs["_center_freq"]
            kw["freq_align"] = attrs["_freq_align"]
            if not ci.is_subclass_of("BasebandSignal"):
                kw["chan_bw"] = attrs["_chan_bw"]
        if "_pol_type" in attrs:
            kw["pol_type"] = attrs["_pol_type"]
        obj = ev.construct(ci, [data], kw, Frame(None, None, None, {}, 0))
        for k, v in obj.attrs.items():
            if k not in attrs:
                attrs[k] = v
            elif isinstance(v, StrV) and isinstance(attrs[k], StrV) and v.s != attrs[k].s:
                # enumerated state (alignment, polarisation basis): the class's own chain of constructors and setters stores
                # something else than it was given -- a keyword lost on the way up.  The model keeps what was asked for (so that
                # the property's own rules see the mismatch in results rebuilt through the constructor) and the discrepancy
                # is reported as an obligation of every property that uses such a signal (main.py).
                if k == "_freq_align":
                    nch = sp.sympify(data.shape[1]) if getattr(data, "shape", None) is not None and len(data.shape) > 1 else None
                    even = nch is not None and sp.simplify(sp.Mod(nch, 2)) == 0
                    if not even:
                        continue          # an odd (or undecided) channel count is normalised to 'center' by design
                DISCREPANCIES.append((ci.name, k, attrs[k].s, v.s))
    except Exception:
        pass


def pol_data(name="z", comps=("A", "B"), axis=2, backend="numpy", shape=None, dtype="complex128"):
    shp = shape if shape is not None else (N, NCHAN, sp.Integer(len(comps)))
    ishape = [x for i, x in enumerate(shp) if i != axis]
    items = [Num(sym_complex(c), kind="array", backend=backend, tag="data", shape=ishape,
                 dtype=ExtV("numpy." + dtype)) for c in comps]
    s = StackV(items, axis, backend)
    s.shape = shape if shape is not None else (N, NCHAN, sp.Integer(len(comps)))
    s.dtype = ExtV("numpy." + dtype)
    return s
