"""Deciding `extracted == expected` for sympy terms: normal forms, then exact evaluation at
random rational points (Schwartz-Zippel style).  No solver."""
from __future__ import annotations

import random
import hashlib
from fractions import Fraction
import sympy as sp

from .values import UNIT_SYMS


def _rand_rational(rng, positive=False, integer=False, lo=1, hi=40):
    if integer:
        v = rng.randint(lo, hi)
        return sp.Integer(v if positive or rng.random() < 0.5 else -v)
    num, den = rng.randint(1, 97), rng.randint(1, 13)
    v = sp.Rational(num, den)
    return v if positive or rng.random() < 0.5 else -v


def sample_point(symbols, rng, constraints=None):
    """Random rational valuation respecting sympy assumptions; `constraints` may be a callable
    (dict -> dict) that post-processes the point (e.g. to order start <= stop <= n)."""
    pt = {}
    for s in sorted(symbols, key=lambda x: x.name):
        if s.is_integer:
            pt[s] = _rand_rational(rng, positive=bool(s.is_positive or s.is_nonnegative), integer=True)
        else:
            pt[s] = _rand_rational(rng, positive=bool(s.is_positive or s.is_nonnegative))
    if constraints:
        pt = constraints(pt) or pt
    return pt


class _Inexact(Exception):
    pass


def _opaque_value(name, args, salt):
    h = hashlib.sha256((name + "|" + "|".join(str(a) for a in args) + "|" + str(salt)).encode()).hexdigest()
    re_ = Fraction(int(h[:8], 16) % 9973 + 1, int(h[8:12], 16) % 97 + 1)
    if name in ("FFT", "IFFT", "Idx", "Opq", "FFTSHIFT", "IFFTSHIFT", "Take", "Concat", "Reshape", "Swapaxes"):
        im_ = Fraction(int(h[12:18], 16) % 8191 + 1, int(h[18:22], 16) % 89 + 1)
        return GQ(re_, im_)
    return GQ(re_, Fraction(0))


class GQ:
    """Gaussian rational a + b*i with exact arithmetic."""
    __slots__ = ("re", "im")

    def __init__(self, re_, im_=Fraction(0)):
        self.re, self.im = Fraction(re_), Fraction(im_)

    def __add__(self, o):
        return GQ(self.re + o.re, self.im + o.im)

    def __mul__(self, o):
        return GQ(self.re * o.re - self.im * o.im, self.re * o.im + self.im * o.re)

    def inv(self):
        d = self.re * self.re + self.im * self.im
        if d == 0:
            raise ZeroDivisionError
        return GQ(self.re / d, -self.im / d)

    def is_real(self):
        return self.im == 0

    def __eq__(self, o):
        return isinstance(o, GQ) and self.re == o.re and self.im == o.im

    def __hash__(self):
        return hash((self.re, self.im))

    def __repr__(self):
        return f"{self.re}" if self.im == 0 else f"({self.re}+{self.im}i)"

    def to_sympy(self):
        return sp.Rational(self.re.numerator, self.re.denominator) + sp.I * sp.Rational(self.im.numerator, self.im.denominator)


def _ipow(b, n):
    if n < 0:
        b, n = b.inv(), -n
    r = GQ(1)
    while n:
        if n & 1:
            r = r * b
        b = b * b
        n >>= 1
    return r


def _exact(e, env, salt):
    """Exact value (GQ) of a sympy term under env {Symbol: Fraction}; raises _Inexact for
    transcendental / irrational sub-terms."""
    if e.is_Symbol:
        if e in env:
            v = env[e]
            return v if isinstance(v, GQ) else GQ(Fraction(int(v.p), int(v.q)) if isinstance(v, sp.Rational) else Fraction(v))
        raise ValueError(f"free symbol {e}")
    if e.is_Rational:
        return GQ(Fraction(int(e.p), int(e.q)))
    if e is sp.I:
        return GQ(0, 1)
    if e.is_Add:
        r = GQ(0)
        for a in e.args:
            r = r + _exact(a, env, salt)
        return r
    if e.is_Mul:
        r = GQ(1)
        for a in e.args:
            r = r * _exact(a, env, salt)
        return r
    if e.is_Pow:
        b, x = e.args
        xv = _exact(x, env, salt)
        if xv.is_real() and xv.re.denominator == 1:
            return _ipow(_exact(b, env, salt), int(xv.re))
        bv = _exact(b, env, salt)
        if bv.is_real() and xv.is_real() and bv.re >= 0:
            # rational power: exact only for perfect powers
            num, den = xv.re.numerator, xv.re.denominator
            from math import isqrt
            if den == 2:
                n_, d_ = bv.re.numerator, bv.re.denominator
                rn, rd = isqrt(n_), isqrt(d_)
                if rn * rn == n_ and rd * rd == d_:
                    return _ipow(GQ(Fraction(rn, rd)), num)
        raise _Inexact()
    f = e.func
    if f in (sp.floor, sp.ceiling):
        v = _exact(e.args[0], env, salt)
        import math
        if f is sp.floor:
            return GQ(math.floor(v.re), math.floor(v.im))
        return GQ(math.ceil(v.re), math.ceil(v.im))
    if f in (sp.Min, sp.Max):
        vs = [_exact(a, env, salt) for a in e.args]
        if not all(v.is_real() for v in vs):
            raise ValueError("Min/Max of non-real")
        return GQ((min if f is sp.Min else max)(v.re for v in vs))
    if f is sp.Abs:
        v = _exact(e.args[0], env, salt)
        if v.is_real():
            return GQ(abs(v.re))
        raise _Inexact()
    if f is sp.re:
        return GQ(_exact(e.args[0], env, salt).re)
    if f is sp.im:
        return GQ(_exact(e.args[0], env, salt).im)
    if f is sp.conjugate:
        v = _exact(e.args[0], env, salt)
        return GQ(v.re, -v.im)
    if f is sp.sign:
        v = _exact(e.args[0], env, salt)
        return GQ((v.re > 0) - (v.re < 0))
    if f is sp.Mod:
        a, b = (_exact(x, env, salt) for x in e.args)
        return GQ(a.re % b.re)
    if f is sp.Piecewise:
        for ex, c in e.args:
            if c is sp.true or c is True or _truth(c, env, salt):
                return _exact(ex, env, salt)
        raise ValueError("Piecewise without a true branch")
    if isinstance(e, sp.core.function.AppliedUndef):
        if f.__name__ == "ITE_":
            return _exact(e.args[1] if _truth(e.args[0], env, salt) else e.args[2], env, salt)
        if f.__name__ == "SliceLen":
            vals = []
            for a in e.args:
                if a.is_Symbol and a.name == "None_":
                    vals.append(None)
                else:
                    v = _exact(a, env, salt)
                    if not (v.is_real() and v.re.denominator == 1):
                        raise ValueError("non-integer slice bound")
                    vals.append(int(v.re))
            return GQ(len(range(*slice(vals[0], vals[1], vals[2]).indices(vals[3]))))
        args = [_exact(a, env, salt) for a in e.args]
        return _opaque_value(f.__name__, args, salt)
    if e is sp.true or e is sp.false:
        return GQ(1 if e is sp.true else 0)
    raise _Inexact()


def _truth(c, env, salt):
    if c is sp.true or c is True:
        return True
    if c is sp.false or c is False:
        return False
    if isinstance(c, sp.And):
        return all(_truth(a, env, salt) for a in c.args)
    if isinstance(c, sp.Or):
        return any(_truth(a, env, salt) for a in c.args)
    if isinstance(c, sp.Not):
        return not _truth(c.args[0], env, salt)
    if isinstance(c, sp.Xor):
        return sum(_truth(a, env, salt) for a in c.args) % 2 == 1
    if isinstance(c, sp.core.relational.Relational):
        l, r = _exact(c.lhs, env, salt), _exact(c.rhs, env, salt)
        if isinstance(c, sp.Eq):
            return l == r
        if isinstance(c, sp.Ne):
            return l != r
        if not (l.is_real() and r.is_real()):
            raise ValueError("ordering of non-real values")
        return {sp.Lt: l.re < r.re, sp.Le: l.re <= r.re, sp.Gt: l.re > r.re, sp.Ge: l.re >= r.re}[type(c)]
    if c.is_Symbol and c in env:
        return bool(env[c])
    raise _Inexact()


def evaluate(expr, salt=0, env=None):
    """Value of a term at the point `env` ({Symbol: sympy Rational}): exact Gaussian-rational arithmetic
    where possible, otherwise sympy/mpmath at 60 digits.  Opaque functions are hashed on their argument values."""
    expr = sp.sympify(expr)
    env = env or {}
    try:
        if isinstance(expr, (sp.logic.boolalg.BooleanFunction, sp.logic.boolalg.BooleanAtom,
                             sp.core.relational.Relational)) and not expr.is_Symbol:
            return sp.true if _truth(expr, env, salt) else sp.false
        return _exact(expr, env, salt).to_sympy()
    except _Inexact:
        return _mp_eval(expr, env, salt)


def _mp_eval(expr, env, salt):
    """Fallback for transcendental terms: replace opaque applications bottom-up, then evalf."""
    def repl(e):
        if isinstance(e, sp.core.function.AppliedUndef):
            args = [repl(a) for a in e.args]
            vals = []
            for a in args:
                a2 = a.subs(env) if a.free_symbols else a
                vals.append(sp.nsimplify(a2) if a2.is_Rational else sp.N(a2, 30))
            return _opaque_value(e.func.__name__, vals, salt).to_sympy()
        if not e.args:
            return e
        return e.func(*[repl(a) for a in e.args], evaluate=False) if e.func in (sp.Min, sp.Max, sp.floor, sp.ceiling) \
            else e.func(*[repl(a) for a in e.args])
    e2 = repl(expr)
    e2 = e2.subs(env) if e2.free_symbols else e2
    return e2


def is_zero_value(v):
    v = sp.sympify(v)
    if v == 0:
        return True
    if v.is_Rational:
        return False
    if v.is_number:
        try:
            v2 = sp.expand(v)
            if v2 == 0:
                return True
            re_, im_ = v2.as_real_imag()
            if re_.is_Rational and im_.is_Rational:
                return bool(re_ == 0 and im_ == 0)
        except Exception:
            pass
    try:
        if sp.simplify(v) == 0:
            return True
    except Exception:
        pass
    if v.is_number:
        try:
            f = complex(sp.N(v, 60))
            if abs(f) > 1e-30:
                return False
            return abs(complex(sp.N(v, 120))) < 1e-90
        except Exception:
            return None
    return None


class Verdict:
    __slots__ = ("equal", "how", "witness", "diff")

    def __init__(self, equal, how, witness=None, diff=None):
        self.equal, self.how, self.witness, self.diff = equal, how, witness, diff

    def __bool__(self):
        return self.equal is True


class _Timeout(Exception):
    pass


class time_limit:
    """SIGALRM based wall-clock limit for sympy calls that may not terminate in reasonable time."""
    def __init__(self, seconds):
        self.seconds = seconds

    def __enter__(self):
        import signal
        self._old = signal.signal(signal.SIGALRM, self._raise)
        signal.setitimer(signal.ITIMER_REAL, self.seconds)

    def __exit__(self, *a):
        import signal
        signal.setitimer(signal.ITIMER_REAL, 0)
        signal.signal(signal.SIGALRM, self._old)
        return False

    @staticmethod
    def _raise(signum, frame):
        raise _Timeout()


SYMBOLIC_BUDGET_S = 4.0


def equal(a, b, seed=0, points=6, constraints=None, assume=None):
    """-> Verdict(equal=True/False/None).

    Order: syntactic identity; exact evaluation at random rational points (any non-zero value is a
    definite contradiction and the point is the witness); if every point gives exactly zero, a symbolic
    normal-form proof is attempted under a time budget; if that does not finish, agreement at all points is
    reported as such."""
    a, b = sp.sympify(a), sp.sympify(b)
    if assume:
        a, b = a.subs(assume), b.subs(assume)
    if a == b:
        return Verdict(True, "syntactic")
    rng = random.Random(seed * 7919 + 17)
    syms = (a.free_symbols | b.free_symbols)
    nz, bad = 0, None
    for k in range(points):
        pt = sample_point(syms, rng, constraints)
        try:
            va = evaluate(a, salt=k, env=pt)
            vb = evaluate(b, salt=k, env=pt)
            z = is_zero_value(va - vb)
        except (ZeroDivisionError, ValueError, _Timeout) as e:
            z, bad = None, f"{type(e).__name__}: {e}"
        except Exception as e:   # sympy internals
            z, bad = None, f"{type(e).__name__}: {e}"
        if z is False:
            return Verdict(False, "witness", witness={str(s_): str(v) for s_, v in pt.items()},
                           diff=str(sp.N(va - vb, 12)))
        if z is True:
            nz += 1
    diff = a - b
    if sp.count_ops(diff) < 600:
        try:
            with time_limit(SYMBOLIC_BUDGET_S):
                if sp.expand(diff) == 0:
                    return Verdict(True, "expand")
                if not diff.has(sp.Piecewise, sp.floor, sp.ceiling, sp.Min, sp.Max, sp.Mod):
                    if sp.simplify(diff) == 0:
                        return Verdict(True, "simplify")
                    if sp.simplify(sp.expand(diff, complex=True)) == 0:
                        return Verdict(True, "simplify-complex")
        except _Timeout:
            pass
        except Exception:
            pass
    if nz == points and points >= 3:
        return Verdict(True, f"exact-evaluation at {points} random rational points")
    return Verdict(None, f"undecided ({nz}/{points} points evaluated to zero; {bad or ''})")


def has_unit_symbols(e):
    return bool(sp.sympify(e).free_symbols & UNIT_SYMS)


def float_eval(e, env, reducers=None):
    """IEEE double evaluation of an *unevaluated* term in the association order of the tree (used where floating-point
    grouping is the point).  env: {Symbol: float}; reducers: {function name: callable(inner_expr) -> float}."""
    import math
    e = sp.sympify(e) if not isinstance(e, sp.Basic) else e
    if e.is_Symbol:
        return float(env[e])
    if e.is_Number:
        return float(e)
    if e is sp.pi:
        return math.pi
    if e.is_Add:
        args = list(e.args)
        acc = float_eval(args[0], env, reducers)
        for a in args[1:]:
            acc = acc + float_eval(a, env, reducers)
        return acc
    if e.is_Mul:
        args = list(e.args)
        acc = float_eval(args[0], env, reducers)
        for a in args[1:]:
            acc = acc * float_eval(a, env, reducers)
        return acc
    if e.is_Pow:
        b, x = e.args
        return float_eval(b, env, reducers) ** float_eval(x, env, reducers)
    if isinstance(e, sp.core.function.AppliedUndef) and reducers and e.func.__name__ in reducers:
        return reducers[e.func.__name__](e.args[0])
    if e.func is sp.floor:
        return float(math.floor(float_eval(e.args[0], env, reducers)))
    if e.func is sp.Abs:
        return abs(float_eval(e.args[0], env, reducers))
    raise ValueError(f"float_eval: unsupported node {e.func}")
