"""Deciding `extracted == expected` for sympy terms: normal forms, then exact evaluation at
random rational points (Schwartz-Zippel style).  No solver."""
from __future__ import annotations

import random
import hashlib
import sympy as sp

from .values import UNIT_SYMS


def _rand_rational(rng, positive=False, integer=False, lo=1, hi=40):
    if integer:
        v = rng.randint(lo, hi)
        return sp.Integer(v if positive or rng.random() < 0.5 else -v)
    num, den = rng.randint(1, 97), rng.randint(1, 13)
    v = sp.Rational(num, den)
    return v if positive or rng.random() < 0.5 else -v


def sample_point(symbols, rng, constraints=None):
    """Random rational valuation respecting sympy assumptions; `constraints` may be a callable
    (dict -> dict) that post-processes the point (e.g. to order start <= stop <= n)."""
    pt = {}
    for s in sorted(symbols, key=lambda x: x.name):
        if s.is_integer:
            pt[s] = _rand_rational(rng, positive=bool(s.is_positive or s.is_nonnegative), integer=True)
        else:
            pt[s] = _rand_rational(rng, positive=bool(s.is_positive or s.is_nonnegative))
    if constraints:
        pt = constraints(pt) or pt
    return pt


def _apply_opaque(expr, salt):
    """Replace applications of uninterpreted functions by deterministic pseudo-random rationals of
    their (already numeric) arguments: equal arguments -> equal value, different arguments ->
    (almost surely) different value.  Sound for 'injective' reading of opaque operators."""
    def value(f):
        args = [evaluate(a, salt) for a in f.args]
        h = hashlib.sha256((f.func.__name__ + "|" + "|".join(str(a) for a in args) + "|" + str(salt)).encode()).hexdigest()
        num = int(h[:8], 16) % 9973 + 1
        den = int(h[8:12], 16) % 97 + 1
        re_ = sp.Rational(num, den)
        im_ = sp.Rational(int(h[12:18], 16) % 8191 + 1, int(h[18:22], 16) % 89 + 1)
        return re_ + sp.I * im_ if f.func.__name__ in ("FFT", "IFFT", "Idx", "Opq", "FFTSHIFT", "IFFTSHIFT") else re_
    return value


def evaluate(expr, salt=0):
    """Exact numeric value of a closed term (no free symbols); opaque functions are hashed."""
    expr = sp.sympify(expr)
    if isinstance(expr, sp.logic.boolalg.Boolean) or isinstance(expr, sp.core.relational.Relational):
        if isinstance(expr, sp.core.relational.Relational):
            l, r = evaluate(expr.lhs, salt), evaluate(expr.rhs, salt)
            return sp.sympify(expr.func(l, r))
        return expr.func(*[evaluate(a, salt) for a in expr.args]) if expr.args else expr
    if isinstance(expr, sp.Piecewise):
        for e, c in expr.args:
            cv = evaluate(c, salt) if c is not sp.true and c is not True else sp.true
            if cv is sp.true or cv == True:  # noqa: E712
                return evaluate(e, salt)
            if cv is sp.false or cv == False:  # noqa: E712
                continue
            raise ValueError(f"undecided Piecewise condition {c} -> {cv}")
        raise ValueError("Piecewise without a true branch")
    if isinstance(expr, sp.core.function.AppliedUndef):
        return _apply_opaque(expr, salt)(expr)
    if not expr.args:
        return expr
    args = [evaluate(a, salt) for a in expr.args]
    try:
        v = expr.func(*args)
    except Exception:
        v = expr.func(*args, evaluate=False)
    return v


def is_zero_value(v):
    v = sp.nsimplify(v) if v.is_number and not v.is_Rational and v.is_real is not False and False else v
    try:
        v = sp.simplify(v)
    except Exception:
        pass
    if v == 0:
        return True
    if v.is_number:
        try:
            f = complex(sp.N(v, 40))
            if abs(f) < 1e-25:
                # exact zero test for algebraic numbers
                return sp.simplify(sp.expand(v)) == 0 or abs(complex(sp.N(v, 80))) < 1e-60
            return False
        except Exception:
            return None
    return None


class Verdict:
    __slots__ = ("equal", "how", "witness", "diff")

    def __init__(self, equal, how, witness=None, diff=None):
        self.equal, self.how, self.witness, self.diff = equal, how, witness, diff

    def __bool__(self):
        return self.equal is True


def equal(a, b, seed=0, points=6, constraints=None, assume=None):
    """-> Verdict(equal=True/False/None).  `assume`: dict of substitutions applied to both first."""
    a, b = sp.sympify(a), sp.sympify(b)
    if assume:
        a, b = a.subs(assume), b.subs(assume)
    if a == b:
        return Verdict(True, "syntactic")
    diff = a - b
    symbolic = None
    try:
        d1 = sp.expand(diff)
        if d1 == 0:
            return Verdict(True, "expand")
        if not diff.has(sp.Piecewise):
            d2 = sp.simplify(diff)
            if d2 == 0:
                return Verdict(True, "simplify")
            d3 = sp.simplify(sp.expand(diff, complex=True))
            if d3 == 0:
                return Verdict(True, "simplify-complex")
    except Exception as e:  # sympy can choke on exotic terms; fall through to evaluation
        symbolic = str(e)
    rng = random.Random(seed * 7919 + 17)
    syms = (a.free_symbols | b.free_symbols)
    nz = 0
    bad = None
    for k in range(points):
        pt = sample_point(syms, rng, constraints)
        try:
            va = evaluate(a.subs(pt), salt=k)
            vb = evaluate(b.subs(pt), salt=k)
            z = is_zero_value(va - vb)
        except Exception as e:
            z = None
            bad = str(e)
        if z is False:
            return Verdict(False, "witness", witness={str(s): str(v) for s, v in pt.items()},
                           diff=str(sp.N(va - vb, 12)))
        if z is True:
            nz += 1
    if nz == points and points >= 3:
        return Verdict(True, f"exact-evaluation at {points} random rational points")
    return Verdict(None, f"undecided ({nz}/{points} points zero; {bad or symbolic or ''})")


def has_unit_symbols(e):
    return bool(sp.sympify(e).free_symbols & UNIT_SYMS)
