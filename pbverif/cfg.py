"""E2 - statement-level control-flow graph, dominance and simple reaching queries.

Nodes are ints; ``cfg.stmt[n]`` is the ast statement (or a pseudo tuple for branch
edges).  Every ``if``/``while``/``for`` gets explicit branch pseudo-nodes so that "T is
only reached when the test was false" is a plain dominance query on ('F', test-node).
Implicit exceptions are modelled only inside ``try`` bodies (edge from every statement
of the body to every handler); outside a ``try`` an exception leaves the function and
is irrelevant for dominance of later statements.
"""
from __future__ import annotations

import ast
import networkx as nx


class CFG:
    ENTRY, EXIT, RAISE = 0, 1, 2

    def __init__(self, fnode):
        self.fn = fnode
        self.g = nx.DiGraph()
        self.stmt = {self.ENTRY: ("entry",), self.EXIT: ("exit",), self.RAISE: ("raise-exit",)}
        self.node_of = {}          # id(ast stmt) -> node
        self.branch = {}           # (test node, 'T'/'F') -> pseudo node
        self._n = 3
        self.g.add_nodes_from([0, 1, 2])
        body = fnode.body if not isinstance(fnode, ast.Lambda) else [ast.Return(value=fnode.body)]
        ends = self._seq(body, [self.ENTRY], loop=None, handlers=[])
        for e in ends:
            self.g.add_edge(e, self.EXIT)
        self._idom = None
        self._ipdom = None

    # ---------------------------------------------------------------- building
    def _new(self, s):
        n = self._n
        self._n += 1
        self.stmt[n] = s
        self.g.add_node(n)
        if isinstance(s, ast.AST):
            self.node_of[id(s)] = n
        return n

    def _link(self, preds, n):
        for p in preds:
            self.g.add_edge(p, n)

    def _raise_targets(self, handlers):
        return [h for h in handlers[-1]] if handlers else [self.RAISE]

    def _seq(self, stmts, preds, loop, handlers):
        for s in stmts:
            preds = self._stmt(s, preds, loop, handlers)
        return preds

    def _stmt(self, s, preds, loop, handlers):
        n = self._new(s)
        self._link(preds, n)
        if handlers:   # any statement in a try body may raise into the handlers
            for h in handlers[-1]:
                self.g.add_edge(n, h)
        if isinstance(s, ast.If):
            t = self._new(("T", n))
            f = self._new(("F", n))
            self.branch[(n, "T")], self.branch[(n, "F")] = t, f
            self.g.add_edge(n, t)
            self.g.add_edge(n, f)
            a = self._seq(s.body, [t], loop, handlers)
            b = self._seq(s.orelse, [f], loop, handlers)
            return a + b
        if isinstance(s, (ast.For, ast.AsyncFor, ast.While)):
            t = self._new(("T", n))
            f = self._new(("F", n))
            self.branch[(n, "T")], self.branch[(n, "F")] = t, f
            self.g.add_edge(n, t)
            self.g.add_edge(n, f)
            ctx = {"head": n, "breaks": []}
            ends = self._seq(s.body, [t], ctx, handlers)
            self._link(ends, n)
            out = self._seq(s.orelse, [f], loop, handlers)
            return out + ctx["breaks"]
        if isinstance(s, ast.Try):
            hentries = []
            hnodes = []
            for h in s.handlers:
                hn = self._new(h)
                hentries.append(hn)
                hnodes.append((hn, h))
            body_ends = self._seq(s.body, [n], loop, handlers + [hentries])
            else_ends = self._seq(s.orelse, body_ends, loop, handlers)
            outs = list(else_ends)
            for hn, h in hnodes:
                if handlers:
                    for hh in handlers[-1]:
                        self.g.add_edge(hn, hh)
                outs += self._seq(h.body, [hn], loop, handlers)
            if s.finalbody:
                outs = self._seq(s.finalbody, outs, loop, handlers)
            return outs
        if isinstance(s, (ast.With, ast.AsyncWith)):
            return self._seq(s.body, [n], loop, handlers)
        if isinstance(s, ast.Return):
            self.g.add_edge(n, self.EXIT)
            return []
        if isinstance(s, ast.Raise):
            for t in self._raise_targets(handlers):
                self.g.add_edge(n, t)
            return []
        if isinstance(s, ast.Assert):
            for t in self._raise_targets(handlers):
                self.g.add_edge(n, t)
            return [n]
        if isinstance(s, ast.Break):
            if loop is not None:
                loop["breaks"].append(n)
            return []
        if isinstance(s, ast.Continue):
            if loop is not None:
                self.g.add_edge(n, loop["head"])
            return []
        if isinstance(s, (ast.FunctionDef, ast.AsyncFunctionDef, ast.ClassDef)):
            return [n]
        return [n]

    # ----------------------------------------------------------------- queries
    def node(self, stmt):
        return self.node_of[id(stmt)]

    def idom(self):
        if self._idom is None:
            self._idom = nx.immediate_dominators(self.g, self.ENTRY)
        return self._idom

    def dominates(self, a, b):
        """Every path ENTRY -> b passes through a (a, b node ids)."""
        idom = self.idom()
        if b not in idom:
            return True   # unreachable: vacuous
        x = b
        while True:
            if x == a:
                return True
            p = idom.get(x)
            if p is None or p == x:
                return a == x
            x = p

    def reachable(self, n):
        return n in self.idom()

    def postdominates(self, a, b, exit_node=None):
        """Every path b -> EXIT (normal exit) passes through a."""
        exit_node = self.EXIT if exit_node is None else exit_node
        rg = self.g.reverse(copy=False)
        if exit_node not in rg:
            return False
        ip = nx.immediate_dominators(rg, exit_node)
        if b not in ip:
            return True   # b cannot reach the normal exit
        x = b
        while True:
            if x == a:
                return True
            p = ip.get(x)
            if p is None or p == x:
                return a == x
            x = p

    def paths_avoiding(self, src, dst, avoid):
        """Is there a path src -> dst that avoids all nodes in `avoid`?"""
        avoid = set(avoid)
        if src in avoid or dst in avoid:
            return False
        seen, stack = {src}, [src]
        while stack:
            x = stack.pop()
            if x == dst:
                return True
            for y in self.g.successors(x):
                if y not in seen and y not in avoid:
                    seen.add(y)
                    stack.append(y)
        return False

    def always_raises(self, stmts):
        """Does this statement list end in a raise on every path (no fall-through, no return)?"""
        if not stmts:
            return False
        last = stmts[-1]
        if isinstance(last, ast.Raise):
            return True
        if isinstance(last, ast.If):
            return self.always_raises(last.body) and self.always_raises(last.orelse)
        return False

    def guards(self):
        """All (if-node, passing-branch, test-ast, raise-stmt) where one branch always raises."""
        out = []
        for n, s in self.stmt.items():
            if isinstance(s, ast.If):
                if self.always_raises(s.body):
                    out.append((n, "F", s.test, _first_raise(s.body)))
                elif s.orelse and self.always_raises(s.orelse):
                    out.append((n, "T", s.test, _first_raise(s.orelse)))
        return out

    def statements(self, kind=None):
        for n, s in self.stmt.items():
            if isinstance(s, ast.AST) and (kind is None or isinstance(s, kind)):
                yield n, s


def _first_raise(stmts):
    for s in stmts:
        for sub in ast.walk(s):
            if isinstance(sub, ast.Raise):
                return sub
    return None


def raised_exception_name(r: ast.Raise):
    if r is None or r.exc is None:
        return None
    e = r.exc
    if isinstance(e, ast.Call):
        e = e.func
    if isinstance(e, ast.Name):
        return e.id
    if isinstance(e, ast.Attribute):
        return e.attr
    return None


def enclosing_stmt_map(fnode):
    """id(sub-node) -> the statement directly containing it (for locating a Call's statement)."""
    m = {}

    def visit_stmt(s):
        for field, val in ast.iter_fields(s):
            if isinstance(val, list) and val and isinstance(val[0], ast.stmt):
                for c in val:
                    visit_stmt(c)
            elif isinstance(val, list) and val and isinstance(val[0], ast.excepthandler):
                for h in val:
                    m[id(h)] = s
                    for c in h.body:
                        visit_stmt(c)
            elif isinstance(val, ast.AST):
                for sub in ast.walk(val):
                    m[id(sub)] = s
            elif isinstance(val, list):
                for v in val:
                    if isinstance(v, ast.AST):
                        for sub in ast.walk(v):
                            m[id(sub)] = s
        m[id(s)] = s

    body = fnode.body if not isinstance(fnode, ast.Lambda) else []
    for s in body:
        visit_stmt(s)
    return m
