"""Obligation bookkeeping, evidence writer, known-findings matching, exit codes."""
from __future__ import annotations

import json
import os
import sys
import time
import traceback

VERIF = os.path.dirname(os.path.dirname(os.path.abspath(__file__)))
EVID_DIR = os.path.join(VERIF, "evidence")
REPLAY_DIR = os.path.join(EVID_DIR, "replay")
KNOWN = os.path.join(VERIF, "known_findings.json")

OK, BAD, UNK = "discharged", "contradicted", "inconclusive"


class Obligation:
    __slots__ = ("rule", "where", "construct", "what", "status", "found", "expected",
                 "nontrivial", "witness", "note")

    def __init__(self, rule, where, construct, what, status, found=None, expected=None,
                 nontrivial=False, witness=None, note=None):
        self.rule, self.where, self.construct, self.what = rule, where, construct, what
        self.status, self.found, self.expected = status, found, expected
        self.nontrivial, self.witness, self.note = nontrivial, witness, note

    def key(self):
        return (self.rule, self.where.split(" ", 1)[-1] if " " in self.where else self.where,
                " ".join(str(self.construct).split()))

    def as_dict(self):
        d = {"rule": self.rule, "where": self.where, "construct": _short(self.construct, 400),
             "what": self.what, "status": self.status}
        if self.found is not None:
            d["found"] = _short(self.found, 600)
        if self.expected is not None:
            d["expected"] = _short(self.expected, 600)
        if self.witness is not None:
            d["witness"] = self.witness
        if self.note:
            d["note"] = self.note
        return d


def _short(x, n):
    s = str(x)
    return s if len(s) <= n else s[: n - 3] + "..."


class Run:
    def __init__(self, pid, tier="quick", seed=0, replay=None):
        self.pid, self.tier, self.seed = pid, tier, seed
        self.replay = replay
        self.obs: list[Obligation] = []
        self.analysed = {"modules": set(), "functions": set(), "call_sites": 0, "api_entries": set()}
        self.notes: list[str] = []
        self.assumptions: list[str] = []
        self.explanation = ""
        self.extra = {}
        self.t0 = time.time()
        self.census = None
        self.selftest = None

    # ------------------------------------------------------------- recording
    def ob(self, rule, where, construct, what, status, **kw):
        if status is True:
            status = OK
        elif status is False:
            status = BAD
        elif status is None:
            status = UNK
        o = Obligation(f"{self.pid}-{rule}" if not rule.startswith(self.pid) else rule,
                       where, construct, what, status, **kw)
        self.obs.append(o)
        return o

    def touched(self, fi):
        self.analysed["modules"].add(fi.module)
        self.analysed["functions"].add(f"{fi.module}:{fi.qualname}")

    def floor(self, rule, what, found, minimum):
        """A rule matching fewer sites than confirmed by hand must not pass vacuously."""
        if found < minimum:
            self.ob(rule, "(instance floor)", what, f"at least {minimum} instances of: {what}", UNK,
                    found=found, expected=f">= {minimum}",
                    note="rule instance count fell below the floor confirmed on the pinned tree")

    # --------------------------------------------------------------- verdict
    def finish(self):
        known = load_known()
        viol, known_hits, unk = [], [], []
        for o in self.obs:
            if o.status == BAD:
                kf = match_known(known, self.pid, o)
                if kf:
                    known_hits.append((o, kf))
                else:
                    viol.append(o)
            elif o.status == UNK:
                unk.append(o)
        code = 0
        global REPLAY_DIR
        if os.environ.get("PBVERIF_NOEVIDENCE"):
            import tempfile
            REPLAY_DIR = tempfile.mkdtemp(prefix="pbv-replay.")
        os.makedirs(REPLAY_DIR, exist_ok=True)
        for o, kf in known_hits:
            print(f"KNOWN-FINDING: property={self.pid} {kf.get('what', o.what)} [{o.rule} at {o.where}]")
        MAXV = 12
        if len(viol) > MAXV:
            print(f"({len(viol)} violations; the first {MAXV} are listed, all are counted in the evidence file)")
        for k, o in enumerate(viol[:MAXV]):
            rp = os.path.join(REPLAY_DIR, f"{self.pid}-{k}.json")
            with open(rp, "w") as fh:
                json.dump({"property": self.pid, "obligation": o.as_dict(), "key": list(o.key()),
                           "tier": self.tier, "seed": self.seed}, fh, indent=1)
            print(f"VIOLATION property={self.pid} replay={rp}")
            print(f"  {o.where}: rule {o.rule}: {o.what}")
            print(f"    construct: {_short(o.construct, 300)}")
            if o.expected is not None:
                print(f"    expected : {_short(o.expected, 300)}")
            if o.found is not None:
                print(f"    found    : {_short(o.found, 300)}")
            if o.witness is not None:
                print(f"    witness  : {_short(o.witness, 300)}")
            code = 1
        if code == 0 and unk:
            for o in unk:
                print(f"INCONCLUSIVE property={self.pid} {o.where}: rule {o.rule}: {o.what}"
                      f" -- {o.note or o.found or ''}")
            code = 2
        self.write_evidence(len(viol), len(known_hits), len(unk))
        n_ok = sum(1 for o in self.obs if o.status == OK)
        print(f"{self.pid} [{self.tier}] obligations={len(self.obs)} discharged={n_ok} "
              f"violations={len(viol)} known={len(known_hits)} inconclusive={len(unk)} "
              f"functions={len(self.analysed['functions'])} wall={time.time() - self.t0:.2f}s")
        return code

    def write_evidence(self, nviol, nknown, nunk):
        if os.environ.get("PBVERIF_NOEVIDENCE"):
            return
        os.makedirs(EVID_DIR, exist_ok=True)
        n_ok = sum(1 for o in self.obs if o.status == OK)
        distinct_nt = len({o.key() for o in self.obs if o.nontrivial and o.status == OK})
        samples = []
        seen_rules = set()
        for o in self.obs:   # one sample per rule first, then fill up
            if o.rule not in seen_rules:
                seen_rules.add(o.rule)
                samples.append(o.as_dict())
        samples = samples[:14]
        cov = {
            "explanation": self.explanation,
            "obligations": len(self.obs),
            "discharged": n_ok,
            "evaluations": len(self.obs),
            "distinct_nontrivial": distinct_nt,
            "rule": ("one evaluation = one rule instance (obligation) examined on the current source; "
                     "non-trivial = its discharge needed more than a syntactic match (a dominance or "
                     "dataflow query, an alias/laziness path, or a non-trivial normal-form reduction); "
                     "distinct = distinct (rule, function, construct) keys"),
            "samples": samples,
            "inconclusive": nunk,
            "known_findings_matched": nknown,
            "rules": sorted(seen_rules),
            "modules_analysed": sorted(self.analysed["modules"]),
            "functions_analysed": len(self.analysed["functions"]),
            "function_list": sorted(self.analysed["functions"])[:80],
            "call_sites_analysed": self.analysed["call_sites"],
            "api_table_entries_consulted": len(self.analysed["api_entries"]),
            "program_census": self.census,
            "checker_cmd": f"/verif/check {self.pid} --tier {self.tier}",
            "trusted_base": ["python ast", "sympy simplification + rational witness evaluation",
                             "networkx dominators", "hand-written API/role tables in /verif/pbverif"],
            "notes": self.notes,
        }
        cov.update(self.extra)
        if self.selftest is not None:
            cov["selftest"] = self.selftest
        ev = {
            "property_id": self.pid,
            "tier": self.tier,
            "seed": int(self.seed),
            "level": "other",
            "coverage": cov,
            "assumptions": self.assumptions,
            "wall_s": round(time.time() - self.t0, 3),
            "violations": nviol,
        }
        with open(os.path.join(EVID_DIR, f"{self.pid}.json"), "w") as fh:
            json.dump(ev, fh, indent=1, default=str)


def load_known():
    try:
        with open(KNOWN) as fh:
            return json.load(fh)
    except FileNotFoundError:
        return {"open": [], "fixed": []}


def match_known(known, pid, o):
    rule, func, construct = o.key()
    for kf in known.get("open", []):
        if kf.get("property") != pid:
            continue
        if kf.get("rule") != rule:
            continue
        if kf.get("function") and kf["function"] not in o.where:
            continue
        if kf.get("construct") and " ".join(kf["construct"].split()) != construct:
            continue
        return kf
    return None


def guarded_main(fn):
    """Run fn(); any internal exception is ANALYSIS-ERROR (exit 2), never exit 1."""
    try:
        code = fn()
    except SystemExit:
        raise
    except Exception as e:  # noqa
        from .model import AnalysisError
        kind = "ANALYSIS-ERROR" if not isinstance(e, AnalysisError) else "ANALYSIS-ERROR (anchor/vocabulary)"
        print(f"{kind}: {type(e).__name__}: {e}")
        if not isinstance(e, AnalysisError) or os.environ.get("PBVERIF_TRACE"):
            traceback.print_exc(file=sys.stdout)
        code = 2
    sys.stdout.flush()
    sys.exit(code)
