"""Rule RM — process-lifetime memo tables.

A table that lives longer than one call (a module-level or class-level dict filled inside functions, or a function wrapped
in functools.lru_cache / functools.cache) turns a function of its arguments into a function of its arguments *and of the
calls made earlier in the process*, unless

  (a) every input the stored value was computed from is determined by the key it is stored under, and
  (b) the stored object cannot be changed by the caller it is handed to.

Both are visible in the shape of the code.  For (a) the rule computes, by a backward slice over the function's local
definitions (textual order, closures included), the *atoms* the stored value depends on — `param`, `param.attr...`,
`len(param)`, `type(param)` — and the atoms the key is built from, each marked exact or lossy (`.value` without the unit,
`.rstrip`, `len`, `type`, item access, `%`, `//`, comparisons).  A value atom is covered when an exact key atom is a prefix
of it, when a documented derivation applies (shape => ndim, len), or when, after expanding properties of the package's
classes to the storage attributes their getters read (the same expansion rule RS uses), its storage is covered by the
storage of the exact key atoms.  A value that passes through `open(...)` / a file read depends on state outside the
process that no key can determine.  For (b) the rule looks at what public functions return: the memoised array itself,
or a copy.

The rule decides the structure (key coverage, hand-out), not the numbers; a covered key with a wrong computation is the
business of the property's own rules.
"""
from __future__ import annotations

import ast

from .model import Program

MEMO_DECORATORS = {"functools.lru_cache", "functools.cache", "lru_cache", "cache"}
DICT_MAKERS = {"dict", "OrderedDict", "collections.OrderedDict", "WeakValueDictionary", "weakref.WeakValueDictionary",
               "defaultdict", "collections.defaultdict"}
LOSSY_METHODS = {"rstrip", "lstrip", "strip", "lower", "upper", "split", "rsplit", "partition", "rpartition", "casefold",
                 "removeprefix", "removesuffix", "round", "astype", "real", "imag", "count", "find", "startswith", "endswith",
                 "to_value", "item"}
LOSSY_FUNCS = {"round", "int", "abs", "bool", "hash", "min", "max", "sum", "any", "all", "sorted", "set", "frozenset"}
INJECTIVE_SUBATTRS = {"str", "name", "char", "descr", "__name__", "__qualname__"}          # of a dtype: spell the dtype completely
DERIVES = {"shape": {"ndim", "<len>", "size", "nchan", "nsample"}, "chunks": {"ndim", "shape", "<len>", "chunksize", "numblocks"}}
META_TAILS = {"shape", "dtype", "ndim", "size", "chunks", "chunksize", "unit", "itemsize", "nbytes"}
FILE_READS = {"read", "readline", "readlines"}
ARRAY_MAKERS = {"exp", "zeros", "ones", "empty", "full", "arange", "linspace", "array", "asarray", "stack", "concatenate",
                "astype", "copy", "fftfreq", "rfftfreq", "to", "to_value", "round", "cumsum", "outer"}


def _lab(kind, node):
    t = ast.unparse(node).replace(" ", "")
    if len(t) > 48:
        import hashlib
        t = t[:40] + "#" + hashlib.sha1(t.encode()).hexdigest()[:6]
    return f"<{kind}:{t}>"


def _dotted(e):
    parts = []
    while isinstance(e, ast.Attribute):
        parts.append(e.attr)
        e = e.value
    if isinstance(e, ast.Name):
        parts.append(e.id)
        return ".".join(reversed(parts))
    return None


class Slice:
    """Backward slice of expressions of one (outermost) function to atoms rooted in its parameters."""

    def __init__(self, fn: ast.AST, globals_=(), package_methods=()):
        self.fn = fn
        self.package_methods = set(package_methods)
        self.is_table = None
        self.params = set()
        self.nested = {}
        self._collect_params(fn)
        self.defs = {}      # local name -> [(lineno, kind, node)]
        self.kills = set()  # (name, lineno) of plain `name = ...` statements of the function's own statement list
        self._collect_defs(fn)
        self.globals = set(globals_)

    def _collect_params(self, fn):
        a = fn.args
        for p in list(a.posonlyargs) + list(a.args) + list(a.kwonlyargs):
            self.params.add(p.arg)
        if a.vararg:
            self.params.add(a.vararg.arg)
        if a.kwarg:
            self.params.add(a.kwarg.arg)

    def _add(self, name, lineno, kind, node, kill=False):
        self.defs.setdefault(name, []).append((lineno, kind, node))
        if kill:
            self.kills.add((name, lineno))

    def _targets(self, t, lineno, value, kind="value"):
        if isinstance(t, ast.Name):
            self._add(t.id, lineno, kind, value)
        elif isinstance(t, (ast.Tuple, ast.List)):
            for e in t.elts:
                self._targets(e, lineno, value, kind)
        elif isinstance(t, ast.Starred):
            self._targets(t.value, lineno, value, kind)
        elif isinstance(t, (ast.Subscript, ast.Attribute)):
            root = t
            while isinstance(root, (ast.Subscript, ast.Attribute)):
                root = root.value
            if isinstance(root, ast.Name):
                self._add(root.id, lineno, "value", value)
                if isinstance(t, ast.Subscript):
                    self._add(root.id, lineno, "value", t.slice)

    def _collect_defs(self, fn):
        def walk(body_owner, top):
            for n in ast.iter_child_nodes(body_owner):
                if isinstance(n, (ast.FunctionDef, ast.AsyncFunctionDef)):
                    if top:
                        self._add(n.name, n.lineno, "closure", n)
                        self.nested[n.name] = n
                    continue
                if isinstance(n, ast.Lambda):
                    continue
                if isinstance(n, ast.Assign):
                    for t in n.targets:
                        if isinstance(t, ast.Name) and body_owner is fn:
                            self._add(t.id, n.lineno, "value", n.value, kill=True)
                        else:
                            self._targets(t, n.lineno, n.value)
                elif isinstance(n, ast.AnnAssign) and n.value is not None:
                    self._targets(n.target, n.lineno, n.value)
                elif isinstance(n, ast.AugAssign):
                    self._targets(n.target, n.lineno, n.value)
                elif isinstance(n, ast.NamedExpr):
                    self._targets(n.target, n.lineno, n.value)
                elif isinstance(n, (ast.For, ast.AsyncFor)):
                    self._targets(n.target, n.lineno, n.iter, "item")
                elif isinstance(n, (ast.With, ast.AsyncWith)):
                    for it in n.items:
                        if it.optional_vars is not None:
                            self._targets(it.optional_vars, n.lineno, it.context_expr)
                elif isinstance(n, ast.Expr) and isinstance(n.value, ast.Call) and isinstance(n.value.func, ast.Attribute) \
                        and isinstance(n.value.func.value, ast.Name) and n.value.func.attr in ("append", "extend", "update", "insert", "add", "setdefault"):
                    for a in n.value.args:
                        self._add(n.value.func.value.id, n.lineno, "value", a)
                walk(n, top)
        walk(fn, True)

    # ------------------------------------------------------------------ atoms
    def atoms(self, e, at, seen=None, bound=None):
        """{(root, chain, lossy)}: chain is a tuple of attribute names and pseudo-steps; lossy marks a non-injective step."""
        seen = seen if seen is not None else set()
        bound = bound or {}
        out = set()

        def ext(atoms_, step, lossy=False):
            return {(r, c, l) if r == "<external>" else (r, c + (step,), l or lossy) for r, c, l in atoms_}

        if e is None:
            return out
        if self.is_table is not None and isinstance(e, (ast.Name, ast.Attribute)) and self.is_table(e):
            return out
        if isinstance(e, ast.Name):
            if e.id in bound:
                return set(bound[e.id])
            if e.id in self.params:
                out.add((e.id, (), False))
            if e.id in self.defs and e.id not in seen:
                seen.add(e.id)        # recursion stack, not a visited set: a name may be used many times in one expression
                try:
                    live = [d for d in self.defs[e.id] if d[0] <= at]
                    last_kill = max((ln for ln, _, _ in live if (e.id, ln) in self.kills and ln < at), default=None)
                    if last_kill is not None:
                        live = [d for d in live if d[0] >= last_kill]
                        out.discard((e.id, (), False))       # a parameter overwritten on the straight line
                    for lineno, kind, node in live:
                        if kind == "closure":
                            out |= self.closure_atoms(node, at, seen)
                        elif kind == "item":
                            a = self.atoms(node, lineno, seen, bound)
                            out |= a if self._is_literal_seq(node, lineno) else ext(a, _lab("each", node), True)
                        else:
                            out |= self.atoms(node, lineno, seen, bound)
                finally:
                    seen.discard(e.id)
            return out
        if isinstance(e, ast.Attribute):
            d = _dotted(e)
            if d and d.split(".")[0] not in self.params and d.split(".")[0] not in self.defs and d.split(".")[0] not in bound:
                return out           # module attribute (np.pi, u.Hz, ...)
            base = self.atoms(e.value, at, seen, bound)
            return ext(base, e.attr, e.attr in ("value", "real", "imag"))
        if isinstance(e, ast.Call):
            f = e.func
            fname = _dotted(f)
            args = list(e.args) + [k.value for k in e.keywords]
            if isinstance(f, ast.Name) and f.id == "len" and len(e.args) == 1:
                return ext(self.atoms(e.args[0], at, seen, bound), "<len>", True)
            if isinstance(f, ast.Name) and f.id == "type" and len(e.args) == 1:
                return ext(self.atoms(e.args[0], at, seen, bound), "<type>", True)
            if isinstance(f, ast.Name) and f.id == "getattr" and len(e.args) >= 2 and isinstance(e.args[1], ast.Constant):
                a = ext(self.atoms(e.args[0], at, seen, bound), str(e.args[1].value), str(e.args[1].value) in ("value",))
                for d_ in e.args[2:]:
                    a |= self.atoms(d_, at, seen, bound)
                return a
            if fname in ("os.stat", "os.fstat", "os.lstat", "os.path.getmtime", "os.path.getsize") or (isinstance(f, ast.Attribute) and f.attr == "stat" and not args):
                # the signature of a file (size, modification time) stands for its contents, as make and import do
                out.add(("<external>", ("contents of the file at call time",), True))
                return out
            if fname in ("open", "io.open", "builtins.open") or (isinstance(f, ast.Attribute) and f.attr in ("open", "read_text", "read_bytes")):
                out.add(("<external>", ("contents of the file at call time",), True))
                for a in args:
                    out |= ext(self.atoms(a, at, seen, bound), "<file>", True)
                return out
            if isinstance(f, ast.Attribute):
                recv = self.atoms(f.value, at, seen, bound)
                if f.attr in FILE_READS and recv:
                    out.add(("<external>", ("contents of the file at call time",), True))
                if f.attr in LOSSY_METHODS and not (f.attr == "to_value" and args):
                    out |= ext(recv, _lab(f.attr, ast.Tuple(elts=args, ctx=ast.Load())) if args else f"<{f.attr}>", True)
                elif f.attr in self.package_methods and isinstance(f.value, ast.Name) and f.value.id == "self":
                    out |= ext(recv, f.attr + "()", False)
                else:
                    out |= recv
            elif isinstance(f, ast.Name):
                if f.id in self.nested:
                    out |= self.closure_atoms(self.nested[f.id], at, seen)
                lossy = f.id in LOSSY_FUNCS
                for a in args:
                    x = self.atoms(a, at, seen, bound)
                    out |= ext(x, _lab(f.id, e), True) if lossy else x
                return out
            else:
                out |= self.atoms(f, at, seen, bound)
            for a in args:
                out |= self.atoms(a, at, seen, bound)
            return out
        if isinstance(e, ast.Subscript):
            out |= ext(self.atoms(e.value, at, seen, bound), _lab("item", e.slice), True)
            out |= ext(self.atoms(e.slice, at, seen, bound), _lab("index", e), True)
            return out
        if isinstance(e, ast.BinOp):
            a = self.atoms(e.left, at, seen, bound) | self.atoms(e.right, at, seen, bound)
            if isinstance(e.op, (ast.Mod, ast.FloorDiv, ast.BitAnd, ast.BitOr, ast.RShift, ast.LShift)):
                return ext(a, _lab("arith", e), True)
            return a
        if isinstance(e, (ast.Compare, ast.BoolOp)) or (isinstance(e, ast.UnaryOp) and isinstance(e.op, ast.Not)):
            a = set()
            for c in ast.iter_child_nodes(e):
                if isinstance(c, ast.expr):
                    a |= self.atoms(c, at, seen, bound)
            return ext(a, _lab("test", e), True)
        if isinstance(e, (ast.ListComp, ast.SetComp, ast.GeneratorExp, ast.DictComp)):
            b = dict(bound)
            for g in e.generators:
                it = self.atoms(g.iter, at, seen, b)
                if not self._is_literal_seq(g.iter, at):
                    it = ext(it, _lab("each", g.iter), True)
                for t in ast.walk(g.target):
                    if isinstance(t, ast.Name):
                        b[t.id] = it
                for c in g.ifs:
                    out |= ext(self.atoms(c, at, seen, b), _lab("test", c), True)
            for part in ([e.key, e.value] if isinstance(e, ast.DictComp) else [e.elt]):
                out |= self.atoms(part, at, seen, b)
            return out
        if isinstance(e, ast.Lambda):
            inner = {a.arg for a in e.args.args}
            b = dict(bound)
            for n in inner:
                b[n] = set()
            return self.atoms(e.body, at, seen, b)
        for c in ast.iter_child_nodes(e):
            if isinstance(c, ast.expr):
                out |= self.atoms(c, at, seen, bound)
        return out

    def _is_literal_seq(self, node, at):
        if isinstance(node, (ast.Tuple, ast.List)):
            return True
        if isinstance(node, ast.Name) and node.id in self.defs:
            ds = [d for d in self.defs[node.id] if d[0] <= at]
            return bool(ds) and all(isinstance(d[2], (ast.Tuple, ast.List)) and d[1] == "value" for d in ds)
        return False

    def closure_atoms(self, fn, at, seen):
        own = {a.arg for a in list(fn.args.args) + list(fn.args.kwonlyargs) + list(fn.args.posonlyargs)}
        for n in ast.walk(fn):
            if isinstance(n, ast.Name) and isinstance(n.ctx, ast.Store):
                own.add(n.id)
        out = set()
        bound = {n: set() for n in own}
        for st in fn.body:
            for n in ast.walk(st):
                if isinstance(n, ast.Attribute) and isinstance(n.ctx, ast.Load):
                    root = n
                    while isinstance(root, ast.Attribute):
                        root = root.value
                    if isinstance(root, ast.Name) and root.id not in own:
                        out |= self.atoms(n, at, seen, bound)
                elif isinstance(n, ast.Name) and isinstance(n.ctx, ast.Load) and n.id not in own:
                    out |= self.atoms(n, at, seen, bound)
        # an attribute chain also yields its root name through the walk above; keep the most specific atoms only
        spec = set()
        for r, c, l in out:
            if c == () and any(r2 == r and c2 for r2, c2, _ in out):
                continue
            spec.add((r, c, l))
        return spec


def _fmt(atom):
    r, c, _ = atom
    s = r
    for step in c:
        if step == "<len>":
            s = f"len({s})"
        elif step == "<type>":
            s = f"type({s})"
        elif step.startswith("<"):
            s = f"{s}{step}"
        else:
            s = f"{s}.{step}"
    return s


class Storage:
    """Expansion of `x.prop` to the storage attributes the package's getters read (over every class that has `prop`)."""

    def __init__(self, prog: Program):
        from .coherence import ClassView, Reads
        self.prog = prog
        self.views = []
        for mi in prog.modules.values():
            for ci in mi.classes.values():
                v = ClassView(prog, ci)
                self.views.append((ci, v, Reads(v)))

    def of(self, ci_filter, attr):
        """[(class, frozenset of (storage attr, mode))] for each class having property `attr`."""
        out = []
        for ci, v, r in self.views:
            if ci_filter is not None and ci is not ci_filter:
                continue
            pr = v.prop(attr)
            if pr is not None and pr.get("get") is not None:
                out.append((ci, frozenset(r.of_function_returns(pr["get"]))))
                continue
            me = v.method(attr)
            if me is not None and me.kind == "method":
                out.append((ci, frozenset(r.of_function_returns(me))))
        return out


def _strip(chain):
    return tuple(s[:-2] if s.endswith("()") else s for s in chain)


def _trunc(v):
    r, c, l = v
    out = []
    for s_ in c:
        if s_.startswith("<") and s_ not in ("<len>", "<type>"):
            break
        out.append(s_)
    return (r, tuple(out), l)


def covered(v, key_atoms, storage: Storage, cls):
    """None when the value atom `v` is determined by the key atoms, else a reason string."""
    r, c, _ = v
    c = _strip(c)
    v = _trunc(v)
    same_root = [(kc, kl) for kr, kc, kl in ((a[0], _strip(a[1]), a[2]) for a in key_atoms) if kr == r]
    exact = [kc for kc, kl in same_root if not kl]
    # the key holds the thing at chain kc; everything computed from it (a longer chain) is determined by it
    for kc, kl in same_root:
        if kc == c[:len(kc)]:
            return None
    # lossy steps that are lossless in combination, or spell the whole thing (at any prefix of the value's chain)
    for n in range(len(c) + 1):
        p = c[:n]
        ext_ = [kc[len(p):] for kc, kl in same_root if kc[:len(p)] == p and len(kc) > len(p)]
        if any(len(x) == 1 and x[0] in INJECTIVE_SUBATTRS for x in ext_):
            return None
        if {"value", "unit"} <= {x[0] for x in ext_}:
            return None
    # documented derivations: shape determines ndim and len
    for kc, kl in same_root:
        for i, step in enumerate(kc):
            if step in DERIVES and kc[:i] == c[:i] and len(c) > i and c[i] in DERIVES[step] and all(not s.startswith("<") for s in kc[:i + 1]):
                if len(kc) == i + 1:
                    return None
    # property expansion to storage attributes
    if c and not c[0].startswith("<"):
        cands = storage.of(cls if r == "self" else None, c[0])
        if cands:
            missing_all = None
            for ci, need in cands:
                got = set()
                for kc, kl in same_root:
                    if not kc or kc[0].startswith("<"):
                        if kc and kc[0] == "<len>":
                            got.add(("_data", "meta"))
                        continue
                    lossy_tail = any(s.startswith("<") or s in ("value", "real", "imag") for s in kc[1:]) and not (
                        {"value", "unit"} <= {k2[1] for k2, _ in same_root if len(k2) > 1 and k2[0] == kc[0]})
                    if lossy_tail:
                        continue
                    pr = ci.find_property(kc[0])
                    meta_only = len(kc) > 1 and kc[1] in META_TAILS
                    if pr is not None and pr.get("get") is not None:
                        for _, v_, rd in [x for x in storage.views if x[0] is ci]:
                            got |= {(a, "meta" if meta_only and m == "content" else m) for a, m in rd.of_function_returns(pr["get"])}
                    else:
                        got.add((kc[0], "meta" if meta_only else "content"))
                got |= {(a, "meta") for a, m in got if m == "content"}
                miss = {(a, m) for a, m in need if (a, m) not in got and (a, "content") not in got}
                if miss:
                    missing_all = (ci, miss)
                    break
            if missing_all is None:
                return None
            ci, miss = missing_all
            part = [kc for kc, kl in same_root if kc[:len(v[1])] == v[1]]
            if part:
                return f"the key holds only `{_fmt((r, part[0], True))}` of `{_fmt(v)}`"
            return (f"`{_fmt(v)}` is computed (in {ci.name}) from " + ", ".join(sorted(f"self.{a}" for a, _ in miss)) +
                    ", which no component of the key determines")
    lossy_here = [kc for kc, kl in same_root if kl and kc[:len(c)] == c]
    if lossy_here:
        return f"the key holds only `{_fmt((r, lossy_here[0], True))}` of `{_fmt(v)}`"
    part = [kc for kc, kl in same_root if kc[:len(v[1])] == v[1]]
    if part:
        return f"the key holds only `{_fmt((r, part[0], True))}` of `{_fmt(v)}`"
    return f"`{_fmt(v)}` does not appear in the key"


def _enclosing(prog: Program):
    """[(FunctionInfo of the outermost function, module info)] for every function of the package."""
    out = []
    for mi in prog.modules.values():
        for fi in prog.all_functions:
            if fi.module == mi.name:
                out.append((fi, mi))
    return out


def find_tables(prog: Program):
    """Module-level and class-level names bound to an (initially) empty dict."""
    tables = {}

    def is_empty_dict(v):
        if isinstance(v, ast.Dict) and not v.keys:
            return True
        if isinstance(v, ast.Call) and _dotted(v.func) in DICT_MAKERS and not v.args and not v.keywords:
            return True
        if isinstance(v, ast.Call) and _dotted(v.func) in DICT_MAKERS and _dotted(v.func).endswith("defaultdict"):
            return True
        return False
    for mi in prog.modules.values():
        for st in mi.tree.body:
            tg, val = None, None
            if isinstance(st, ast.Assign) and len(st.targets) == 1 and isinstance(st.targets[0], ast.Name):
                tg, val = st.targets[0].id, st.value
            elif isinstance(st, ast.AnnAssign) and isinstance(st.target, ast.Name) and st.value is not None:
                tg, val = st.target.id, st.value
            if tg and is_empty_dict(val):
                tables[(mi.name, None, tg)] = st
        for ci in mi.classes.values():
            for st in ci.node.body:
                if isinstance(st, ast.Assign) and len(st.targets) == 1 and isinstance(st.targets[0], ast.Name) and is_empty_dict(st.value):
                    tables[(mi.name, ci.name, st.targets[0].id)] = st
    return tables


def _table_ref(e, mi, fi, tables):
    """The table key (module, class, name) an expression denotes, or None."""
    if isinstance(e, ast.Name) and (mi.name, None, e.id) in tables:
        return (mi.name, None, e.id)
    if isinstance(e, ast.Attribute):
        base = e.value
        cls = None
        if isinstance(base, ast.Name) and base.id in ("self", "cls") and fi.cls is not None:
            cls = fi.cls
        elif isinstance(base, ast.Call) and isinstance(base.func, ast.Name) and base.func.id == "type" and fi.cls is not None:
            cls = fi.cls
        elif isinstance(base, ast.Name) and base.id in mi.classes:
            cls = mi.classes[base.id]
        if cls is not None:
            for c in cls.mro():
                if (c.module, c.name, e.attr) in tables:
                    return (c.module, c.name, e.attr)
    return None


def analyse(prog: Program):
    """{'tables': [...], 'stores': [...], 'violations': [...], 'memo_functions': [...]}"""
    tables = find_tables(prog)
    storage = Storage(prog)
    res = {"tables": [], "stores": [], "violations": [], "memo_functions": []}
    filled = set()
    pkg_methods = {f.name for f in prog.all_functions if f.cls is not None and f.kind == "method"}
    outer = [(fi, mi) for fi, mi in _enclosing(prog)]
    for fi, mi in outer:
        if not isinstance(fi.node, (ast.FunctionDef, ast.AsyncFunctionDef)):
            continue
        sl = None
        for n in ast.walk(fi.node):
            stores = []      # (table, key expr, value expr, lineno)
            if isinstance(n, ast.Assign):
                for t in n.targets:
                    if isinstance(t, ast.Subscript):
                        tr = _table_ref(t.value, mi, fi, tables)
                        if tr:
                            stores.append((tr, t.slice, n.value, n.lineno))
            elif isinstance(n, ast.NamedExpr):
                pass
            elif isinstance(n, ast.Call) and isinstance(n.func, ast.Attribute) and n.func.attr == "setdefault" and len(n.args) == 2:
                tr = _table_ref(n.func.value, mi, fi, tables)
                if tr:
                    stores.append((tr, n.args[0], n.args[1], n.lineno))
            for tr, k, v, lineno in stores:
                if sl is None:
                    sl = Slice(fi.node, package_methods=pkg_methods)
                    sl.is_table = lambda e, mi=mi, fi=fi: _table_ref(e, mi, fi, tables) is not None
                filled.add(tr)
                ka = sl.atoms(k, lineno)
                va = sl.atoms(v, lineno)
                rec = {"table": ".".join(x for x in tr if x), "function": fi, "lineno": lineno,
                       "key": ast.unparse(k)[:120], "value": ast.unparse(v)[:160],
                       "key_atoms": sorted(_fmt(a) + ("~" if a[2] else "") for a in ka),
                       "value_atoms": sorted(_fmt(a) for a in va)}
                res["stores"].append(rec)
                reasons = []
                # keep the most specific value atoms: `z` next to `z.dt` comes from a call on z's attribute only
                for a in sorted(va, key=lambda a: (a[0], a[1])):
                    if a[0] == "<external>" and covered(a, ka, storage, fi.cls):
                        reasons.append("the stored value is read from a file: it depends on " + a[1][0] + ", which no key built from the arguments determines")
                        continue
                    why = covered(a, ka, storage, fi.cls)
                    if why:
                        reasons.append(why)
                for why in dict.fromkeys(reasons):
                    res["violations"].append({"kind": "key", "table": rec["table"], "function": fi, "lineno": lineno, "what": why,
                                              "key": rec["key"], "value": rec["value"]})
    # (c) an entry of a process-lifetime table that becomes (part of) a result: every later call with the same key writes into the
    #     array an earlier caller still holds.  Entries reach a result by being returned, by being the out= target of a call whose
    #     value is kept, or by being handed to a transform with overwrite_*=True (which may return its operand's buffer).
    for fi, mi in outer:
        if not isinstance(fi.node, (ast.FunctionDef, ast.AsyncFunctionDef)):
            continue
        if not any(_table_ref(n, mi, fi, tables) is not None for n in ast.walk(fi.node) if isinstance(n, (ast.Name, ast.Attribute))):
            continue
        # tables whose entries are arrays (built by an array maker somewhere in this function); functions, strings, numbers are harmless to share
        arr_tables = set()
        for n in ast.walk(fi.node):
            if isinstance(n, ast.Assign):
                for t in n.targets:
                    if isinstance(t, ast.Subscript) and _table_ref(t.value, mi, fi, tables) is not None:
                        if any(isinstance(c, ast.Call) and isinstance(c.func, ast.Attribute) and c.func.attr in ARRAY_MAKERS for c in ast.walk(n.value)) \
                                or any(isinstance(c, ast.Name) and c.id in [tt.id for s2 in ast.walk(fi.node) if isinstance(s2, ast.Assign) for tt in s2.targets
                                                                             if isinstance(tt, ast.Name) and any(isinstance(c2, ast.Call) and isinstance(c2.func, ast.Attribute)
                                                                                                                    and c2.func.attr in ARRAY_MAKERS for c2 in ast.walk(s2.value))]
                                       for c in ast.walk(n.value)):
                            arr_tables.add(_table_ref(t.value, mi, fi, tables))
        if not arr_tables:
            continue
        tainted = {}        # local name -> lineno of the statement that tied it to a table entry

        def is_entry(e):
            """The expression denotes the stored object itself (or a view of it)."""
            if isinstance(e, ast.Subscript):
                if _table_ref(e.value, mi, fi, tables) in arr_tables:
                    return True
                return is_entry(e.value)
            if isinstance(e, ast.Name):
                return e.id in tainted
            if isinstance(e, ast.NamedExpr):
                return is_entry(e.value)
            if isinstance(e, ast.Attribute) and e.attr in ("T", "real", "imag"):
                return is_entry(e.value)
            if isinstance(e, ast.IfExp):
                return is_entry(e.body) or is_entry(e.orelse)
            if isinstance(e, ast.Call):
                f = e.func
                if isinstance(f, ast.Attribute) and f.attr in ("get", "setdefault") and _table_ref(f.value, mi, fi, tables) in arr_tables:
                    return True
                if isinstance(f, ast.Attribute) and f.attr in ("reshape", "view", "squeeze", "swapaxes", "transpose", "ravel") and is_entry(f.value):
                    return True
                for k in e.keywords:
                    if k.arg == "out" and (is_entry(k.value) or (isinstance(k.value, ast.Tuple) and any(is_entry(x) for x in k.value.elts))):
                        return True       # np.multiply(a, b, out=X) returns X
                if any(k.arg and k.arg.startswith("overwrite_") and isinstance(k.value, ast.Constant) and k.value.value is True for k in e.keywords) \
                        and any(is_entry(a) for a in e.args):
                    return True           # the transform may work in, and return, its operand's buffer
                fn_ = _dotted(f) or ""
                last = fn_.split(".")[-1] if fn_ else (f.attr if isinstance(f, ast.Attribute) else "")
                if (last == "like" or last[:1].isupper()) and any(is_entry(a) for a in list(e.args) + [k.value for k in e.keywords]):
                    return True           # a signal built around the array holds that array
            return False
        stmts = sorted((n for n in ast.walk(fi.node) if isinstance(n, (ast.Assign, ast.AnnAssign, ast.NamedExpr, ast.AugAssign))), key=lambda n: n.lineno)
        for _round in range(2):
            for n in stmts:
                val = n.value
                tgts = n.targets if isinstance(n, ast.Assign) else [n.target]
                if val is not None and is_entry(val):
                    for t in tgts:
                        if isinstance(t, ast.Name):
                            tainted.setdefault(t.id, n.lineno)
        # stores INTO the table are not hand-outs; what matters is what is returned
        for n in ast.walk(fi.node):
            if not isinstance(n, ast.Return) or n.value is None:
                continue
            hit = n.value if is_entry(n.value) else None
            if hit is None:
                continue
            # values the table holds that cannot be changed in place are harmless to share
            res["violations"].append({"kind": "shared", "table": "(process-lifetime table)", "function": fi, "lineno": n.lineno,
                                      "what": f"`{ast.unparse(hit)[:60]}` is (a view of) an array kept in a table that outlives the call, and it becomes the "
                                              "result: the next call with the same key writes into the array this caller still holds",
                                      "key": "", "value": ast.unparse(n.value)[:120]})
    # (d) an explicit Dask name is a key into the one table every computation shares -- the task graph: two collections with the
    #     same name are the same task to the scheduler, so everything the task is built from must be determined by the name
    res["graph_names"] = []
    for fi, mi in outer:
        if not isinstance(fi.node, (ast.FunctionDef, ast.AsyncFunctionDef)):
            continue
        sl = None
        for n in ast.walk(fi.node):
            if not isinstance(n, ast.Call):
                continue
            kws = {k.arg: k.value for k in n.keywords if k.arg}
            key = None
            if "dask_key_name" in kws:
                key = kws["dask_key_name"]
            elif "name" in kws and not (isinstance(kws["name"], ast.Constant) and kws["name"].value in (None, False)):
                d_ = _dotted(n.func) or ""
                root_ = mi.imports.get(d_.split(".")[0], "") if d_ else ""
                if root_.startswith("dask") or d_.split(".")[-1] in ("from_delayed", "from_array", "map_blocks", "blockwise", "from_map"):
                    key = kws["name"]
            if key is None:
                continue
            if sl is None:
                sl = Slice(fi.node, package_methods=pkg_methods)
            ka = sl.atoms(key, n.lineno)
            va = set()
            for a in list(n.args) + [v for k_, v in kws.items() if k_ not in ("name", "dask_key_name", "dtype", "shape", "meta", "chunks", "pure", "nout", "traverse")]:
                va |= sl.atoms(a.value if isinstance(a, ast.Starred) else a, n.lineno)
            res["graph_names"].append({"function": fi.where, "line": n.lineno, "name": ast.unparse(key)[:100]})
            if isinstance(key, ast.Constant):
                if va:
                    res["violations"].append({"kind": "graph", "table": "(Dask task graph)", "function": fi, "lineno": n.lineno,
                                              "what": f"the task is given the fixed name {key.value!r} but is built from {sorted(_fmt(_trunc(a)) for a in va)[:4]}: "
                                                      "every call produces the same graph key for different work", "key": ast.unparse(key)[:80], "value": ast.unparse(n)[:120]})
                continue
            reasons = []
            for a in sorted(va, key=lambda a: (a[0], a[1])):
                why = covered(a, ka, storage, fi.cls)
                if why:
                    reasons.append(why)
            for why in dict.fromkeys(reasons):
                res["violations"].append({"kind": "graph", "table": "(Dask task graph)", "function": fi, "lineno": n.lineno, "what": why + " (explicit Dask name)",
                                          "key": ast.unparse(key)[:80], "value": ast.unparse(n)[:120]})
    for tr, st in tables.items():
        res["tables"].append({"table": ".".join(x for x in tr if x), "line": st.lineno, "filled_in_functions": tr in filled})

    # functools memo decorators: the key is the argument tuple; what matters is who gets the stored object
    memo_fns = {}
    for fi, mi in outer:
        decos = [_dotted(d.func if isinstance(d, ast.Call) else d) for d in getattr(fi.node, "decorator_list", [])]
        decos = [mi.imports.get(d.split(".")[0], d.split(".")[0]) + d[len(d.split(".")[0]):] if d else d for d in decos]
        if any(d in MEMO_DECORATORS for d in decos if d):
            memo_fns[fi.name] = fi
            res["memo_functions"].append(fi.where)
    if memo_fns:
        for fi, mi in outer:
            if fi.name in memo_fns or not isinstance(fi.node, (ast.FunctionDef, ast.AsyncFunctionDef)):
                continue
            sl = Slice(fi.node, package_methods=pkg_methods)
            for n in ast.walk(fi.node):
                if not isinstance(n, ast.Return) or n.value is None:
                    continue
                src = _returns_memo(sl, n.value, n.lineno, memo_fns)
                if src is None:
                    continue
                m = memo_fns[src]
                if not _returns_array(m):
                    continue
                public = not fi.name.startswith("_") or fi.name.startswith("__")
                if public:
                    res["violations"].append({"kind": "handout", "table": m.qualname, "function": fi, "lineno": n.lineno,
                                              "what": f"returns the array `{m.qualname}` keeps in its functools cache, not a copy: a caller who "
                                              "changes the result in place changes what every later call with the same arguments gets",
                                              "key": "(argument tuple)", "value": ast.unparse(n.value)[:120]})
    return res


def _returns_memo(sl: Slice, e, at, memo_fns, seen=None):
    """Name of the memoised function whose stored object `e` is (through local names, conditional expressions), else None."""
    seen = seen or set()
    if isinstance(e, ast.Call) and isinstance(e.func, ast.Name) and e.func.id in memo_fns:
        return e.func.id
    if isinstance(e, ast.IfExp):
        return _returns_memo(sl, e.body, at, memo_fns, seen) or _returns_memo(sl, e.orelse, at, memo_fns, seen)
    if isinstance(e, ast.Name) and e.id in sl.defs and e.id not in seen:
        seen.add(e.id)
        for lineno, kind, node in sl.defs[e.id]:
            if lineno <= at and kind == "value" and isinstance(node, ast.expr):
                r = _returns_memo(sl, node, lineno, memo_fns, seen)
                if r:
                    return r
    return None


def _returns_array(fi):
    for n in ast.walk(fi.node):
        if isinstance(n, ast.Return) and n.value is not None:
            for c in ast.walk(n.value):
                if isinstance(c, ast.Call) and isinstance(c.func, ast.Attribute) and c.func.attr in ARRAY_MAKERS:
                    return True
    return False


def reachable(prog: Program, roots, depth=6):
    """Functions reachable from `roots` through calls and property reads resolved by simple name inside the package."""
    by_name = {}
    for f in prog.all_functions:
        by_name.setdefault(f.name, []).append(f)
    seen, frontier = {}, list(roots)
    for _ in range(depth):
        nxt = []
        for f in frontier:
            if id(f) in seen:
                continue
            seen[id(f)] = f
            for n in ast.walk(f.node):
                if isinstance(n, ast.Attribute):
                    nxt.extend(by_name.get(n.attr, []))
                elif isinstance(n, ast.Name):
                    nxt.extend(by_name.get(n.id, []))
        frontier = nxt
    return list(seen.values())


CONTROL = '''
_T = {}
_G = {}
def bad(z, shift, axis):
    key = (len(z), shift.value)
    if key not in _T:
        ramp = shift * z.dt
        _T[key] = ramp[axis]
    return _T[key]
def good(z, shift, axis):
    key = (len(z), shift.value, shift.unit, z.dt, axis)
    if key not in _G:
        ramp = shift * z.dt * len(z)
        _G[key] = ramp[axis]
    return _G[key].copy()
'''


def run_control():
    """(atoms reported for `bad`, atoms reported for `good`) on the embedded example."""
    import types
    tree = ast.parse(CONTROL)
    out = {}
    storage = types.SimpleNamespace(of=lambda c, a: [], views=[])
    for fn in tree.body:
        if isinstance(fn, ast.FunctionDef):
            sl = Slice(fn)
            for n in ast.walk(fn):
                if isinstance(n, ast.Assign) and isinstance(n.targets[0], ast.Subscript) and isinstance(n.targets[0].value, ast.Name) \
                        and n.targets[0].value.id in ("_T", "_G"):
                    ka = sl.atoms(n.targets[0].slice, n.lineno)
                    va = sl.atoms(n.value, n.lineno)
                    out[fn.name] = [w for w in (covered(a, ka, storage, None) for a in sorted(va)) if w]
    return out.get("bad", []), out.get("good", [])


def check(run, prog: Program, pid, rule="RM"):
    from .coherence import anchor_functions
    from .symeval import ALL_EVALUATORS
    res = analyse(prog)
    entered = set(run.analysed["functions"])
    for ev_ in ALL_EVALUATORS:
        if ev_.prog is prog or getattr(ev_.prog, "repo", None) == prog.repo:
            entered |= set(ev_.touched)
    fmap = {f"{f.module}:{f.qualname}": f for f in prog.all_functions}
    roots = [fmap[k] for k in entered if k in fmap] + anchor_functions(prog, pid)
    reach = {id(f) for f in reachable(prog, roots)}
    bad, good = run_control()
    ok = len(bad) == 3 and not good
    run.ob(rule, "(embedded example)", "control: a table keyed by (len(z), shift.value) holding shift*z.dt[axis]; its twin keyed by every input",
           "the memo rule reports the unit-less shift, z.dt and axis for the first and nothing for the second", True if ok else None,
           found=f"bad={bad} good={good}")
    run.extra["memo_tables"] = {
        "tables": res["tables"], "functools_memo_functions": res["memo_functions"],
        "stores_examined": [{"table": s["table"], "function": s["function"].where, "key": s["key"], "value": s["value"],
                             "key_atoms": s["key_atoms"], "value_atoms": s["value_atoms"]} for s in res["stores"]],
    }
    mine = [v for v in res["violations"] if id(v["function"]) in reach]
    seen = set()
    for v in mine:
        fi = v["function"]
        k = (fi.where, v["what"])
        if k in seen:
            continue
        seen.add(k)
        run.ob(rule, f"{fi.module.replace('.', '/')}.py:{v['lineno']} {fi.qualname}", f"{v['table']}[{v['key']}] = {v['value']}"[:200],
               "a table that outlives the call is keyed by everything its entries were computed from, and hands out copies" if v["kind"] == "key"
               else ("an explicit Dask name (a key of the shared task graph) determines everything the task is built from" if v["kind"] == "graph"
                     else "a scratch array that outlives the call never becomes (part of) a result" if v["kind"] == "shared"
                     else "an object kept in a process-lifetime cache is not handed to callers who may change it"), False, found=v["what"], nontrivial=True)
    if not mine:
        n_t = sum(1 for t in res["tables"] if t["filled_in_functions"])
        run.ob(rule, "pulsarbat (all modules)", f"{len(res['tables'])} empty module/class-level dict(s), {n_t} filled inside functions, "
               f"{len(res['memo_functions'])} functools-memoised function(s), {len(res['stores'])} store(s) examined",
               "no result reachable from this property's functions comes out of a process-lifetime table whose key leaves out an input, "
               "and no cached array is handed out", True,
               found=f"{len(res['violations'])} violation(s) in the package, none reachable here", nontrivial=False)
    return res
