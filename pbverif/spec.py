"""Helpers shared by the per-property rule modules: running the term evaluator, comparing terms,
recording obligations with the right three-valued status."""
from __future__ import annotations

import sympy as sp

from . import terms
from .report import OK, BAD, UNK
from .symeval import Evaluator, Raised, Frame
from .values import Unsupported, DimensionError, Num, ObjV, StrV, NoneV, TupleV, DictV

MODEL_GAP_EXC = {"AttributeError", "TypeError", "NameError", "ImportError", "RuntimeError"}


class Checker:
    def __init__(self, run, prog):
        self.run, self.prog = run, prog
        self.points = 6 if run.tier == "quick" else 40
        self.how = {}

    # --------------------------------------------------------------- evaluator
    def evaluator(self, oracle=None, overrides=None):
        return Evaluator(self.prog, oracle=oracle, overrides=overrides, seed=self.run.seed)

    def attempt(self, rule, where, construct, what, thunk, allowed_guards=None, ev=None):
        """Run `thunk` (which uses the evaluator); translate evaluator failures into obligations.
        Returns the value or None."""
        try:
            v = thunk()
        except Unsupported as e:
            self.run.ob(rule, where, construct, what, UNK, note=f"outside the analyser's vocabulary: {e}")
            return None
        except DimensionError as e:
            self.run.ob(rule, where, construct, what, BAD, found=str(e),
                        expected="dimensionally consistent unit conversion", nontrivial=True)
            return None
        except Raised as e:
            st = UNK if e.exc_name in MODEL_GAP_EXC else BAD
            if st == BAD and not self._own_raise(e):
                st = UNK
            self.run.ob(rule, where, construct, what, st,
                        found=f"raises {e} for every valid symbolic input",
                        expected="returns a result", nontrivial=True,
                        note=None if st == BAD else "raised outside the functions this property is anchored in, or an exception class "
                                                    f"typical of a modelling gap: reported as inconclusive [{str(e)[:160]}]")
            return None
        except (RecursionError,) as e:
            self.run.ob(rule, where, construct, what, UNK, note=f"analysis did not terminate: {e}")
            return None
        if ev is not None and allowed_guards is not None:
            for fn, test, exc, wh in ev.guard_log:
                if not any(g(fn, test, exc) if callable(g) else (g == exc or g == (fn, exc)) for g in allowed_guards):
                    self.run.ob(rule, where, construct, what + " [guards met on the way]", UNK,
                                note=f"an arm raising {exc} under undecided test `{test}` in {fn} is not in the "
                                     f"rule's table of expected rejection guards ({wh})")
                    return None
        if ev is not None:
            for f in ev.touched:
                self.run.analysed["functions"].add(f)
                self.run.analysed["modules"].add(f.split(":")[0])
            self.run.analysed["call_sites"] += ev.calls_inlined
            self.run.analysed["api_entries"] |= set(getattr(ev, "api_used", set()))
        return v

    def _own_raise(self, e):
        """A raise is attributed to the property only if it happens in one of the functions the property's rules are
        anchored in; a raise elsewhere (a helper the scenario merely passes through) makes the obligation inconclusive."""
        from .selftest import ANCHORS
        origin = getattr(e, "origin", None)
        if origin is None:
            return False
        names = {q for _, q in ANCHORS.get(self.run.pid, [])}
        short = {q.split(".")[-1] for q in names}
        return origin in names or origin in short or origin.split(".")[-1] in short

    # ---------------------------------------------------------------- compare
    def eq(self, rule, where, construct, what, found, expected, constraints=None, assume=None, note=None):
        """Obligation found == expected (sympy terms or Num)."""
        f = found.expr if isinstance(found, Num) else sp.sympify(found)
        e = expected.expr if isinstance(expected, Num) else sp.sympify(expected)
        v = terms.equal(f, e, seed=self.run.seed, points=self.points, constraints=constraints, assume=assume)
        st = OK if v.equal is True else BAD if v.equal is False else UNK
        if st == BAD:
            # a term built from operators the reference does not use (another algorithm, e.g. rfft/irfft instead of
            # fft/ifft) cannot be compared by normal forms: inconclusive, never a violation
            fo = {a.func.__name__ for a in f.atoms(sp.core.function.AppliedUndef)}
            eo = {a.func.__name__ for a in e.atoms(sp.core.function.AppliedUndef)}
            foreign = {x for x in fo - eo if x.startswith(("FFT_", "IFFT_", "Opq", "Call"))}
            if foreign:
                st = UNK
                note = (note + "; " if note else "") + f"the extracted term uses operators outside the reference vocabulary: {sorted(foreign)}"
        self.how[v.how.split(" ")[0]] = self.how.get(v.how.split(" ")[0], 0) + 1
        self.run.ob(rule, where, construct, what, st, found=str(f), expected=str(e),
                    nontrivial=v.how not in ("syntactic",), witness=v.witness,
                    note=(note + "; " if note else "") + f"decided by: {v.how}" + (f"; difference {v.diff}" if v.diff else ""))
        return v.equal

    def same(self, rule, where, construct, what, ok, found=None, expected=None, nontrivial=False, note=None):
        self.run.ob(rule, where, construct, what, OK if ok else BAD, found=found, expected=expected,
                    nontrivial=nontrivial, note=note)
        return ok

    def unk(self, rule, where, construct, what, note):
        self.run.ob(rule, where, construct, what, UNK, note=note)

    # --------------------------------------------------------------- equal values in different forms
    def forms(self, rule, where, construct, scenario, forms, what, oracle=None, overrides=None):
        """`scenario(ev, v)` is evaluated for each (label, value) of `forms`, all of which denote the same input; the outcomes
        (exception class, or class / metadata terms / shapes of the result) must agree with that of the first form."""
        outs = []
        for label, v in forms:
            ev = self.evaluator(oracle=oracle, overrides=overrides)
            try:
                outs.append((label, value_signature(scenario(ev, v))))
            except Raised as e:
                outs.append((label, ("raises", e.exc_name)))
            except (Unsupported, DimensionError, RecursionError) as e:
                self.run.ob(rule, where, f"{construct} [{label}]", "evaluates", UNK, note=f"outside the analyser's vocabulary: {e}")
                outs.append((label, None))
            for f in ev.touched:
                self.run.analysed["functions"].add(f)
        ref_label, ref = outs[0]
        if ref is None:
            return
        for label, got in outs[1:]:
            if got is None:
                continue
            self.run.ob(rule, where, f"{construct} [{label} vs {ref_label}]", what, OK if got == ref else BAD,
                        found=_sig_diff(ref, got), expected="identical outcome", nontrivial=True)

    # --------------------------------------------------------------- number types
    def number_types(self, rule, where, construct, scenario, kinds=("int64", "int32"), oracle=None, overrides=None):
        """Rule NT: a result does not depend on whether a number was handed over as a Python number or as a NumPy scalar.

        `scenario(ev, mk)` evaluates one call, building every caller-supplied number with `mk(expr)`.  It is evaluated once
        with Python numbers and once per NumPy scalar type in `kinds` (numpy.int64 is not an int, numpy.float32 is not a
        float: a branch on the Python type takes them elsewhere); the outcomes (exception class, or class, metadata terms and
        shapes of the result) are compared."""
        from .extapi import np_scalar

        def outcome(mk):
            ev = self.evaluator(oracle=oracle, overrides=overrides)
            try:
                v = scenario(ev, mk)
            except Raised as e:
                return ("raises", e.exc_name), ev
            return value_signature(v), ev
        try:
            ref, ev0 = outcome(lambda e: Num(sp.sympify(e)))
        except (Unsupported, DimensionError, RecursionError) as e:
            self.run.ob(rule, where, construct, "evaluates with Python numbers", UNK, note=f"outside the analyser's vocabulary: {e}")
            return
        for f in ev0.touched:
            self.run.analysed["functions"].add(f)
        for k in kinds:
            try:
                got, _ = outcome(lambda e, k=k: np_scalar(e, k))
            except (Unsupported, DimensionError, RecursionError) as e:
                self.run.ob(rule, where, f"{construct} [numpy.{k}]", "evaluates with NumPy scalars", UNK, note=f"outside the analyser's vocabulary: {e}")
                continue
            self.run.ob(rule, where, f"{construct} [numpy.{k}]",
                        "the outcome for a NumPy scalar is the outcome for the equal Python number", OK if got == ref else BAD,
                        found=_sig_diff(ref, got), expected="identical outcome", nontrivial=True)


def value_signature(v):
    """A comparable description of an evaluator value: class, metadata terms, shapes (not dtypes of scalars, not tags)."""
    if isinstance(v, ObjV):
        return ("obj", v.cls.name, tuple(sorted((k, value_signature(x)) for k, x in v.attrs.items())))
    if isinstance(v, Num):
        shp = tuple(str(d) for d in v.shape) if v.shape else None
        return ("num", v.kind, str(v.expr), shp)
    if isinstance(v, TupleV):
        return ("tuple", tuple(value_signature(x) for x in v.items))
    if isinstance(v, DictV):
        return ("dict", tuple(sorted((str(k), value_signature(x)) for k, x in v.d.items())))
    if isinstance(v, StrV):
        return ("str", v.s)
    return ("other", repr(v)[:200])


def _sig_diff(a, b):
    if a == b:
        return "identical"
    if a[0] != b[0] or a[0] != "obj":
        return f"Python number: {str(a)[:160]}; NumPy scalar: {str(b)[:160]}"
    da, db = dict(a[2]), dict(b[2])
    diffs = [f"{k}: {str(da.get(k))[:120]} vs {str(db.get(k))[:120]}" for k in sorted(set(da) | set(db)) if da.get(k) != db.get(k)]
    return ("class " + a[1] + " vs " + b[1] + "; " if a[1] != b[1] else "") + "; ".join(diffs)[:400]


def FR():
    return Frame(None, None, None, {}, 0)


def obj_summary(o):
    if isinstance(o, ObjV):
        return f"{o.cls.name}(" + ", ".join(f"{k}={v}" for k, v in o.attrs.items() if k != "_data") + ")"
    return repr(o)


def nonzero_shift_oracle(extra=None):
    """Decides only the early-exit test of time_shift (`np.allclose(shift, 0)`): the scenarios shift by a non-zero amount.
    Every other undecided test is left to if-conversion."""
    import ast as _ast

    def o(c, node, fr):
        if fr is not None and fr.fi is not None and fr.fi.qualname == "time_shift" and node is not None:
            test = getattr(node, "test", node)
            try:
                txt = _ast.unparse(test)
            except Exception:
                txt = ""
            if txt.replace(" ", "") in ("np.allclose(shift,0)", "numpy.allclose(shift,0)", "np.allclose(shift,0.0)"):
                return False
        if extra is not None:
            return extra(c, node, fr)
        return None
    return o
